//! Fact extractor for the /verif static analysis of biodivine-hctl-model-checker.
//!
//! A `rustc_private` driver, injected with `RUSTC_WORKSPACE_WRAPPER`. For every local crate it is
//! invoked on, it writes ONE json file (`$HCTL_FACTS_DIR/<crate>-<type>-<pid>.json`) with:
//!   * `fns`:  every function-like body owner as a *resolved* expression tree (HIR + typeck),
//!   * `adts`: local enums/structs with variants and fields,
//!   * `mir`:  per function, the resolved call terminators and assert terminators.
//! The driver contains no knowledge about any property; rules live in /verif/rules (Python).

#![feature(rustc_private)]

extern crate rustc_abi;
extern crate rustc_ast;
extern crate rustc_driver;
extern crate rustc_hir;
extern crate rustc_interface;
extern crate rustc_middle;
extern crate rustc_session;
extern crate rustc_span;

use rustc_driver::Compilation;
use rustc_hir as hir;
use rustc_hir::def::{DefKind, Res};
use rustc_hir::def_id::{DefId, LocalDefId};
use rustc_interface::interface;
use rustc_middle::mir;
use rustc_middle::ty::{self, TyCtxt, TypeckResults};
use rustc_span::Span;
use std::collections::HashSet;
use std::fmt::Write as _;

// ---------------------------------------------------------------------------------------------
// Minimal JSON
// ---------------------------------------------------------------------------------------------

#[derive(Clone)]
enum J {
    Null,
    Bool(bool),
    Num(i128),
    Str(String),
    Arr(Vec<J>),
    Obj(Vec<(&'static str, J)>),
}

impl J {
    fn s<T: Into<String>>(x: T) -> J {
        J::Str(x.into())
    }
    fn write(&self, out: &mut String) {
        match self {
            J::Null => out.push_str("null"),
            J::Bool(b) => out.push_str(if *b { "true" } else { "false" }),
            J::Num(n) => {
                let _ = write!(out, "{n}");
            }
            J::Str(s) => {
                out.push('"');
                for c in s.chars() {
                    match c {
                        '"' => out.push_str("\\\""),
                        '\\' => out.push_str("\\\\"),
                        '\n' => out.push_str("\\n"),
                        '\r' => out.push_str("\\r"),
                        '\t' => out.push_str("\\t"),
                        c if (c as u32) < 0x20 => {
                            let _ = write!(out, "\\u{:04x}", c as u32);
                        }
                        c => out.push(c),
                    }
                }
                out.push('"');
            }
            J::Arr(v) => {
                out.push('[');
                for (i, x) in v.iter().enumerate() {
                    if i > 0 {
                        out.push(',');
                    }
                    x.write(out);
                }
                out.push(']');
            }
            J::Obj(v) => {
                out.push('{');
                for (i, (k, x)) in v.iter().enumerate() {
                    if i > 0 {
                        out.push(',');
                    }
                    let _ = write!(out, "\"{k}\":");
                    x.write(out);
                }
                out.push('}');
            }
        }
    }
}

// ---------------------------------------------------------------------------------------------
// Extraction
// ---------------------------------------------------------------------------------------------

struct Ex<'tcx> {
    tcx: TyCtxt<'tcx>,
    snip_done: HashSet<Span>,
}

struct FnCx<'a, 'tcx> {
    ex: &'a mut Ex<'tcx>,
    typeck: &'tcx TypeckResults<'tcx>,
    owner: LocalDefId,
}

impl<'tcx> Ex<'tcx> {
    fn path(&self, d: DefId) -> String {
        self.tcx.def_path_str(d)
    }

    fn loc(&self, sp: Span) -> (String, usize, usize, usize, usize) {
        let sm = self.tcx.sess.source_map();
        let sp = sp.source_callsite();
        let lo = sm.lookup_char_pos(sp.lo());
        let hi = sm.lookup_char_pos(sp.hi());
        let file = match &lo.file.name {
            rustc_span::FileName::Real(r) => match r.local_path() {
                Some(p) => p.to_string_lossy().to_string(),
                None => format!("{:?}", r),
            },
            other => format!("{:?}", other),
        };
        (file, lo.line, lo.col.0 + 1, hi.line, hi.col.0 + 1)
    }

    fn macro_chain(&self, sp: Span) -> Vec<String> {
        // innermost first, outermost last
        let mut out = Vec::new();
        for ed in sp.macro_backtrace() {
            match ed.kind {
                rustc_span::ExpnKind::Macro(_, name) => out.push(name.to_string()),
                rustc_span::ExpnKind::Desugaring(k) => out.push(format!("desugar:{:?}", k)),
                rustc_span::ExpnKind::AstPass(k) => out.push(format!("astpass:{:?}", k)),
                rustc_span::ExpnKind::Root => {}
            }
        }
        out
    }
}

impl<'a, 'tcx> FnCx<'a, 'tcx> {
    fn tcx(&self) -> TyCtxt<'tcx> {
        self.ex.tcx
    }

    fn base(&mut self, k: &'static str, e_span: Span, ty: Option<String>, id: u32) -> Vec<(&'static str, J)> {
        let mut v: Vec<(&'static str, J)> = vec![("k", J::s(k)), ("id", J::Num(id as i128))];
        let (_f, l, c, hl, hc) = self.ex.loc(e_span);
        v.push(("sp", J::Arr(vec![J::Num(l as i128), J::Num(c as i128), J::Num(hl as i128), J::Num(hc as i128)])));
        if let Some(t) = ty {
            v.push(("ty", J::s(t)));
        }
        if e_span.from_expansion() {
            let chain = self.ex.macro_chain(e_span);
            // only real macros are interesting; desugarings are reported through `src`
            let macs: Vec<J> = chain.iter().filter(|m| !m.starts_with("desugar:")).map(|m| J::s(m.clone())).collect();
            if !macs.is_empty() {
                v.push(("mac", J::Arr(macs)));
                let cs = e_span.source_callsite();
                if self.ex.snip_done.insert(cs) {
                    if let Ok(snip) = self.tcx().sess.source_map().span_to_snippet(cs) {
                        v.push(("snip", J::s(snip)));
                    }
                }
            }
        }
        v
    }

    fn res_json(&self, res: Res) -> Vec<(&'static str, J)> {
        let mut v = Vec::new();
        match res {
            Res::Local(hid) => {
                v.push(("res", J::s("local")));
                v.push(("lid", J::Num(hid.local_id.as_u32() as i128)));
                v.push(("name", J::s(self.tcx().hir_name(hid).to_string())));
            }
            Res::Def(kind, did) => {
                v.push(("res", J::s("def")));
                v.push(("dk", J::s(format!("{:?}", kind))));
                v.push(("def", J::s(self.ex.path(did))));
                if let DefKind::Ctor(..) = kind {
                    // report the variant / struct path instead of the ctor
                    let parent = self.tcx().parent(did);
                    v.push(("ctor_of", J::s(self.ex.path(parent))));
                }
                if did.is_local() {
                    v.push(("local_def", J::Bool(true)));
                }
            }
            Res::SelfCtor(did) | Res::SelfTyAlias { alias_to: did, .. } => {
                v.push(("res", J::s("self")));
                v.push(("def", J::s(self.ex.path(did))));
            }
            Res::SelfTyParam { .. } => v.push(("res", J::s("selfparam"))),
            Res::PrimTy(p) => {
                v.push(("res", J::s("prim")));
                v.push(("name", J::s(p.name_str())));
            }
            other => {
                v.push(("res", J::s(format!("{:?}", other))));
            }
        }
        v
    }

    fn try_instance(&self, did: DefId, args: ty::GenericArgsRef<'tcx>) -> Option<String> {
        let tcx = self.tcx();
        if !matches!(tcx.def_kind(did), DefKind::AssocFn | DefKind::Fn) {
            return None;
        }
        let env = ty::TypingEnv::post_analysis(tcx, self.owner);
        // Only attempt resolution on fully known (non-param) args to avoid ICEs on generic code.
        let has_infer = args.iter().any(|a| format!("{:?}", a).contains("?"));
        if has_infer {
            return None;
        }
        match ty::Instance::try_resolve(tcx, env, did, args) {
            Ok(Some(inst)) => Some(self.ex.path(inst.def_id())),
            _ => None,
        }
    }

    fn qpath(&mut self, q: &hir::QPath<'tcx>, hid: hir::HirId) -> Vec<(&'static str, J)> {
        let res = self.typeck.qpath_res(q, hid);
        let mut v = self.res_json(res);
        if let Res::Def(_, did) = res {
            if let Some(args) = self.typeck.node_args_opt(hid) {
                if !args.is_empty() {
                    v.push(("gargs", J::s(format!("{:?}", args))));
                }
                if let Some(i) = self.try_instance(did, args) {
                    v.push(("inst", J::s(i)));
                }
            }
        }
        v
    }

    fn lit(&self, l: &hir::Lit) -> Vec<(&'static str, J)> {
        use rustc_ast::LitKind::*;
        match &l.node {
            Str(s, _) => vec![("lk", J::s("str")), ("v", J::s(s.to_string()))],
            ByteStr(b, _) => vec![("lk", J::s("bytestr")), ("v", J::s(String::from_utf8_lossy(b.as_byte_str()).to_string())), ("bytes", J::Arr(b.as_byte_str().iter().map(|x| J::Num(*x as i128)).collect()))],
            CStr(b, _) => vec![("lk", J::s("cstr")), ("v", J::s(String::from_utf8_lossy(b.as_byte_str()).to_string()))],
            Byte(b) => vec![("lk", J::s("byte")), ("v", J::Num(*b as i128))],
            Char(c) => vec![("lk", J::s("char")), ("v", J::s(c.to_string()))],
            Int(n, _) => vec![("lk", J::s("int")), ("v", J::Num(n.get() as i128))],
            Float(s, _) => vec![("lk", J::s("float")), ("v", J::s(s.to_string()))],
            Bool(b) => vec![("lk", J::s("bool")), ("v", J::Bool(*b))],
            Err(_) => vec![("lk", J::s("err"))],
        }
    }

    fn pat(&mut self, p: &'tcx hir::Pat<'tcx>) -> J {
        use hir::PatKind::*;
        let id = p.hir_id.local_id.as_u32();
        let ty = self.typeck.pat_ty(p).to_string();
        let mut v: Vec<(&'static str, J)> = Vec::new();
        match &p.kind {
            Wild | Missing => v.push(("k", J::s("wild"))),
            Binding(mode, hid, ident, sub) => {
                v.push(("k", J::s("bind")));
                v.push(("lid", J::Num(hid.local_id.as_u32() as i128)));
                v.push(("name", J::s(ident.name.to_string())));
                v.push(("mode", J::s(format!("{:?}", mode))));
                if let Some(s) = sub {
                    v.push(("sub", self.pat(s)));
                }
            }
            Struct(q, fields, rest) => {
                v.push(("k", J::s("pstruct")));
                let r = self.qpath(q, p.hir_id);
                v.extend(r);
                let fs: Vec<J> = fields
                    .iter()
                    .map(|f| J::Obj(vec![("name", J::s(f.ident.name.to_string())), ("pat", self.pat(f.pat))]))
                    .collect();
                v.push(("fields", J::Arr(fs)));
                v.push(("rest", J::Bool(rest.is_some())));
            }
            TupleStruct(q, subs, ddpos) => {
                v.push(("k", J::s("pts")));
                let r = self.qpath(q, p.hir_id);
                v.extend(r);
                v.push(("subs", J::Arr(subs.iter().map(|s| self.pat(s)).collect())));
                match ddpos.as_opt_usize() {
                    Some(n) => v.push(("dd", J::Num(n as i128))),
                    None => v.push(("dd", J::Null)),
                }
            }
            Or(ps) => {
                v.push(("k", J::s("por")));
                v.push(("subs", J::Arr(ps.iter().map(|s| self.pat(s)).collect())));
            }
            Never => v.push(("k", J::s("pnever"))),
            Tuple(ps, ddpos) => {
                v.push(("k", J::s("ptup")));
                v.push(("subs", J::Arr(ps.iter().map(|s| self.pat(s)).collect())));
                match ddpos.as_opt_usize() {
                    Some(n) => v.push(("dd", J::Num(n as i128))),
                    None => v.push(("dd", J::Null)),
                }
            }
            Box(s) | Deref(s) => {
                v.push(("k", J::s("pderef")));
                v.push(("sub", self.pat(s)));
            }
            Ref(s, _, _) => {
                v.push(("k", J::s("pref")));
                v.push(("sub", self.pat(s)));
            }
            Expr(pe) => match &pe.kind {
                hir::PatExprKind::Lit { lit, negated } => {
                    v.push(("k", J::s("plit")));
                    v.extend(self.lit(lit));
                    v.push(("neg", J::Bool(*negated)));
                }
                hir::PatExprKind::Path(q) => {
                    v.push(("k", J::s("ppath")));
                    let r = self.qpath(q, pe.hir_id);
                    v.extend(r);
                }
            },
            Guard(s, g) => {
                v.push(("k", J::s("pguard")));
                v.push(("sub", self.pat(s)));
                v.push(("guard", self.expr(g)));
            }
            Range(lo, hi, end) => {
                v.push(("k", J::s("prange")));
                let side = |pe: &Option<&'tcx hir::PatExpr<'tcx>>, this: &mut Self| -> J {
                    match pe {
                        Some(pe) => match &pe.kind {
                            hir::PatExprKind::Lit { lit, negated } => {
                                let mut o = this.lit(lit);
                                o.push(("neg", J::Bool(*negated)));
                                J::Obj(o)
                            }
                            hir::PatExprKind::Path(q) => J::Obj(this.qpath(q, pe.hir_id)),
                        },
                        None => J::Null,
                    }
                };
                let l = side(lo, self);
                let h = side(hi, self);
                v.push(("lo", l));
                v.push(("hi", h));
                v.push(("end", J::s(format!("{:?}", end))));
            }
            Slice(a, m, b) => {
                v.push(("k", J::s("pslice")));
                v.push(("before", J::Arr(a.iter().map(|s| self.pat(s)).collect())));
                v.push(("mid", match m { Some(s) => self.pat(s), None => J::Null }));
                v.push(("after", J::Arr(b.iter().map(|s| self.pat(s)).collect())));
            }
            Err(_) => v.push(("k", J::s("perr"))),
        }
        v.push(("id", J::Num(id as i128)));
        v.push(("ty", J::s(ty)));
        let (_f, l, _c, _hl, _hc) = self.ex.loc(p.span);
        v.push(("ln", J::Num(l as i128)));
        J::Obj(v)
    }

    fn block(&mut self, b: &'tcx hir::Block<'tcx>) -> (J, J) {
        let mut stmts = Vec::new();
        for s in b.stmts {
            match &s.kind {
                hir::StmtKind::Let(l) => {
                    let (_f, ln, _c, _hl, _hc) = self.ex.loc(s.span);
                    let mut v: Vec<(&'static str, J)> = vec![("k", J::s("let")), ("ln", J::Num(ln as i128)), ("pat", self.pat(l.pat))];
                    v.push(("init", match l.init { Some(e) => self.expr(e), None => J::Null }));
                    v.push(("els", match l.els {
                        Some(b) => {
                            let (st, ex) = self.block(b);
                            J::Obj(vec![("k", J::s("block")), ("stmts", st), ("expr", ex)])
                        }
                        None => J::Null,
                    }));
                    stmts.push(J::Obj(v));
                }
                hir::StmtKind::Item(_) => {
                    stmts.push(J::Obj(vec![("k", J::s("item"))]));
                }
                hir::StmtKind::Expr(e) => {
                    stmts.push(J::Obj(vec![("k", J::s("sexpr")), ("e", self.expr(e))]));
                }
                hir::StmtKind::Semi(e) => {
                    stmts.push(J::Obj(vec![("k", J::s("semi")), ("e", self.expr(e))]));
                }
            }
        }
        let tail = match b.expr {
            Some(e) => self.expr(e),
            None => J::Null,
        };
        (J::Arr(stmts), tail)
    }

    fn expr(&mut self, e: &'tcx hir::Expr<'tcx>) -> J {
        use hir::ExprKind::*;
        let id = e.hir_id.local_id.as_u32();
        let ty = self.typeck.expr_ty_opt(e).map(|t| t.to_string());
        // overloaded operator / index / deref?
        let ovl: Option<String> = if self.typeck.is_method_call(e) && !matches!(e.kind, MethodCall(..)) {
            self.typeck.type_dependent_def_id(e.hir_id).map(|d| self.ex.path(d))
        } else {
            None
        };
        let mut v;
        match &e.kind {
            DropTemps(inner) | Use(inner, _) | Type(inner, _) => {
                return self.expr(inner);
            }
            Call(callee, args) => {
                v = self.base("call", e.span, ty, id);
                if let Path(q) = &callee.kind {
                    let r = self.qpath(q, callee.hir_id);
                    v.extend(r);
                } else {
                    v.push(("callee", self.expr(callee)));
                }
                v.push(("args", J::Arr(args.iter().map(|a| self.expr(a)).collect())));
                v.push(("atys", J::Arr(args.iter().map(|a| J::s(self.typeck.expr_ty_adjusted(a).to_string())).collect())));
            }
            MethodCall(seg, recv, args, _) => {
                v = self.base("mcall", e.span, ty, id);
                v.push(("name", J::s(seg.ident.name.to_string())));
                if let Some(did) = self.typeck.type_dependent_def_id(e.hir_id) {
                    v.push(("def", J::s(self.ex.path(did))));
                    if did.is_local() {
                        v.push(("local_def", J::Bool(true)));
                    }
                    if let Some(ga) = self.typeck.node_args_opt(e.hir_id) {
                        if let Some(i) = self.try_instance(did, ga) {
                            v.push(("inst", J::s(i)));
                        }
                    }
                }
                v.push(("recv", self.expr(recv)));
                v.push(("rty", J::s(self.typeck.expr_ty_adjusted(recv).to_string())));
                v.push(("args", J::Arr(args.iter().map(|a| self.expr(a)).collect())));
                v.push(("atys", J::Arr(args.iter().map(|a| J::s(self.typeck.expr_ty_adjusted(a).to_string())).collect())));
            }
            Tup(es) => {
                v = self.base("tup", e.span, ty, id);
                v.push(("es", J::Arr(es.iter().map(|a| self.expr(a)).collect())));
            }
            Array(es) => {
                v = self.base("array", e.span, ty, id);
                v.push(("es", J::Arr(es.iter().map(|a| self.expr(a)).collect())));
            }
            Binary(op, l, r) => {
                v = self.base("bin", e.span, ty, id);
                v.push(("op", J::s(op.node.as_str())));
                v.push(("l", self.expr(l)));
                v.push(("r", self.expr(r)));
            }
            Unary(op, x) => {
                v = self.base("un", e.span, ty, id);
                v.push(("op", J::s(match op {
                    hir::UnOp::Deref => "*",
                    hir::UnOp::Not => "!",
                    hir::UnOp::Neg => "-",
                })));
                v.push(("e", self.expr(x)));
            }
            Lit(l) => {
                v = self.base("lit", e.span, ty, id);
                v.extend(self.lit(l));
            }
            Cast(x, _) => {
                v = self.base("cast", e.span, ty, id);
                v.push(("e", self.expr(x)));
            }
            Let(l) => {
                v = self.base("letx", e.span, ty, id);
                v.push(("pat", self.pat(l.pat)));
                v.push(("e", self.expr(l.init)));
            }
            If(c, t, el) => {
                v = self.base("if", e.span, ty, id);
                v.push(("c", self.expr(c)));
                v.push(("t", self.expr(t)));
                v.push(("e", match el { Some(x) => self.expr(x), None => J::Null }));
            }
            Loop(b, label, src, _) => {
                v = self.base("loop", e.span, ty, id);
                v.push(("src", J::s(src.name())));
                if let Some(l) = label {
                    v.push(("label", J::s(l.ident.name.to_string())));
                }
                let (st, ex) = self.block(b);
                v.push(("stmts", st));
                v.push(("expr", ex));
            }
            Match(scrut, arms, src) => {
                v = self.base("match", e.span, ty, id);
                v.push(("src", J::s(match src {
                    hir::MatchSource::Normal => "match",
                    hir::MatchSource::Postfix => "postfix",
                    hir::MatchSource::ForLoopDesugar => "for",
                    hir::MatchSource::TryDesugar(_) => "try",
                    hir::MatchSource::AwaitDesugar => "await",
                    hir::MatchSource::FormatArgs => "format_args",
                })));
                v.push(("e", self.expr(scrut)));
                let mut arms_j = Vec::new();
                for a in arms.iter() {
                    let (_f, ln, _c, _hl, _hc) = self.ex.loc(a.span);
                    arms_j.push(J::Obj(vec![
                        ("pat", self.pat(a.pat)),
                        ("guard", match a.guard { Some(g) => self.expr(g), None => J::Null }),
                        ("body", self.expr(a.body)),
                        ("ln", J::Num(ln as i128)),
                    ]));
                }
                v.push(("arms", J::Arr(arms_j)));
            }
            Closure(c) => {
                v = self.base("closure", e.span, ty, id);
                let body = self.tcx().hir_body(c.body);
                v.push(("cdef", J::s(self.ex.path(c.def_id.to_def_id()))));
                v.push(("params", J::Arr(body.params.iter().map(|p| self.pat(p.pat)).collect())));
                v.push(("body", self.expr(body.value)));
            }
            Block(b, label) => {
                v = self.base("block", e.span, ty, id);
                if let Some(l) = label {
                    v.push(("label", J::s(l.ident.name.to_string())));
                }
                if matches!(b.rules, hir::BlockCheckMode::UnsafeBlock(_)) {
                    v.push(("unsafe", J::Bool(true)));
                }
                let (st, ex) = self.block(b);
                v.push(("stmts", st));
                v.push(("expr", ex));
            }
            Assign(l, r, _) => {
                v = self.base("assign", e.span, ty, id);
                v.push(("l", self.expr(l)));
                v.push(("r", self.expr(r)));
            }
            AssignOp(op, l, r) => {
                v = self.base("assignop", e.span, ty, id);
                v.push(("op", J::s(op.node.as_str())));
                v.push(("l", self.expr(l)));
                v.push(("r", self.expr(r)));
            }
            Field(x, ident) => {
                v = self.base("field", e.span, ty, id);
                v.push(("name", J::s(ident.name.to_string())));
                v.push(("e", self.expr(x)));
            }
            Index(x, i, _) => {
                v = self.base("index", e.span, ty, id);
                v.push(("e", self.expr(x)));
                v.push(("i", self.expr(i)));
                v.push(("ety", J::s(self.typeck.expr_ty_adjusted(x).to_string())));
            }
            Path(q) => {
                v = self.base("path", e.span, ty, id);
                let r = self.qpath(q, e.hir_id);
                v.extend(r);
                // a local `const` / `static`: export its initialiser, so that tables of literals can be read
                if let Res::Def(DefKind::Const { .. } | DefKind::Static { .. }, did) = self.typeck.qpath_res(q, e.hir_id) {
                    if let Some(ldid) = did.as_local() {
                        if let Some(body) = self.tcx().hir_maybe_body_owned_by(ldid) {
                            let old_t = self.typeck;
                            let old_o = self.owner;
                            self.typeck = self.tcx().typeck(ldid);
                            self.owner = ldid;
                            let init = self.expr(body.value);
                            self.typeck = old_t;
                            self.owner = old_o;
                            v.push(("const_init", init));
                        }
                    }
                }
            }
            AddrOf(_, m, x) => {
                v = self.base("ref", e.span, ty, id);
                v.push(("mut", J::Bool(matches!(m, hir::Mutability::Mut))));
                v.push(("e", self.expr(x)));
            }
            Break(dest, x) => {
                v = self.base("break", e.span, ty, id);
                if let Some(l) = dest.label {
                    v.push(("label", J::s(l.ident.name.to_string())));
                }
                if let Ok(t) = dest.target_id {
                    v.push(("target", J::Num(t.local_id.as_u32() as i128)));
                }
                v.push(("e", match x { Some(x) => self.expr(x), None => J::Null }));
            }
            Continue(dest) => {
                v = self.base("continue", e.span, ty, id);
                if let Ok(t) = dest.target_id {
                    v.push(("target", J::Num(t.local_id.as_u32() as i128)));
                }
            }
            Ret(x) => {
                v = self.base("ret", e.span, ty, id);
                v.push(("e", match x { Some(x) => self.expr(x), None => J::Null }));
            }
            Struct(q, fields, tail) => {
                v = self.base("struct", e.span, ty, id);
                let r = self.qpath(q, e.hir_id);
                v.extend(r);
                let fs: Vec<J> = fields
                    .iter()
                    .map(|f| J::Obj(vec![("name", J::s(f.ident.name.to_string())), ("e", self.expr(f.expr)), ("shorthand", J::Bool(f.is_shorthand))]))
                    .collect();
                v.push(("fields", J::Arr(fs)));
                v.push(("base", match tail {
                    hir::StructTailExpr::Base(b) => self.expr(b),
                    _ => J::Null,
                }));
            }
            Repeat(x, _) => {
                v = self.base("repeat", e.span, ty, id);
                v.push(("e", self.expr(x)));
            }
            ConstBlock(_) => v = self.base("constblock", e.span, ty, id),
            Become(x) => {
                v = self.base("become", e.span, ty, id);
                v.push(("e", self.expr(x)));
            }
            Yield(x, _) => {
                v = self.base("yield", e.span, ty, id);
                v.push(("e", self.expr(x)));
            }
            InlineAsm(_) => v = self.base("asm", e.span, ty, id),
            OffsetOf(..) => v = self.base("offsetof", e.span, ty, id),
            UnsafeBinderCast(_, x, _) => {
                v = self.base("ubcast", e.span, ty, id);
                v.push(("e", self.expr(x)));
            }
            Err(_) => v = self.base("err", e.span, ty, id),
        }
        if let Some(o) = ovl {
            v.push(("ovl", J::s(o)));
        }
        // adjustments (autoderef through overloaded Deref can call user code; also record autoref)
        let adj = self.typeck.expr_adjustments(e);
        if !adj.is_empty() {
            let mut n_deref_ovl = 0;
            for a in adj {
                if let ty::adjustment::Adjust::Deref(ty::adjustment::DerefAdjustKind::Overloaded(_)) = a.kind {
                    n_deref_ovl += 1;
                }
            }
            if n_deref_ovl > 0 {
                v.push(("adj_deref_ovl", J::Num(n_deref_ovl)));
            }
        }
        J::Obj(v)
    }
}

fn mir_facts<'tcx>(ex: &Ex<'tcx>, owner: LocalDefId) -> Option<J> {
    let tcx = ex.tcx;
    let dk = tcx.def_kind(owner);
    if !matches!(dk, DefKind::Fn | DefKind::AssocFn | DefKind::Closure) {
        return None;
    }
    if !tcx.is_mir_available(owner.to_def_id()) {
        return None;
    }
    let body: &mir::Body<'tcx> = tcx.optimized_mir(owner.to_def_id());
    let env = ty::TypingEnv::post_analysis(tcx, owner);
    let mut calls = Vec::new();
    let mut asserts = Vec::new();
    for (_bb, data) in body.basic_blocks.iter_enumerated() {
        let term = data.terminator();
        let (_f, ln, _c, _hl, _hc) = ex.loc(term.source_info.span);
        match &term.kind {
            mir::TerminatorKind::Call { func, .. } | mir::TerminatorKind::TailCall { func, .. } => {
                let mut o: Vec<(&'static str, J)> = vec![("ln", J::Num(ln as i128))];
                if let Some((did, args)) = func.const_fn_def() {
                    o.push(("def", J::s(ex.path(did))));
                    let has_param = format!("{:?}", args).contains('?');
                    if !has_param {
                        if let Ok(Some(inst)) = ty::Instance::try_resolve(tcx, env, did, args) {
                            o.push(("inst", J::s(ex.path(inst.def_id()))));
                            if inst.def_id().is_local() {
                                o.push(("local", J::Bool(true)));
                            }
                        }
                    }
                    if did.is_local() {
                        o.push(("local", J::Bool(true)));
                    }
                } else {
                    o.push(("def", J::Null));
                    o.push(("fnty", J::s(func.ty(&body.local_decls, tcx).to_string())));
                }
                o.push(("mac", J::Bool(term.source_info.span.from_expansion())));
                calls.push(J::Obj(o));
            }
            mir::TerminatorKind::Assert { msg, .. } => {
                let kind = match &**msg {
                    mir::AssertKind::BoundsCheck { .. } => "bounds".to_string(),
                    mir::AssertKind::Overflow(op, ..) => format!("overflow:{:?}", op),
                    mir::AssertKind::OverflowNeg(_) => "overflow:neg".to_string(),
                    mir::AssertKind::DivisionByZero(_) => "divzero".to_string(),
                    mir::AssertKind::RemainderByZero(_) => "remzero".to_string(),
                    other => format!("other:{:?}", std::mem::discriminant(other)),
                };
                asserts.push(J::Obj(vec![
                    ("ln", J::Num(ln as i128)),
                    ("kind", J::s(kind)),
                    ("mac", J::Bool(term.source_info.span.from_expansion())),
                ]));
            }
            _ => {}
        }
    }
    Some(J::Obj(vec![
        ("path", J::s(ex.path(owner.to_def_id()))),
        ("calls", J::Arr(calls)),
        ("asserts", J::Arr(asserts)),
        ("blocks", J::Num(body.basic_blocks.len() as i128)),
    ]))
}

fn extract<'tcx>(tcx: TyCtxt<'tcx>) {
    let Ok(dir) = std::env::var("HCTL_FACTS_DIR") else {
        return;
    };
    let crate_name = tcx.crate_name(rustc_hir::def_id::LOCAL_CRATE).to_string();
    let crate_types: Vec<String> = tcx.crate_types().iter().map(|t| format!("{:?}", t)).collect();
    let mut ex = Ex { tcx, snip_done: HashSet::new() };

    let mut fns = Vec::new();
    let mut mirs = Vec::new();
    let owners: Vec<LocalDefId> = tcx.hir_body_owners().collect();
    for owner in owners {
        let dk = tcx.def_kind(owner);
        if let Some(m) = mir_facts(&ex, owner) {
            mirs.push(m);
        }
        if !matches!(dk, DefKind::Fn | DefKind::AssocFn) {
            // closures are embedded in their parent; consts/statics are reported shallowly
            if matches!(dk, DefKind::Closure) {
                continue;
            }
        }
        let body = tcx.hir_body_owned_by(owner);
        let typeck = tcx.typeck(owner);
        let span = tcx.def_span(owner);
        let (file, l, _c, _hl, _hc) = ex.loc(span);
        let (_f2, _bl, _bc, hl, _hc2) = ex.loc(body.value.span);
        let mut o: Vec<(&'static str, J)> = vec![
            ("path", J::s(ex.path(owner.to_def_id()))),
            ("dk", J::s(format!("{:?}", dk))),
            ("file", J::s(file)),
            ("line", J::Num(l as i128)),
            ("end_line", J::Num(hl as i128)),
            ("derived", J::Bool(span.from_expansion())),
        ];
        if matches!(dk, DefKind::Fn | DefKind::AssocFn) {
            o.push(("vis", J::s(format!("{:?}", tcx.visibility(owner)))));
            let sig = tcx.fn_sig(owner).instantiate_identity().skip_norm_wip();
            o.push(("ret", J::s(sig.output().skip_binder().to_string())));
            let inputs: Vec<J> = sig.inputs().skip_binder().iter().map(|t| J::s(t.to_string())).collect();
            o.push(("param_tys", J::Arr(inputs)));
            // attributes we care about: #[allow(dead_code)]
            let hid = tcx.local_def_id_to_hir_id(owner);
            let attrs = tcx.hir_attrs(hid);
            let mut an = Vec::new();
            for a in attrs {
                an.push(J::s(format!("{:?}", a).chars().take(200).collect::<String>()));
            }
            o.push(("attrs", J::Arr(an)));
            if let Some(imp) = tcx.impl_of_assoc(owner.to_def_id()) {
                if let Some(tr) = tcx.impl_opt_trait_ref(imp) {
                    o.push(("impl_trait", J::s(tr.skip_binder().to_string())));
                }
                o.push(("impl_self", J::s(tcx.type_of(imp).instantiate_identity().skip_norm_wip().to_string())));
            }
        }
        let mut cx = FnCx { ex: &mut ex, typeck, owner };
        let params: Vec<J> = body.params.iter().map(|p| cx.pat(p.pat)).collect();
        o.push(("params", J::Arr(params)));
        o.push(("body", cx.expr(body.value)));
        fns.push(J::Obj(o));
    }

    // local ADTs
    let mut adts = Vec::new();
    for id in tcx.hir_free_items() {
        let item = tcx.hir_item(id);
        let did = item.owner_id.to_def_id();
        match tcx.def_kind(did) {
            DefKind::Enum | DefKind::Struct => {
                let adt = tcx.adt_def(did);
                let mut vs = Vec::new();
                for var in adt.variants().iter() {
                    let fields: Vec<J> = var
                        .fields
                        .iter()
                        .map(|f| {
                            J::Obj(vec![
                                ("name", J::s(f.name.to_string())),
                                ("ty", J::s(tcx.type_of(f.did).instantiate_identity().skip_norm_wip().to_string())),
                                ("vis", J::s(format!("{:?}", f.vis))),
                            ])
                        })
                        .collect();
                    let explicit = matches!(var.discr, rustc_middle::ty::VariantDiscr::Explicit(_));
                    vs.push(J::Obj(vec![
                        ("name", J::s(var.name.to_string())),
                        ("fields", J::Arr(fields)),
                        ("explicit_discr", J::Bool(explicit)),
                    ]));
                }
                let (file, l, _c, _hl, _hc) = ex.loc(item.span);
                adts.push(J::Obj(vec![
                    ("path", J::s(ex.path(did))),
                    ("kind", J::s(if adt.is_enum() { "enum" } else { "struct" })),
                    ("variants", J::Arr(vs)),
                    ("file", J::s(file)),
                    ("line", J::Num(l as i128)),
                ]));
            }
            _ => {}
        }
    }

    let root = J::Obj(vec![
        ("crate", J::s(crate_name.clone())),
        ("crate_types", J::Arr(crate_types.iter().map(|t| J::s(t.clone())).collect())),
        ("fns", J::Arr(fns)),
        ("adts", J::Arr(adts)),
        ("mir", J::Arr(mirs)),
    ]);
    let mut out = String::new();
    root.write(&mut out);
    let name = format!("{}/{}-{}-{}.json", dir, crate_name, crate_types.join("_"), std::process::id());
    let tmp = format!("{}.tmp", name);
    std::fs::write(&tmp, out).expect("cannot write facts");
    std::fs::rename(&tmp, &name).expect("cannot rename facts");
}

struct Cb;

impl rustc_driver::Callbacks for Cb {
    fn after_analysis<'tcx>(&mut self, _compiler: &interface::Compiler, tcx: TyCtxt<'tcx>) -> Compilation {
        extract(tcx);
        Compilation::Continue
    }
}

fn main() {
    // RUSTC_WORKSPACE_WRAPPER passes: <wrapper> <rustc> <args...>
    let mut args: Vec<String> = std::env::args().collect();
    if args.len() > 1 && (args[1].ends_with("rustc") || args[1].contains("/rustc")) {
        args.remove(1);
    }
    rustc_driver::run_compiler(&args, &mut Cb);
}
