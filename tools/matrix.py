#!/usr/bin/env python3
"""tools/matrix.py [patch ...]  -- run every claimed check against every given patch (default: mutants/*.patch and
seeded/*/patch.diff), in parallel, and write notes/catch-matrix.json + a text table. Checker self-test helper."""
import concurrent.futures
import glob
import json
import os
import sys

sys.path.insert(0, os.path.dirname(os.path.abspath(__file__)))
import mutant_test  # noqa: E402

VERIF = os.path.dirname(os.path.dirname(os.path.abspath(__file__)))


def one(patch, props):
    out = mutant_test.run(patch, props, quiet=True)
    if out is None:
        return patch, None
    return patch, {p: (rc, [l for l in v if l.startswith("  [")][:3]) for p, (rc, v, _) in out.items()}


def main():
    patches = sys.argv[1:] or sorted(glob.glob(os.path.join(VERIF, "mutants", "*.patch")) + glob.glob(os.path.join(VERIF, "seeded", "*", "patch.diff")))
    with open(os.path.join(VERIF, "MANIFEST.json")) as fh:
        props = [c["property_id"] for c in json.load(fh)["checks"]]
    res = {}
    with concurrent.futures.ThreadPoolExecutor(max_workers=int(os.environ.get("MATRIX_JOBS", "4"))) as ex:
        for patch, r in ex.map(lambda p: one(p, props), patches):
            name = os.path.relpath(patch, VERIF) if patch.startswith(VERIF) else patch
            res[name] = r
            if r is None:
                print(f"{name}: PATCH DOES NOT APPLY")
            else:
                caught = [p for p, (rc, _) in r.items() if rc == 1]
                err = [p for p, (rc, _) in r.items() if rc not in (0, 1)]
                print(f"{name}: caught by {caught or 'NOTHING'}" + (f"  CHECKER-ERRORS {err}" if err else ""), flush=True)
    os.makedirs(os.path.join(VERIF, "notes"), exist_ok=True)
    with open(os.path.join(VERIF, "notes", "catch-matrix.json"), "w") as fh:
        json.dump(res, fh, indent=1)


if __name__ == "__main__":
    main()
