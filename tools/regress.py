#!/usr/bin/env python3
"""tools/regress.py [--jobs N] [--warm] [--json file] [filter]  -- checker regression: every benign refactoring must be silent, every seeded change and
every reverse-fix must be reported by the check of the property it breaks. Not a registered check."""
import concurrent.futures
import glob
import json
import os
import sys

sys.path.insert(0, os.path.dirname(os.path.abspath(__file__)))
import mutant_test  # noqa: E402

VERIF = os.path.dirname(os.path.dirname(os.path.abspath(__file__)))
REVFIX = {"revfix-1": ["C05"], "revfix-2": ["C03", "C02"], "revfix-3": ["C13"], "revfix-4": ["C19"], "revfix-5": ["C12", "C03", "C02"],
          "revfix-6": ["C02", "C03"], "revfix-7": ["C04", "C10", "C14"], "revfix-8": ["C14", "C02"], "revfix-9": ["C04", "C03", "C14"], "revfix-10": ["C05"]}


def warm_deps():
    """Compile the crate's dependencies once (same toolchain and flags as the fact extraction) into a scratch target directory that the
    extractions of the scratch copies start from; the crate's own artefacts are removed so that it is always analysed afresh."""
    import shutil
    import subprocess
    import tempfile
    src = tempfile.mkdtemp(prefix="hctl-warm-src.")
    tgt = tempfile.mkdtemp(prefix="hctl-warm-deps.")
    subprocess.run(["rsync", "-a", "--exclude", "target", "--exclude", ".git", "/repo/", src + "/"], check=True)      # the current working tree
    env = dict(os.environ, RUSTFLAGS="-Zmir-opt-level=0 -Awarnings", CARGO_TARGET_DIR=tgt, CARGO_NET_OFFLINE="true")
    env.pop("RUSTC_WRAPPER", None)
    r = subprocess.run(["cargo", "+nightly", "check", "--offline", "--lib", "--bins"], cwd=src, env=env, stdout=subprocess.PIPE, stderr=subprocess.STDOUT)
    shutil.rmtree(src, ignore_errors=True)
    if r.returncode != 0:
        shutil.rmtree(tgt, ignore_errors=True)
        return None
    dbg = os.path.join(tgt, "debug")
    shutil.rmtree(os.path.join(dbg, "incremental"), ignore_errors=True)
    for sub in (".fingerprint", "deps"):
        for f in glob.glob(os.path.join(dbg, sub, "*")):
            b = os.path.basename(f).replace("-", "_")
            if any(n in b for n in ("biodivine_hctl_model_checker", "hctl_model_checker", "convert_aeon_to_bnet")):
                shutil.rmtree(f, ignore_errors=True) if os.path.isdir(f) else os.remove(f)
    return tgt


def main():
    warm = None
    if "--warm" in sys.argv:
        warm = warm_deps()
        if warm:
            os.environ["VERIF_WARM_DEPS"] = warm
    try:
        return run_all()
    finally:
        if warm:
            import shutil
            shutil.rmtree(warm, ignore_errors=True)


def run_all():
    args = [a for a in sys.argv[1:] if not a.startswith("--")]
    if "--json" in sys.argv:
        args = [a for a in args if a != sys.argv[sys.argv.index("--json") + 1]]
    jobs = 4
    if "--jobs" in sys.argv:
        jobs = int(sys.argv[sys.argv.index("--jobs") + 1])
        args = [a for a in args if a != str(jobs)]
    flt = args[0] if args else ""
    with open(os.path.join(VERIF, "MANIFEST.json")) as fh:
        props = [c["property_id"] for c in json.load(fh)["checks"]]
    work = []
    for p in sorted(glob.glob(os.path.join(VERIF, "benign", "*.patch"))):
        work.append((p, "benign", []))
    for p in sorted(glob.glob(os.path.join(VERIF, "benign-limits", "*.patch"))):
        work.append((p, "limit", []))           # documented limitations: reported, not counted
    for p in sorted(glob.glob(os.path.join(VERIF, "mutants", "*.patch"))):
        work.append((p, "mutant", REVFIX.get(os.path.basename(p)[:-6], [])))
    for d in sorted(glob.glob(os.path.join(VERIF, "seeded", "*"))):
        meta = json.load(open(os.path.join(d, "meta.json")))
        work.append((os.path.join(d, "patch.diff"), "seeded", [meta["property"]]))
    work = [w for w in work if flt in w[0]]
    only = os.environ.get("REGRESS_PROPS")
    if only:
        props = only.split(",")
    bad = 0
    matrix = {}

    def run(w):
        return w, mutant_test.run(w[0], props, quiet=True)

    with concurrent.futures.ThreadPoolExecutor(max_workers=jobs) as ex:
        for (patch, kind, expect), out in ex.map(run, work):
            name = os.path.relpath(patch, VERIF)
            if out is None:
                print(f"ERROR  {name}: patch does not apply")
                bad += 1
                continue
            caught = [p for p, (rc, _, _) in out.items() if rc == 1]
            errs = [p for p, (rc, _, _) in out.items() if rc not in (0, 1)]
            matrix[name] = {"kind": kind, "expected": expect[:1], "caught": caught}
            if kind == "limit":
                print(f"limit  {name}: {caught or 'silent (no longer a limitation)'}", flush=True)
                continue
            if kind == "benign":
                ok = not caught and not errs
                print(f"{'ok    ' if ok else 'ALARM '} {name}: {caught or 'silent'}" + (f" errors {errs}" if errs else ""), flush=True)
                if not ok and os.environ.get("REGRESS_VERBOSE"):
                    for p in caught:
                        for l in out[p][1][:4]:
                            if l.startswith("  ["):
                                print("        ", p, l[:260])
            else:
                want = [e for e in expect if e in props]
                missing = [e for e in want[:1] if e not in caught]      # the first listed property is the one the change was made for
                ok = not missing and not errs
                print(f"{'ok    ' if ok else 'MISSED'} {name}: expected {want[:1]} caught {caught}" + (f" errors {errs}" if errs else ""), flush=True)
            bad += 0 if ok else 1
    if "--json" in sys.argv:
        with open(sys.argv[sys.argv.index("--json") + 1], "w") as fh:
            json.dump(matrix, fh, indent=1, sort_keys=True)
    print(f"regression: {len(work)} patches, {bad} problems")
    return 1 if bad else 0


if __name__ == "__main__":
    sys.exit(main())
