#!/usr/bin/env python3
"""Regenerate MANIFEST.json from the table below (keeps the interface file consistent with what is built)."""
import json
import os

VERIF = os.path.dirname(os.path.dirname(os.path.abspath(__file__)))

TRUST = ("Trusted: rustc's name/type resolution and HIR/MIR (nightly 1.97), the fact extractor in driver/, the value-numbering "
         "engine in rules/terms.py, the Boolean normal form in rules/setalg.py, and the library assumptions L1-L10 of DESIGN.md section 4. ")

CLAIMED = {
    "C01": dict(
        technique="static analysis: value-numbering summaries of the resolved HIR, partial evaluation of eval_node per operator shape, Boolean-normalised comparison with the operators' defining equations",
        text="Decides necessary structural conditions of C01 on every path of the code, for all inputs at once: eval_node (partially evaluated for each of the plain operator shapes, the weak untils included, and for special operands) computes the operator's defining equation over its recursive results; recursive calls pass graph, steady states and context through; the comparator / projection primitives have their defining shape; fixed-point loops run to stabilisation. It does not decide semantic equivalence with HCTL satisfaction, which no static argument in reach can.",
        note=TRUST + "Not decided: that the graph library's pre-images implement the asynchronous semantics; termination.", ref="5/C01"),
    "C11": dict(
        technique="static analysis: value-numbering summaries of the evaluators compared (modulo Boolean algebra and fixed-point scheme normalisation) with the fixed-point characterisations; polarity inference; loop-protocol rule; partial evaluation of eval_node for every temporal operator (operands and steady states handed to the evaluator)",
        text="Every temporal evaluator that eval_node dispatches to (and the unused classical variants) equals its fixed-point characterisation from the property statement, each operand occurs with the operator's polarity, and every fixed-point loop exits only on stabilisation (classical) or after a full sweep without update (saturation); eval_node applies each evaluator to its operands' results and to the steady-state set it received. Holds for all argument sets and all networks because it is a statement about the code's shape; the laws themselves then follow from L1/L2 (library set algebra and monotone pre-images), which are assumed.",
        note=TRUST + "Not decided: the library's pre-image semantics (L2), convergence on benchmark-size models.", ref="5/C11"),
    "C13": dict(
        technique="static analysis: value-numbering summaries of eval_ew / eval_aw and of eval_node's EW/AW arms compared with the two defining equations of weak until, Boolean-normalised",
        text="The evaluators reached from BinaryOp::EW / BinaryOp::AW, and eval_node partially evaluated for `l EW r` / `l AW r`, compute exactly one of the defining equations the property states (not A[not q U (not p & not q)], E[p U q] | EG p, not E[not q U (not p & not q)]); any other argument-role skeleton is reported with the offending term. This decides the equation shape for all inputs; path semantics of EU/AU/EG rest on C11 and L1/L2.",
        note=TRUST, ref="5/C13"),
}

CLAIMED["C12"] = dict(
    technique="static analysis: partial evaluation of eval_node's value-numbering summary for the two shortcut patterns and 22 near-miss node shapes; equation rules for compute_steady_states / compute_attractor_states; cache admission guard on shortcut stores",
    text="For the two patterns exactly the shortcut path is feasible and its value is relative to the current graph (attractors of (graph, unit(graph)); steady_states & unit(graph)); for every near miss (other variable, domain on the binder, other quantifier, missing/extra/different operators, proposition instead of variable) no shortcut path is feasible and eval_node computes the generic bind equation; results stored by a shortcut path obey the cache admission guard. Context independence (top level, nested, in domain scopes, in batches) follows because the summary of eval_node is independent of the calling context. Agreement of the library's attractor / fixed-point algorithms with generic evaluation is assumed (L5), not decided.",
    note=TRUST, ref="5/C12")
CLAIMED["C18"] = dict(
    category="proof",
    technique="static analysis: non-interference proof obligations O1-O4 discharged on value-numbering summaries (dependence of eval_node's partially evaluated value on the steady-state parameter per operator shape; pipeline comparison of the unsafe entry point)",
    text="Proof by induction on the formula, obligations discharged mechanically on the current source: (O1) for every operator outside {EX,AX,AF,EG,AU,EW} the value of eval_node does not depend on steady_states except verbatim in recursive calls; (O2) recursive calls pass it on unchanged; (O3) the steady-state shortcut is reachable only for nodes containing AX; (O4) model_check_formula_unsafe_ex differs from the standard pipeline only in that argument (same validator, same graph, a context that is from_multiple_trees(vec![tree]) field by field, the empty set of the same graph). Hence both variants return the same raw set on the fragment; on steady-state-free networks both pass an empty set.",
    note=TRUST + "The proof is modulo L1, L2, L5 (library set algebra; FixedPoints::symbolic is empty when no colour has a steady state).", ref="5/C18")

CLAIMED["C02"] = dict(
    technique="static analysis: partial evaluation of eval_node's value-numbering summary for domain quantifier shapes compared with the documented equations; unit-boundedness abstract interpretation of every return path; call-site/path-condition rules for context validation, wild-card binding, scope pairing and cache admission",
    text="Decides, for all bodies, networks and context sets: the three domain quantifier shapes compute the documented equation (child on the graph restricted by the translated domain, quantifier on the outer graph, forall's inner complement in the restricted universe, empty/unit shortcut exactly when the restricted unit set is empty); every leaf and return path is relative to the current (possibly restricted) graph; every extended entry point evaluates only trees validated against the caller's context, absent labels give Err, the wild-card set is installed under the text the terminal prints as and is served from the cache only; scope entries are removed on every exit; nothing computed in a restricted scope is cached under a key that does not name the restriction. The README equivalences as set equalities are not decided.",
    note=TRUST, ref="5/C02")
CLAIMED["C03"] = dict(
    technique="static analysis: abstract interpretation (unit-boundedness domain) over value-numbering summaries of every return path of eval_node per node shape and of every evaluator; who-may-complement rule; equation rules for the projection primitives and the unit-set construction",
    text="Decides the clause 'every returned set is a subset of unit(graph)' on every return path of eval_node (84 path/shape instances incl. cache hits and shortcuts) and of every evaluator, assuming only that recursive results are bounded by their own graph (induction); no absolute complement flows into a result; quantifiers project exactly their own variable's copy and cache hits are admitted only for keys naming every restriction in force (structural half of 'closed results do not depend on auxiliary variables'); the unit set is the regulation constraints applied to true and restriction only intersects. Cardinalities are not decided.",
    note=TRUST + "L3/L4 (unit sets are products not constraining state variables) are assumed.", ref="5/C03")
CLAIMED["C04"] = dict(
    technique="static analysis: may-token path analysis for scope pairing; Boolean implication between path conditions and the cache admission guard (truth tables over canonical atoms); sibling comparison of the writer's and reader's key recipe; call-site rules for the batch drivers; type-resolved hash-iteration classification",
    text="Decides necessary conditions of history independence on every path: the scope entry is removed on every exit of eval_node and never touched by a jump; writer and reader build the cache key by the same recipe and all cache operations use that one key; stores and hits happen only when the key names every restriction in force and hits are intersected with the current unit set; only fresh results are stored, eviction happens only at counter zero and never for wild-cards, one decrement per hit; on a hit the set is renamed from the stored to the current name of the same canonical variable, by a renaming primitive that has its defining equation (identity only for equal names); batch drivers build one context from the list they evaluate in order; hash-container iteration feeds only order-insensitive uses. Equality of sets between batch and single evaluation is not decided.",
    note=TRUST + "Assumes canonical text identifies sub-formulae up to renaming (C09, not decided).", ref="5/C04")
CLAIMED["C10"] = dict(
    technique="static analysis: table agreement between the wild-card cache key template and the Display template; partial evaluation of eval_node for the wild-card terminal; cache-protocol implications; sibling comparison of the plain and extended pipelines",
    text="Decides: the wild-card set is stored under exactly the text the terminal prints as (and the canoniser copies that text); a wild-card terminal is served by the cache-hit path only, always admitted, never evicted, its value is the stored set intersected with the current unit set; no scope entry can leak and change keys; the plain and extended drivers are the same pipeline up to parser flavour and wild-card handling whose effect is confined to two loops over the (then empty) context. Equality of results under substitution is not decided.",
    note=TRUST, ref="5/C10")

CLAIMED["C05"] = dict(
    technique="static analysis: level equations of the recursive-descent parser recovered from normalised term summaries (decision tree per level; class of the searched tokens obtained by evaluating the search predicate on one representative per token kind) compared with README.md's precedence list; Boolean equivalence of the prefix-rejection condition with `i > 0`; first-decision table of the tokenizer by partial evaluation of the guards of one loop iteration over short input prefixes (mode flag, look-ahead, whitespace)",
    text="Decides: the levels search the operator classes in the README's precedence order, binary levels are right-associative and build the searched operator, prefix-operator levels recurse on the suffix and reject every non-empty prefix (no token is dropped), the terminal level accepts exactly one token and re-enters the top level for a group, every BinaryOp has exactly one level; wild-card tokens and domains are produced only under the mode flag which the plain entry sets to false; the guards of the E, A, 3, V arms hold exactly on the look-ahead classes where the operator reading can continue and name membership is decided by a single predicate; whitespace is skipped before every segment. Language equality over all strings is not decided.",
    note=TRUST + "README.md is taken as the documented grammar.", ref="5/C05")
CLAIMED["C06"] = dict(
    technique="static analysis: who-may-construct / who-may-mutate rule over all struct literals and assignments; term equations for height; partial evaluation of the constructors and Display impls per operator variant (printed pieces vs template); agreement of the printed spellings with the tokenizer's first-decision table and the parser's constant table",
    text="Decides: HctlTreeNode literals occur only in the four constructors and no code assigns to its fields; height is 0 / child+1 / max(left,right)+1; each constructor's text is one pair of parentheses around every structural component exactly once and in order, the domain segment depends only on the presence of a domain, node_type stores exactly the arguments; every operator variant's Display text is tokenised back to the same variant, atoms print in the shapes the tokenizer reads. Round-trip equality over all trees is not decided.",
    note=TRUST, ref="5/C06")
CLAIMED["C07"] = dict(
    technique="static analysis: online partial evaluation of validate_and_rename_recursive for every node shape and comparison of the returned value (including the exits taken by `?`) with the specification terms; effect / accumulator equations for the variable collector; must-pass-through of validation and of the support check in every string entry point",
    text="Decides: scope extension, re-quantification check and variable collection all classify {bind, exists, forall} vs {jump} identically; a variable is renamed only through the scope map (absent -> Err), a re-quantified variable and an unbound jump target give Err, a proposition is accepted iff it names a network variable; the binding inserted for a quantifier is the parent's name plus exactly one character and reaches exactly its child, siblings see the parent's scope unchanged (by-value parameters, or paired removes), no other state is consulted; nodes are rebuilt through the constructors; every string entry point and the CLI evaluate only validated trees after the variable-support check. Alpha-equivalence and idempotence are not decided.",
    note=TRUST, ref="5/C07")
CLAIMED["C08"] = dict(
    technique="static analysis: the tokenizer's first-decision table evaluated for short and long operator spellings (same variant, same domain permission, README names), whitespace prefixes and groups; the parser's constant table vs README.md; name-only indexing of symbolic copies; the C07 renaming equations",
    text="Decides: each hybrid operator has one short and one long arm building the same variant with the same domain permission (long names = README list); the constant spellings are exactly the README's; whitespace yields no token, a parenthesised group adds no node and a parenthesised single name takes the route of the bare name; the variable-support check is made on the tree with minimised names; evaluation sees only canonical names and selects the symbolic copy by the name's length; occurrences and binders are renamed through the same scope entry. Equality of results over all rewrites is not decided.",
    note=TRUST + "README.md lists the documented spellings.", ref="5/C08")

CLAIMED["C14"] = dict(
    technique="static analysis: panic-site inventory over the call graph of resolved callees from the 17 string entry points; automatic discharge on normalised path conditions (dominating tests, values known by construction, symbolic lengths, token-class reasoning with unit propagation, per-shape partial evaluation, call-site contexts of private helpers); reviewed discharge table keyed by the origin of the operand, whose prerequisites are re-verified on every run; escape analysis for validator placement",
    text="Decides: no panic-capable construct (unwrap/expect, unreachable!/panic!, indexing/slicing, usize subtraction, known panicking library calls) reachable from a string entry point is left without a dominating local guard or a reviewed discharge whose prerequisites hold on the current tree; parse_and_validate[_extended] push a tree only after parser, preprocessing, the variable-support check for that tree and (extended) the context validation, and every string entry point evaluates only such trees on the validated graph; the listed error conditions are produced as Err values on their own paths. The 'error exactly when' half over all strings, and panics inside the libraries on validated arguments, are not decided.",
    note=TRUST + "Reviewed exceptions are listed with their reasons in tables/panic_discharge.json.", ref="5/C14")

CLAIMED["C15"] = dict(
    technique="static analysis: sibling comparison of the value-numbering terms of each sanitising entry point and its dirty sibling (whole-pipeline inlining); term equations for the three sanitize_* functions; name-only indexing rule",
    text="Decides: every sanitising entry point returns exactly map(sanitize_colored_vertices(graph, .)) over the results of its dirty sibling run with the same arguments (one-to-one, in order, no raw result escapes, nothing else is done); each sanitize_* function is a transfer of the BDD from the graph's context into that graph's canonical context, wrapped with the same canonical context; the symbolic copy index depends on the variable name only and every network variable gets the same number of copies; the support check is made on the validated (minimised) tree that is evaluated, and canonical names are handed out by nesting depth and given back on scope exit (the validator's naming and no-leaking-state rules). Equality of the sets and independence of the number of spare variable sets are not decided (they rest on C03 and L7).",
    note=TRUST, ref="5/C15")
CLAIMED["C16"] = dict(
    technique="static analysis: effect trace of the zip writer (ordered operations, loops included) compared with the expected archive layout; writer / reader agreement of entry suffix, serialiser and parser; evaluation of the reader's extension filter for concrete extensions; provenance of label index and evaluated tree in analyse_formulae",
    text="Decides: results are written as `<label>.bdd` with write_as_string and read back from exactly the `.bdd` entries with the suffix stripped once, Bdd::from_string, the caller's context, keyed by the recovered label; model.aeon and formulae.txt are written once each after the results, formulae one per line in the given order; analyse_formulae archives result i (the raw set returned by eval_node, not a transformed copy) under `formula-<i>` with i the enumerate counter of the evaluation loop over the trees in input order, nothing reorders the lists, and the archived formula list is the input list. The I/O round trip itself (zip, BDD text format) is assumed (L8).",
    note=TRUST, ref="5/C16")
CLAIMED["C17"] = dict(
    technique="static analysis: specification patterns over the normalised terms at the eval_node call of analyse_formulae (tree, graph, steady states, context trace); filtered-collection normal form and Boolean equivalence of the loader's keep-condition; table agreement of print options (clap list, match in main, README); unwrap-on-fallible-result rule on normalised path conditions",
    text="Decides: analyse_formulae selects the parser flavour by the presence of the context archive, validates every tree, sizes the graph by the maximum number of quantifier variables, builds one context from all trees, validates every tree against the sets loaded from the archive with the graph's symbolic context and installs the validated maps, and evaluates every tree in file order on that graph with its steady states; load_formulae keeps trim(line) iff it is non-empty and not a comment, in order; the four print options agree across clap, main and README; no fallible I/O / parse / validation result is unwrapped without an is_err test (reviewed exceptions listed); the printed and archived values are the set eval_node returned. Equality of the printed numbers with the library's is not decided.",
    note=TRUST, ref="5/C17")
CLAIMED["C19"] = dict(
    technique="static analysis: partial evaluation of flatten_fn_update per FnUpdate variant and pattern specifications for explode_function / flatten_update_function on normalised terms (no raw argument embedded, Shannon-expansion shape, injective naming templates by printed pieces, variable coverage)",
    text="Decides: flatten_fn_update has exactly one arm per FnUpdate variant rebuilding from flattened children; explode_function embeds its first argument only through flatten_fn_update (each argument flattened exactly once, callers pass raw arguments), builds (r => E1) & (!r => E0) over the remaining arguments with the prefix extended by exactly '1' / '0', and its base case is the zero-arity parameter named by the accumulated prefix; prefixes are `<name>_`; every variable with a regulator is converted, the implicit case ranges over all regulators as variables, variables without regulators are skipped. Equality of the function families as truth tables is not decided.",
    note=TRUST + "FnUpdate's connective constructors and to_bnet are assumed to do what their names say.", ref="5/C19")
CLAIMED["C20"] = dict(
    technique="static analysis: taint-style who-may-call rule over the call graph from eval_node for colour-mixing primitives and BDD quantification; classification of colour-global predicates; equation rules (C01 shapes) showing every operator is built from pointwise primitives",
    text="Decides the premise of the compositional argument: in everything reachable from eval_node no colour / vertex projection or selection is used, BDD quantification ranges only over state / auxiliary variables (never parameters), colour-global predicates occur only as fixed-point termination tests, the saturation guard and the empty-universe shortcut, every operator equals its defining equation over pointwise primitives, and the steady-state / attractor shortcuts are the library's coloured computations on the graph's unit set. Hence, given that the library primitives are pointwise in colour (L2, L5 - assumed), the result is pointwise in colour.",
    note=TRUST, ref="5/C20")

NOT_APPLICABLE = {
    "C09": "value-level property of a character-level rewriting (canonical strings coincide exactly for alpha-equivalent inputs, injectivity, idempotence, occurrence lower bounds); the only structural necessary condition (duplicates marked only for <= 1 variable) is a clause of C04 and is checked there (DESIGN.md section 9)",
}


def main():
    props = [json.loads(l) for l in open(os.path.join(VERIF, "properties.jsonl"))]
    checks = []
    na = []
    for p in props:
        pid = p["id"]
        if pid in CLAIMED:
            c = CLAIMED[pid]
            checks.append({
                "property_id": pid,
                "quick_cmd": f"./check {pid} --tier quick",
                "thorough_cmd": f"./check {pid} --tier thorough",
                "evidence_file": f"/verif/evidence/{pid}.json",
                "replay_cmd_template": f"./check {pid} --replay {{path}}",
                "engine": "hctl-static",
                "level_claimed": {"category": c.get("category", "other"), "text": c["text"], "design_ref": "DESIGN.md section " + c["ref"]},
                "level_note": c["note"],
                "technique": c["technique"],
            })
        else:
            na.append({"property_id": pid, "reason": NOT_APPLICABLE.get(pid, "check not built yet in this round (design in DESIGN.md section 5); not claimed until its rules run")})
    m = {
        "version": 1,
        "setup_cmd": "cd /verif/driver && CARGO_NET_OFFLINE=true cargo build --release --offline",
        "hooks": {
            "guard": "sybila_biodivine_hctl_model_checker_verif",
            "enable": "no hooks are needed: the static analysis reads /repo's sources through a rustc_private driver (RUSTC_WORKSPACE_WRAPPER under cargo +nightly check); nothing in /repo is guarded by the flag",
            "baseline_off_cmd": "cd /repo && cargo test --workspace --no-fail-fast --offline",
            "source_commits": [],
            "add_only": True,
        },
        "engines": [{
            "name": "hctl-static", "path": "/verif/check",
            "serves_properties": sorted(CLAIMED),
            "kind_free_text": "rustc_private fact extractor (driver/) + Python rule layer (rules/): value numbering over resolved HIR, "
                              "path conditions, must/may token analyses, Boolean normal forms; no execution of /repo's code",
        }],
        "checks": checks,
        "notes": "Ten genuine defects found during the design review were repaired in /repo as `fix:` commits (known_findings.json lists them as fixed). "
                 "Quick = extract facts from the current tree (cached by tree hash) + rules; thorough = no cache + mutant self-test battery.",
        "not_applicable": na,
    }
    with open(os.path.join(VERIF, "MANIFEST.json"), "w") as fh:
        json.dump(m, fh, indent=1)
    print(f"{len(checks)} checks, {len(na)} not applicable")


if __name__ == "__main__":
    main()
