#!/usr/bin/env python3
"""tools/gen_design.py -- writes /verif/DESIGN.md: fixed prose (tools/design/*.md) + the per-property rule descriptions taken from the
docstrings of rules/cXX.py (so that the document cannot drift from the code) + the validation tables computed from the stored corpus and
tables/matrix.json (written by tools/regress.py --json)."""
import glob
import importlib
import json
import os
import sys

VERIF = os.path.dirname(os.path.dirname(os.path.abspath(__file__)))
sys.path.insert(0, os.path.join(VERIF, "rules"))
D = os.path.join(VERIF, "tools", "design")


def part(name):
    with open(os.path.join(D, name)) as fh:
        return fh.read().rstrip() + "\n"


def props():
    out = {}
    for l in open(os.path.join(VERIF, "properties.jsonl")):
        d = json.loads(l)
        out[d["id"]] = d
    return out


def matrix():
    p = os.path.join(VERIF, "tables", "matrix.json")
    return json.load(open(p)) if os.path.exists(p) else {}


def seeded_meta():
    out = {}
    for d in sorted(glob.glob(os.path.join(VERIF, "seeded", "*"))):
        try:
            out[os.path.basename(d)] = json.load(open(os.path.join(d, "meta.json")))
        except OSError:
            pass
    return out


def per_property(P, M, S):
    man = json.load(open(os.path.join(VERIF, "MANIFEST.json")))
    claimed = {c["property_id"]: c for c in man["checks"]}
    out = ["## 5. Per-property rules (generated from the rule modules)\n",
           "Each block is the documentation string of `rules/cXX.py`, i.e. what the code decides. `level` is what MANIFEST.json claims. "
           "\"Catches\" lists the stored breaking changes (seeded/, mutants/) that the check of this property reports on a scratch copy of the tree "
           "(from tables/matrix.json, rewritten by `tools/regress.py --json`).\n"]
    for pid in sorted(P):
        out.append(f"### {pid} — {P[pid]['title']}\n")
        if pid not in claimed:
            out.append("Not claimed: see section 10.\n")
            continue
        mod = importlib.import_module(pid.lower())
        doc = (mod.__doc__ or "").strip("\n")
        out.append("```\n" + doc + "\n```\n")
        c = claimed[pid]
        out.append(f"*Level claimed:* `{c['level_claimed']['category']}` — {c['level_claimed']['text']}\n")
        own = sorted(k for k, v in M.items() if v["kind"] not in ("benign", "limit") and pid in v["caught"] and v["expected"] == [pid])
        other = sorted(k for k, v in M.items() if v["kind"] not in ("benign", "limit") and pid in v["caught"] and v["expected"] != [pid])
        short = lambda k: k.split("/")[1].replace(".patch", "") if k.startswith(("seeded", "mutants")) else k      # noqa: E731
        out.append(f"*Catches* (changes made to break {pid}): {', '.join(short(k) for k in own) or '—'}.  "
                   f"*Also reports* (changes made to break a sibling property): {', '.join(short(k) for k in other) or '—'}.\n")
    return "\n".join(out) + "\n"


def validation(P, M, S):
    out = [part("07_validation_head.md")]
    benign = sorted(k for k, v in M.items() if v["kind"] == "benign")
    silent = [k for k in benign if not M[k]["caught"]]
    limits = sorted(k for k, v in M.items() if v["kind"] == "limit")
    out.append(f"**Behaviour-preserving refactorings:** {len(benign)} stored patches under `benign/` (rf1 .. rf88, four per sub-agent, minus the "
               f"documented limitations), {len(silent)} silent for every claimed property on the final machinery; {len(limits)} more under "
               "`benign-limits/` (see its README and section 3) are reported, by: " +
               "; ".join(f"{k.split('/')[1].replace('.patch', '')}: {', '.join(M[k]['caught']) or 'nothing'}" for k in limits) + ".\n")
    out.append("**Breaking changes** (each confirmed by me: applies to HEAD, the 55 tests still pass, its demonstration test fails with the change and "
               "passes without it):\n")
    out.append("| change | made to break | what was changed | reported by |")
    out.append("|---|---|---|---|")
    for k in sorted(M):
        v = M[k]
        if v["kind"] in ("benign", "limit"):
            continue
        name = k.split("/")[1].replace(".patch", "")
        meta = S.get(name, {})
        what = (meta.get("change") or "reverse of the `fix:` commit for this defect (section 6)").replace("|", "\\|").replace("\n", " ")
        if len(what) > 170:
            what = what[:167] + "..."
        exp = ", ".join(v["expected"]) or "(C09, not claimed)"
        out.append(f"| {name} | {exp} | {what} | {', '.join(v['caught']) or 'nothing (C09 is not claimed)'} |")
    out.append("")
    claimed_ids = {pid for pid in P if pid != "C09"}
    n_s = len([k for k, v in M.items() if v["kind"] not in ("benign", "limit") and v["expected"] and v["expected"][0] in claimed_ids])
    n_own = len([k for k, v in M.items() if v["kind"] not in ("benign", "limit") and v["expected"] and v["expected"][0] in claimed_ids and v["expected"][0] in v["caught"]])
    out.append(f"Of the {n_s} breaking changes aimed at a claimed property, {n_own} are reported by the check of that very property "
               "(the remaining ones, if any, by a sibling); the changes aimed at C09 are reported only where they also break a claimed clause.\n")
    return "\n".join(out) + "\n"


def main():
    P, M, S = props(), matrix(), seeded_meta()
    doc = [part("00_intro.md"), part("01_why.md"), part("02_architecture.md"), part("03_policy.md"), part("04_library.md"),
           per_property(P, M, S), part("06_findings.md"), validation(P, M, S), part("08_interface.md"), part("09_rejected.md"), part("10_na.md")]
    with open(os.path.join(VERIF, "DESIGN.md"), "w") as fh:
        fh.write("\n---------------------------------------------------------------------------------------------------\n\n".join(doc))
    print("DESIGN.md written,", sum(len(x) for x in doc), "characters")


if __name__ == "__main__":
    main()
