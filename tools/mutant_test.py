#!/usr/bin/env python3
"""tools/mutant_test.py PATCH [PROP ...]  -- checker self-test helper (not a registered check).

Copies /repo's current working tree to a scratch directory outside /repo and /verif, applies PATCH there,
runs ./check for the given properties (default: all claimed in MANIFEST.json) against the copy
(HCTL_REPO=<copy>), prints which properties raised a VIOLATION, and removes the copy."""
import json
import os
import shutil
import subprocess
import sys
import tempfile

VERIF = os.path.dirname(os.path.dirname(os.path.abspath(__file__)))


def run(patch, props, quiet=False):
    tmp = tempfile.mkdtemp(prefix="hctl-mutant.")
    dst = os.path.join(tmp, "repo")
    try:
        subprocess.run(["rsync", "-a", "--exclude", "target", "--exclude", ".git", "/repo/", dst + "/"], check=True)
        r = subprocess.run(["patch", "-p1", "-s", "-i", os.path.abspath(patch)], cwd=dst, stdout=subprocess.PIPE, stderr=subprocess.STDOUT, text=True)
        if r.returncode != 0:
            print(f"PATCH-DOES-NOT-APPLY {patch}\n{r.stdout}")
            return None
        env = dict(os.environ, HCTL_REPO=dst, VERIF_EVIDENCE_DIR=os.path.join(tmp, "evidence"))
        out = {}
        for p in props:
            r = subprocess.run([os.path.join(VERIF, "check"), p], cwd=VERIF, env=env, stdout=subprocess.PIPE, stderr=subprocess.STDOUT, text=True)
            viol = [l for l in r.stdout.splitlines() if l.startswith("VIOLATION") or l.startswith("  [")]
            out[p] = (r.returncode, viol, r.stdout)
            if r.returncode not in (0, 1):
                print(f"  {p}: checker error rc={r.returncode}\n{r.stdout[-1500:]}")
        return out
    finally:
        shutil.rmtree(tmp, ignore_errors=True)


def main():
    patch = sys.argv[1]
    props = sys.argv[2:]
    if not props:
        with open(os.path.join(VERIF, "MANIFEST.json")) as fh:
            props = [c["property_id"] for c in json.load(fh)["checks"]]
    out = run(patch, props)
    if out is None:
        return 2
    caught = [p for p, (rc, v, _) in out.items() if rc == 1]
    print(f"{os.path.basename(patch)}: caught by {caught or 'NOTHING'}")
    for p in caught:
        for l in out[p][1][:6]:
            print("   ", p, l[:300])
    return 0 if caught else 1


if __name__ == "__main__":
    sys.exit(main())
