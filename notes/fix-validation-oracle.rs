// NOT PART OF ANY CHECK. Throw-away explicit-state HCTL evaluator used once (design phase) to validate the
// candidate repairs in notes/planned-fixes.patch against a scratch copy of /repo. See DESIGN.md section 6.
// Build: a scratch crate with a path dependency on the (patched) copy and on biodivine-lib-param-bn.

use biodivine_hctl_model_checker::mc_utils::get_extended_symbolic_graph;
use biodivine_hctl_model_checker::model_checking::*;
use biodivine_hctl_model_checker::preprocessing::hctl_tree::{HctlTreeNode, NodeType};
use biodivine_hctl_model_checker::preprocessing::operator_enums::*;
use biodivine_hctl_model_checker::preprocessing::parser::parse_extended_formula;
use biodivine_lib_param_bn::biodivine_std::traits::Set;
use biodivine_lib_param_bn::symbolic_async_graph::{GraphColoredVertices, GraphColors, SymbolicAsyncGraph};
use biodivine_lib_param_bn::{BooleanNetwork, VariableId};
use std::collections::HashMap;
use std::panic::{catch_unwind, AssertUnwindSafe};

struct Rng(u64);
impl Rng {
    fn next(&mut self) -> u64 { self.0 ^= self.0 << 13; self.0 ^= self.0 >> 7; self.0 ^= self.0 << 17; self.0 }
    fn below(&mut self, n: u64) -> u64 { self.next() % n }
}

/// explicit model for one colour
struct Explicit { n: usize, succ: Vec<Vec<usize>>, wild: HashMap<String, u64> }

fn state_set(graph: &SymbolicAsyncGraph, s: usize, n: usize) -> GraphColoredVertices {
    let vals: Vec<(VariableId, bool)> = graph.variables().enumerate().map(|(i, v)| (v, (s >> i) & 1 == 1)).collect();
    let _ = n;
    graph.mk_subspace(&vals)
}

fn slice(graph: &SymbolicAsyncGraph, set: &GraphColoredVertices, color: &GraphColors, n: usize) -> u64 {
    let mut m = 0u64;
    for s in 0..(1usize << n) {
        let x = state_set(graph, s, n).intersect_colors(color).intersect(set);
        if !x.is_empty() { m |= 1 << s; }
    }
    m
}

fn build_explicit(graph: &SymbolicAsyncGraph, color: &GraphColors, n: usize, ctx: &HashMap<String, GraphColoredVertices>) -> Explicit {
    let mut succ = vec![Vec::new(); 1 << n];
    for s in 0..(1usize << n) {
        let from = state_set(graph, s, n).intersect_colors(color);
        let post = graph.post(&from);
        for t in 0..(1usize << n) {
            if !state_set(graph, t, n).intersect(&post).is_empty() { succ[s].push(t); }
        }
        if succ[s].is_empty() { succ[s].push(s); }
    }
    let mut wild = HashMap::new();
    for (k, v) in ctx { wild.insert(k.clone(), slice(graph, v, color, n)); }
    Explicit { n, succ, wild }
}

impl Explicit {
    fn all(&self) -> u64 { if (1usize << self.n) == 64 { u64::MAX } else { (1u64 << (1usize << self.n)) - 1 } }
    fn ex(&self, z: u64) -> u64 { let mut r = 0; for s in 0..(1usize << self.n) { if self.succ[s].iter().any(|t| z >> t & 1 == 1) { r |= 1 << s; } } r }
    fn ax(&self, z: u64) -> u64 { self.all() & !self.ex(self.all() & !z) }
    fn eu(&self, a: u64, b: u64) -> u64 { let mut z = b; loop { let nz = z | (a & self.ex(z)); if nz == z { return z; } z = nz; } }
    fn au(&self, a: u64, b: u64) -> u64 { let mut z = b; loop { let nz = z | (a & self.ax(z)); if nz == z { return z; } z = nz; } }
    fn eg(&self, a: u64) -> u64 { let mut z = a; loop { let nz = z & self.ex(z); if nz == z { return z; } z = nz; } }
    fn eval(&self, node: &HctlTreeNode, env: &mut HashMap<String, usize>, names: &Vec<String>) -> u64 {
        let all = self.all();
        match &node.node_type {
            NodeType::Terminal(a) => match a {
                Atomic::True => all,
                Atomic::False => 0,
                Atomic::Prop(p) => { let i = names.iter().position(|x| x == p).unwrap(); let mut r = 0; for s in 0..(1usize << self.n) { if (s >> i) & 1 == 1 { r |= 1 << s; } } r }
                Atomic::Var(x) => 1u64 << env[x],
                Atomic::WildCardProp(w) => self.wild[w],
            },
            NodeType::Unary(op, c) => { let z = self.eval(c, env, names); match op {
                UnaryOp::Not => all & !z,
                UnaryOp::EX => self.ex(z),
                UnaryOp::AX => self.ax(z),
                UnaryOp::EF => self.eu(all, z),
                UnaryOp::AF => all & !self.eg(all & !z),
                UnaryOp::EG => self.eg(z),
                UnaryOp::AG => all & !self.eu(all, all & !z),
            }}
            NodeType::Binary(op, l, r) => { let a = self.eval(l, env, names); let b = self.eval(r, env, names); match op {
                BinaryOp::And => a & b, BinaryOp::Or => a | b, BinaryOp::Xor => a ^ b,
                BinaryOp::Imp => (all & !a) | b, BinaryOp::Iff => all & !(a ^ b),
                BinaryOp::EU => self.eu(a, b), BinaryOp::AU => self.au(a, b),
                BinaryOp::EW => self.eu(a, b) | self.eg(a),
                BinaryOp::AW => all & !self.eu(all & !b, all & !a & !b),
            }}
            NodeType::Hybrid(op, x, dom, c) => {
                let d = match dom { Some(d) => self.wild[d], None => all };
                match op {
                    HybridOp::Jump => { let z = self.eval(c, env, names); if z >> env[x] & 1 == 1 { all } else { 0 } }
                    HybridOp::Bind => { let mut r = 0; for s in 0..(1usize << self.n) { if d >> s & 1 == 0 { continue; } let old = env.insert(x.clone(), s); let z = self.eval(c, env, names); if z >> s & 1 == 1 { r |= 1 << s; } match old { Some(o) => { env.insert(x.clone(), o); } None => { env.remove(x); } } } r }
                    HybridOp::Exists | HybridOp::Forall => { let mut r = if matches!(op, HybridOp::Exists) { 0 } else { all }; for s in 0..(1usize << self.n) { if d >> s & 1 == 0 { continue; } let old = env.insert(x.clone(), s); let z = self.eval(c, env, names); if matches!(op, HybridOp::Exists) { r |= z } else { r &= z } match old { Some(o) => { env.insert(x.clone(), o); } None => { env.remove(x); } } } r }
                }
            }
        }
    }
}

fn genf(rng: &mut Rng, depth: u32, scope: &mut Vec<String>, props: &Vec<String>, wild: &Vec<String>, top: bool) -> String {
    let leaf = depth == 0 || rng.below(5) == 0;
    if leaf {
        let k = rng.below(10);
        if k < 3 && !scope.is_empty() { return format!("{{{}}}", scope[rng.below(scope.len() as u64) as usize]); }
        if k < 6 { return props[rng.below(props.len() as u64) as usize].clone(); }
        if k < 8 { return format!("%{}%", wild[rng.below(wild.len() as u64) as usize]); }
        if k == 8 { return "true".into(); }
        return "(!{z}: AX {z})".to_string().replace('z', &format!("s{}", scope.len()));
    }
    let _ = top;
    let k = rng.below(24);
    let un = ["~", "EX ", "AX ", "EF ", "AF ", "EG ", "AG "];
    let bi = ["&", "|", "^", "=>", "<=>", "EU", "AU", "EW", "AW"];
    if k < 7 { return format!("({}{})", un[k as usize], genf(rng, depth - 1, scope, props, wild, false)); }
    if k < 16 { let a = genf(rng, depth - 1, scope, props, wild, false); let b = genf(rng, depth - 1, scope, props, wild, false); return format!("({} {} {})", a, bi[(k - 7) as usize], b); }
    if k < 22 && scope.len() < 3 {
        let ops = ["!", "3", "V"]; let op = ops[rng.below(3) as usize];
        let name = format!("v{}", scope.len());
        let dom = if rng.below(2) == 0 { format!(" in %{}%", wild[rng.below(wild.len() as u64) as usize]) } else { String::new() };
        scope.push(name.clone());
        let c = genf(rng, depth - 1, scope, props, wild, false);
        scope.pop();
        return format!("({}{{{}}}{}: {})", op, name, dom, c);
    }
    if !scope.is_empty() { let x = scope[rng.below(scope.len() as u64) as usize].clone(); return format!("(@{{{}}}: {})", x, genf(rng, depth - 1, scope, props, wild, false)); }
    if k % 2 == 0 { return "(!{a0}: AG EF {a0})".into(); }
    genf(rng, depth - 1, scope, props, wild, false)
}

fn main() {
    let seed: u64 = std::env::args().nth(1).map(|s| s.parse().unwrap()).unwrap_or(1);
    let iters: u64 = std::env::args().nth(2).map(|s| s.parse().unwrap()).unwrap_or(200);
    let models = [
        "a -> b\nb -| a\na -> a\n$a: a & !b\n",
        "a -?? b\nb -| a\n$a: !b\n",
        "a -> b\nb -> c\nc -| a\na -?? a\n$b: a\n",
        "a -?? b\nc -?? b\nb -> c\nc -| a\n$c: b\n",
    ];
    let mut rng = Rng(seed.wrapping_mul(0x9E3779B97F4A7C15) | 1);
    let mut checked = 0u64; let mut bad = 0u64; let mut panics = 0u64; let mut errs = 0u64;
    for (mi, m) in models.iter().enumerate() {
        let bn = BooleanNetwork::try_from(*m).unwrap();
        let n = bn.num_vars();
        let names: Vec<String> = bn.variables().map(|v| bn.get_variable_name(v).clone()).collect();
        let graph = get_extended_symbolic_graph(&bn, 3).unwrap();
        let mut colors = Vec::new();
        let mut rest = graph.mk_unit_colors();
        while !rest.is_empty() { let c = rest.pick_singleton(); rest = rest.minus(&c); colors.push(c); }
        println!("model {} vars {} colours {}", mi, n, colors.len());
        for it in 0..iters {
            // random context sets: colour dependent subsets of unit
            let wild_names: Vec<String> = vec!["p".into(), "q".into(), "e".into()];
            let mut ctx: HashMap<String, GraphColoredVertices> = HashMap::new();
            for w in &wild_names {
                let mut set = graph.mk_empty_colored_vertices();
                if w != "e" || rng.below(2) == 0 {
                    for c in &colors { if rng.below(4) == 0 { continue; } for s in 0..(1usize << n) { if rng.below(2) == 0 { set = set.union(&state_set(&graph, s, n).intersect_colors(c).intersect(graph.unit_colored_vertices())); } } }
                }
                ctx.insert(w.clone(), set);
            }
            let nform = 1 + rng.below(3);
            let mut formulas = Vec::new();
            for _ in 0..nform { let mut scope = Vec::new(); formulas.push(genf(&mut rng, 4, &mut scope, &names, &wild_names, true)); }
            let fs: Vec<&str> = formulas.iter().map(|s| s.as_str()).collect();
            let res = catch_unwind(AssertUnwindSafe(|| model_check_multiple_extended_formulae(fs.clone(), &graph, &ctx)));
            let res = match res { Err(_) => { panics += 1; println!("PANIC model {} it {} formulas {:?}", mi, it, formulas); continue; } Ok(Err(e)) => { errs += 1; if errs < 5 { println!("ERR {} for {:?}", e, formulas); } continue; } Ok(Ok(r)) => r };
            let canonical = SymbolicAsyncGraph::new(&bn).unwrap();
            for (f, r) in formulas.iter().zip(res.iter()) {
                let tree = parse_extended_formula(f).unwrap();
                let mut ok = r.is_subset(canonical.unit_colored_vertices());
                for c in &colors {
                    let ex = build_explicit(&graph, c, n, &ctx);
                    let expect = ex.eval(&tree, &mut HashMap::new(), &names);
                    // slice sanitized result using canonical graph
                    let cc = biodivine_hctl_model_checker::postprocessing::sanitizing::sanitize_colors(&graph, c);
                    let mut got = 0u64;
                    for s in 0..(1usize << n) { let vals: Vec<(VariableId, bool)> = canonical.variables().enumerate().map(|(i, v)| (v, (s >> i) & 1 == 1)).collect(); if !canonical.mk_subspace(&vals).intersect_colors(&cc).intersect(r).is_empty() { got |= 1 << s; } }
                    if got != expect { ok = false; }
                }
                checked += 1;
                if !ok { bad += 1; if bad < 15 { println!("MISMATCH model {} formula {} (batch {:?})", mi, f, formulas); } }
            }
        }
    }
    println!("checked {} mismatches {} panics {} errs {}", checked, bad, panics, errs);
}
