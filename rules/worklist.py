"""Tree traversals written with an explicit work-list instead of recursion.

    let mut todo = vec![root];
    while let Some(node) = todo.pop() { ..visit node..; todo.push(child) .. }

visits exactly the nodes reachable from `root` through the pushed children, once each (a tree has no sharing).  The rules that talk about a
recursive collector ("every child is visited; this is recorded for that node") are restated over such a loop: for every node shape, the
calls on the path of that shape are the pushes of the children and the recorded effects.  The order of the visits is not part of the
statement; it is only used by rules over order-insensitive accumulators (sets).
"""
import norm
import terms
from terms import subterms

POP = ("pop", "pop_front", "pop_back")
PUSH = ("push", "push_back", "push_front")


def last(p):
    return str(p).rsplit("::", 1)[-1]


def strip_mut(t):
    while isinstance(t, tuple) and t and t[0] == "mut":
        t = t[1]
    return t


class Traversal:
    def __init__(self, summ, root):
        """The work-list loop of a summary whose list starts as [root]; `.ok` is False (with `.why`) when there is none."""
        self.ok, self.why = False, "no work-list loop"
        self.summ = summ
        for lid, info in summ.loops.items():
            c = info.get("cond")
            if not (info.get("kind") == "while" and isinstance(c, tuple) and c[0] == "matches" and c[1][0] == "call" and last(c[1][1]) in POP
                    and len(c[1][2]) == 1 and c[1][2][0][0] == "loopvar" and c[1][2][0][1] == lid):
                continue
            lv = c[1][2][0]
            init = (info.get("vars") or {}).get(lv[2])
            init = init[0] if init else None
            while isinstance(init, tuple) and init[0] == "call" and last(init[1]) in ("clone", "into", "from") and len(init[2]) == 1:
                init = init[2][0]
            if not (isinstance(init, tuple) and init[0] in ("vec", "array") and tuple(init[1]) == (root,)):
                self.why = "the work-list does not start as [root]"
                continue
            self.lid, self.list, self.popped = lid, lv, c[1]
            self.elem = terms.mk_proj(c[1], "std::prelude::v1::Some", 0)
            inside = [x for x in summ.all_sites() if lid in (x.loops or ())]
            on_list = [x for x in inside if x.kind in ("mcall", "call") and x.args and strip_mut(x.args[0]) == lv]
            self.pushes = [x for x in on_list if x.name in PUSH and len(x.args) == 2]
            other = [x for x in on_list if x not in self.pushes and not (x.name in POP and x.term == c[1] or x.name in POP and len(x.args) == 1)]
            pops = [x for x in on_list if x.name in POP]
            if other or len(pops) != 1:
                self.why = "the work-list is touched by something other than the pop of the loop head and pushes"
                continue
            if any(x.kind in ("return", "break") for x in inside):
                self.why = "the traversal can stop early"
                continue
            # every pushed value is a part of the node that was popped (so the loop walks the tree below root and terminates)
            bad = [x for x in self.pushes if not self.part_of_elem(x.args[1])]
            if bad:
                self.why = "something other than a part of the visited node is pushed"
                continue
            self.sites = [x for x in inside if x not in on_list]
            self.ok = True
            return

    def part_of_elem(self, t):
        while isinstance(t, tuple) and t:
            if t == self.elem:
                return True
            if t[0] in ("proj", "field", "tproj"):
                t = t[1]
            elif t[0] == "call" and last(t[1]) in ("clone", "deref", "as_ref", "borrow") and len(t[2]) == 1:
                t = t[2][0]
            else:
                return False
        return False

    def on_shape(self, site, node, nz=None):
        """True / False when the site is / is not on the path taken for a visited node of the given (constructor term) shape; None if undecided."""
        nz = nz or norm.Normalizer()
        memo = {}

        def val(t):
            v = nz(terms.replace(t, self.elem, node, memo))
            return v[1] if v[0] == "lit" and isinstance(v[1], bool) else None
        for c in site.pc:
            if c[0] == "if":
                if c[1] == self.summ.loops[self.lid].get("cond"):
                    continue
                v = val(c[1])
                if v is None:
                    return None
                if v != bool(c[2]):
                    return False
            elif c[0] == "match":
                here = val(("matches", c[1], c[2]))
                prior = [val(("matches", c[1], d)) for d in (c[5] if len(c) > 5 else ())]
                if len(c) > 7 and c[7]:
                    return None         # guarded earlier arms
                if here is None or any(p is None for p in prior):
                    return None
                taken = here and not any(prior)
                if taken != bool(c[3]):
                    return False
        return True

    def on_node(self, term, node):
        return terms.replace(term, self.elem, node)
