"""The effect trace of an object: the value of a local after a function body is a chain
    mut(mut(mu[loop](init = .., step = mut($loopvar <- op(..))) <- op2(..)) <- op3(..))
which lists, in program order, every operation applied to it through `&mut` (method calls with a `&mut self` receiver, calls
that take it as a `&mut` argument, loops and iterator closures as `mu`).  `trace` flattens the chain into
    [("op", name, args, effect-term) | ("loop", loop id, source-or-None, [items])]
so that rules can state *what is done to a writer, in which order*, independently of how the code is laid out."""
from norm import last


def trace(t, summ=None, depth=0):
    """Items of the chain, oldest first; the first item is ("init", term)."""
    if not isinstance(t, tuple) or not t or depth > 200:
        return [("init", t)]
    if t[0] == "mut":
        eff = t[2]
        items = trace(t[1], summ, depth + 1)
        path = tuple(t[3]) if len(t) > 3 and t[3] else ()
        if eff[0] == "call":
            items.append(("op", last(eff[1]), eff[2], eff, path))
        elif eff[0] == "assign":
            items.append(("assign", eff[1], (eff[2],), eff, path))
        else:
            items.append(("op", "?", (), eff, path))
        return items
    if t[0] == "mu":
        lid = t[1]
        items = trace(t[3], summ, depth + 1)
        body = trace(t[4], summ, depth + 1)
        # the body's chain starts at the loop variable
        inner = [x for x in body if x[0] != "init"]
        starts_at_var = bool(body) and body[0][0] == "init" and isinstance(body[0][1], tuple) and body[0][1][:2] == ("loopvar", lid)
        items.append(("loop", lid, loop_source(summ, lid), inner if starts_at_var else [("opaque", body)]))
        return items
    if t[0] == "ite":
        a, b = trace(t[2], summ, depth + 1), trace(t[3], summ, depth + 1)
        # common prefix, then a conditional part
        n = 0
        while n < len(a) and n < len(b) and a[n] == b[n]:
            n += 1
        out = a[:n]
        if a[n:] or b[n:]:
            out.append(("cond", t[1], a[n:], b[n:]))
        return out
    return [("init", t)]


def loop_source(summ, lid):
    if summ is None:
        return None
    for s in summ.all_sites():
        if s.kind == "for" and s.node is not None and s.node.get("id") == lid:
            return s.args[0]
    return None


def flat(items, names):
    """Only the operations whose name is in `names`, loops kept."""
    out = []
    for it in items:
        if it[0] == "op" and it[1] in names:
            out.append(it)
        elif it[0] == "loop":
            inner = flat(it[3], names)
            if inner or any(x[0] == "opaque" for x in it[3]):
                out.append(("loop", it[1], it[2], inner if not any(x[0] == "opaque" for x in it[3]) else it[3]))
        elif it[0] in ("cond", "opaque"):
            out.append(it)
    return out


def as_pairs(x):
    """A collection of (key, value) pairs built from a source: (source, condition, key, value) or None.
    collectmap(S, C, K, V) | S.map(|e| (K, V)) | a map itself (its own pairs)."""
    import norm
    x = norm.strip_adapters(x)
    while isinstance(x, tuple) and x and x[0] == "call" and isinstance(x[1], str) and last(x[1]) in ("clone", "to_owned", "drain", "into_iter", "iter") and len(x[2]) == 1:
        x = norm.strip_adapters(x[2][0])
    if x[0] == "collectmap":
        return x[1], x[2], x[3], x[4]
    if x[0] == "hof" and x[1] == "map" and x[3][0] == "tuple" and len(x[3][1]) == 2:
        return norm.strip_adapters(x[2]), ("lit", True), x[3][1][0], x[3][1][1]
    if x[0] in ("param", "field"):
        return x, ("lit", True), ("tproj", ("elem", x), 0), ("tproj", ("elem", x), 1)
    return None
