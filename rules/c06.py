"""C06 - printing and parsing are inverse; syntax trees are internally consistent.

Decided here (round-trip equality over all trees is a value-level statement and is not decided):
  C06-R1  who may construct / mutate: HctlTreeNode struct literals occur only in the constructors mk_hybrid, mk_unary,
          mk_binary, mk_atom; nothing in the library or the binaries assigns to formula_str, height or node_type;
  C06-R2  height: 0 for atoms, child.height + 1 for unary / hybrid nodes, max(left.height, right.height) + 1 for binary;
  C06-R3  text covers structure: each constructor is partially evaluated for every operator variant (and for a present / absent
          domain; helpers of the module inlined, Option combinators folded) and the pieces of formula_str are compared with the
          template: one pair of parentheses around every structural component exactly once and in order (left, operator, right /
          operator, child / operator, variable, ` in %label%` exactly when a domain is present, child); atoms print as their
          Display; node_type stores exactly the constructor's arguments;
  C06-R4  spelling tables agree: the text a Display impl prints for every variant of UnaryOp, BinaryOp and HybridOp (obtained by
          partial evaluation of the impl for that variant) is read back as the same operator by the tokenizer's first-decision
          table (tokspec), whatever non-name character follows; a printed proposition name is read back as one proposition, names
          that begin like an operator included; the printed constants are in the parser's constant table; the atoms' Display
          shapes `{name}`, `%name%`, `name` are the shapes the tokenizer reads."""
import evalnode as E
import hir
import semantics as sem
import terms
from terms import subterms, pt

LEVEL = "other"
TREE = "preprocessing::hctl_tree::HctlTreeNode"
CTORS = ("mk_hybrid", "mk_unary", "mk_binary", "mk_atom")
FIELDS = ("formula_str", "height", "node_type")


def run(prog, rep):
    rep.explanation = __doc__
    rep.assumptions = []
    for r, t in (("C06-R1", "HctlTreeNode is built only by its four constructors and never mutated"), ("C06-R2", "height equations"),
                 ("C06-R3", "formula_str template covers the structure"), ("C06-R4", "Display spelling == tokenizer spelling")):
        rep.rule(r, t)
    eng = terms.Engine(prog, inline=False)
    import callgraph
    edges = callgraph.build(prog, eng)
    callers = {}
    for q_, outs in edges.items():
        for o in outs:
            callers.setdefault(o, set()).add(q_)

    def is_ctor(g):
        return g.name in CTORS and "HctlTreeNode" in g.path

    def assembly_helper(g, depth=2):
        """a private function of the tree module that is only called by the constructors (the struct assembly they share)"""
        cs = [prog.fns[c] for c in callers.get(g.qual, ()) if c != g.qual]
        return g.vis != "Public" and g.path.startswith("preprocessing::hctl_tree::") and bool(cs) and \
            all(is_ctor(c) or (depth > 0 and assembly_helper(c, depth - 1)) for c in cs)
    n_lit = 0
    for q, f in sorted(prog.fns.items()):
        if f.derived:
            continue
        s = eng.summary(f)
        for st in s.sites:
            if st.kind == "struct" and str(st.callee).endswith("HctlTreeNode"):
                n_lit += 1
                inside = is_ctor(f) or assembly_helper(f)
                rep.check(inside, "C06-R1", f"literal/{f.name}@{st.ordinal}", st.where(), "struct literal inside a constructor",
                          f"HctlTreeNode is assembled by hand in {f.path}: text and height are not computed by the constructors")
            if st.kind in ("assign", "assignop") and st.name and st.name.rsplit(".", 1)[-1] in FIELDS and "." in st.name:
                ty = str(st.ty)
                rep.violation("C06-R1", f"mutation/{f.name}/{st.name.rsplit('.', 1)[-1]}@{st.ordinal}", st.where(),
                              f"{f.path} assigns to `{st.name}`: a node's text / height / structure can get out of sync")
    ceng = ctor_engine(prog)
    for c in CTORS:
        cf = ctor_fn(prog, c)
        r = ceng.summary(cf).ret if cf is not None else None
        rep.check(r is not None and r[0] == "struct" and str(r[1]).endswith("HctlTreeNode"), "C06-R1", f"literal/{c}/assembles", f"{cf.file}:{cf.line}" if cf else "",
                  "the constructor returns a node it assembles itself", f"constructor {c} does not return a node assembled from its own text / height / structure")
    rep.check(n_lit >= 1, "C06-R1", "literal/count", "", f"{n_lit} struct literals, all in constructors", f"only {n_lit} HctlTreeNode literals found")
    rep.floor("C06-R1", 5)
    check_constructors(prog, rep, ceng)
    check_spelling(prog, rep, eng)


def ctor_engine(prog):
    """The constructors with the private helpers of the tree module inlined (the constructors themselves stay opaque to each other)."""
    names = [f.path for f in prog.lib_fns() if f.name in CTORS and "HctlTreeNode" in f.path]
    return terms.Engine(prog, inline=True, hooks=E.Hooks(["preprocessing::hctl_tree::"], opaque_names=names))


def ctor_fn(prog, name):
    fs = [f for f in prog.lib_fns() if f.name == name and "HctlTreeNode" in f.path]
    return fs[0] if fs else None


def field_of(struct_term, name):
    for n, t in struct_term[2]:
        if n == name:
            return t
    return None


def height_of(p):
    return ("field", ("param", p), "height")


def fmt_of(t):
    for x in [t] + list(subterms(t)):
        if isinstance(x, tuple) and x and x[0] == "fmt":
            return x
    return None


def check_constructors(prog, rep, eng):
    # ---- mk_atom
    f = ctor_fn(prog, "mk_atom")
    if f is None:
        rep.unresolved("C06-R2", "mk_atom", "", "constructor not found")
    else:
        rep.functions.add(f.qual)
        s = eng.summary(f)
        a = ("param", f.param_names()[0])
        st = s.ret
        ok = st[0] == "struct"
        rep.check(ok and field_of(st, "height") == ("lit", 0), "C06-R2", "mk_atom/height", f"{f.file}:{f.line}", "atoms have height 0",
                  f"atom height is {sem.short(field_of(st, 'height'), 60) if ok else None}")
        txt = field_of(st, "formula_str") if ok else None
        ok_txt = txt is not None and txt[0] == "call" and txt[1].endswith("to_string") and txt[2] == (a,)
        nt = field_of(st, "node_type") if ok else None
        ok_nt = nt is not None and nt[0] == "ctor" and str(nt[1]).endswith("NodeType::Terminal") and nt[2] == (a,)
        rep.check(ok_txt and ok_nt, "C06-R3", "mk_atom/text", f"{f.file}:{f.line}", "atom text = Display of the atom; node_type = Terminal(atom)",
                  f"text={sem.short(txt, 80)}, node_type={sem.short(nt, 80)}")
    # ---- mk_unary
    f = ctor_fn(prog, "mk_unary")
    if f is None:
        rep.unresolved("C06-R2", "mk_unary", "", "constructor not found")
    else:
        rep.functions.add(f.qual)
        s = eng.summary(f)
        pn = f.param_names()
        child, op = ("param", pn[0]), ("param", pn[1])
        st = s.ret
        ok = st[0] == "struct"
        h = field_of(st, "height") if ok else None
        rep.check(h in (("bin", "+", height_of(pn[0]), ("lit", 1)), ("bin", "+", ("lit", 1), height_of(pn[0]))), "C06-R2", "mk_unary/height",
                  f"{f.file}:{f.line}", "height = child.height + 1", f"height is {sem.short(h, 80)}")
        txt = field_of(st, "formula_str") if ok else None
        uvars = [(v["name"], {pn[1]: ("ctor", "preprocessing::operator_enums::UnaryOp::" + v["name"], ())})
                 for v in prog.adts.get("preprocessing::operator_enums::UnaryOp", {}).get("variants", [])]
        check_template(rep, "mk_unary", f, txt, [op, child], variants=uvars, prog=prog)
        nt = field_of(st, "node_type") if ok else None
        rep.check(nt is not None and nt[0] == "ctor" and str(nt[1]).endswith("NodeType::Unary") and nt[2] == (op, child), "C06-R3", "mk_unary/node_type",
                  f"{f.file}:{f.line}", "node_type = Unary(op, child)", f"node_type is {sem.short(nt, 100)}")
    # ---- mk_binary
    f = ctor_fn(prog, "mk_binary")
    if f is None:
        rep.unresolved("C06-R2", "mk_binary", "", "constructor not found")
    else:
        rep.functions.add(f.qual)
        s = eng.summary(f)
        pn = f.param_names()
        left, right, op = ("param", pn[0]), ("param", pn[1]), ("param", pn[2])
        st = s.ret
        ok = st[0] == "struct"
        h = field_of(st, "height") if ok else None
        good = False

        def minus_one(t):
            if t and t[0] == "bin" and t[1] == "+" and ("lit", 1) in (t[2], t[3]):
                return t[2] if t[3] == ("lit", 1) else t[3]
            return None
        if h and h[0] == "ite" and minus_one(h[2]) is not None and minus_one(h[3]) is not None:
            # `if c { a + 1 } else { b + 1 }` is `(if c { a } else { b }) + 1`
            h = ("bin", "+", ("ite", h[1], minus_one(h[2]), minus_one(h[3])), ("lit", 1))
        if h and h[0] == "bin" and h[1] == "+" and ("lit", 1) in (h[2], h[3]):
            m = h[2] if h[3] == ("lit", 1) else h[3]
            hl, hr = height_of(pn[0]), height_of(pn[1])
            if m[0] == "call" and m[1].rsplit("::", 1)[-1] == "max" and set(m[2]) == {hl, hr} and len(m[2]) == 2:
                good = True
            if m[0] == "ite" and m[1][0] == "bin" and m[1][1] in (">", ">=", "<", "<=") and {m[1][2], m[1][3]} == {hl, hr} and {m[2], m[3]} == {hl, hr}:
                bigger_first = m[1][1] in (">", ">=")
                a, b = m[1][2], m[1][3]
                good = (m[2] == a and m[3] == b) if bigger_first else (m[2] == b and m[3] == a)
        rep.check(good, "C06-R2", "mk_binary/height", f"{f.file}:{f.line}", "height = max(left.height, right.height) + 1", f"height is {sem.short(h, 120)}")
        txt = field_of(st, "formula_str") if ok else None
        bvars = [(v["name"], {pn[2]: ("ctor", "preprocessing::operator_enums::BinaryOp::" + v["name"], ())})
                 for v in prog.adts.get("preprocessing::operator_enums::BinaryOp", {}).get("variants", [])]
        check_template(rep, "mk_binary", f, txt, [left, op, right], variants=bvars, prog=prog)
        nt = field_of(st, "node_type") if ok else None
        rep.check(nt is not None and nt[0] == "ctor" and str(nt[1]).endswith("NodeType::Binary") and nt[2] == (op, left, right), "C06-R3",
                  "mk_binary/node_type", f"{f.file}:{f.line}", "node_type = Binary(op, left, right)", f"node_type is {sem.short(nt, 100)}")
    # ---- mk_hybrid
    f = ctor_fn(prog, "mk_hybrid")
    if f is None:
        rep.unresolved("C06-R2", "mk_hybrid", "", "constructor not found")
    else:
        rep.functions.add(f.qual)
        s = eng.summary(f)
        pn = f.param_names()
        child, var, dom, op = (("param", x) for x in pn[:4])
        st = s.ret
        ok = st[0] == "struct"
        h = field_of(st, "height") if ok else None
        rep.check(h in (("bin", "+", height_of(pn[0]), ("lit", 1)), ("bin", "+", ("lit", 1), height_of(pn[0]))), "C06-R2", "mk_hybrid/height",
                  f"{f.file}:{f.line}", "height = child.height + 1", f"height is {sem.short(h, 80)}")
        txt = field_of(st, "formula_str") if ok else None
        import render
        label = ("param", "#label")
        for v in prog.adts.get("preprocessing::operator_enums::HybridOp", {}).get("variants", []):
            for dname, dval in (("no-domain", ("ctor", "std::prelude::v1::None", ())), ("domain", ("ctor", "std::prelude::v1::Some", (label,)))):
                opc = ("ctor", "preprocessing::operator_enums::HybridOp::" + v["name"], ())
                mapping = {pn[3]: opc, pn[2]: dval}
                pieces = text_pieces(txt, mapping, prog, f) if txt else []
                want = ["(", ("arg", opc), "{", ("arg", var), "}"] + ([" in %", ("arg", label), "%"] if dname == "domain" else []) + [": ", ("arg", child), ")"]
                wshape = tuple(p if isinstance(p, str) else "{}" for p in render.merge(want))
                wargs = [p[1] for p in want if isinstance(p, tuple)]
                got_args = [p[1] for p in pieces if isinstance(p, tuple)]
                rep.check(render.shape(pieces) == wshape and got_args == wargs, "C06-R3", f"mk_hybrid/text[{v['name']},{dname}]", f"{f.file}:{f.line}",
                          "text = (op{var}[ in %label%]: child)",
                          f"for {v['name']} with {dname} the text is {render.shape(pieces)} over {[sem.short(a, 30) for a in got_args]}; expected {wshape}: "
                          "the domain segment must be ` in %label%` exactly when a domain is present, for every operator")

        nt = field_of(st, "node_type") if ok else None
        rep.check(nt is not None and nt[0] == "ctor" and str(nt[1]).endswith("NodeType::Hybrid") and nt[2] == (op, var, dom, child), "C06-R3",
                  "mk_hybrid/node_type", f"{f.file}:{f.line}", "node_type = Hybrid(op, var, domain, child)", f"node_type is {sem.short(nt, 120)}")
    rep.floor("C06-R2", 4)
    rep.floor("C06-R3", 26)


_PENG = {}


def text_pieces(txt, mapping, prog=None, f=None):
    """Pieces of formula_str when some constructor parameters are concrete: the constructor (helpers of the module inlined) is
    partially evaluated for them; falls back to substitution into the general summary."""
    import partial
    import render
    if prog is not None and f is not None and mapping:
        eng = _PENG.setdefault(id(prog), terms.Engine(prog, inline=True, hooks=E.Hooks(["preprocessing::hctl_tree::"])))
        sp = eng.specialise(f, dict(mapping))
        if sp is not None and sp.ret is not None and sp.ret[0] == "struct":
            t = field_of(sp.ret, "formula_str")
            if t is not None:
                return render.string_pieces(t)
    t = partial.simplify(terms.subst(txt, mapping))
    return render.string_pieces(t)


def check_template(rep, name, f, txt, components, variants=None, enum=None, prog=None):
    """formula_str, specialised for every operator variant, is one pair of parentheses around the components in order."""
    import render
    if txt is None:
        rep.unresolved("C06-R3", f"{name}/text", f"{f.file}:{f.line}", "formula_str not found")
        return
    cases = variants or [(None, {})]
    for vname, mapping in cases:
        pieces = text_pieces(txt, mapping, prog, f)
        args = [p[1] for p in pieces if isinstance(p, tuple)]
        comps = [terms.subst(c, mapping) for c in components]
        lits = "".join(p for p in pieces if isinstance(p, str))
        parens = bool(pieces) and isinstance(pieces[0], str) and pieces[0].startswith("(") and isinstance(pieces[-1], str) and pieces[-1].endswith(")")
        one_pair = lits.count("(") == 1 and lits.count(")") == 1
        only_space = set(lits) <= set("() ")
        rep.check(args == comps and parens and one_pair and only_space, "C06-R3", f"{name}/text" + (f"[{vname}]" if vname else ""), f"{f.file}:{f.line}",
                  "text = one pair of parentheses around the components in order, each once",
                  f"text pieces are {render.shape(pieces)} over {[sem.short(a, 30) for a in args]}; expected {[sem.short(c, 30) for c in comps]} once each, "
                  "in order, inside one pair of parentheses")


# ------------------------------------------------------------------------------------------------
# spelling tables
# ------------------------------------------------------------------------------------------------

def display_table(prog, eng, enum_name):
    """variant -> text printed by the Display impl (partial evaluation of the impl for every field-less variant)."""
    import render
    fn = render.display_impl(prog, enum_name)
    if fn is None:
        return None, {}, []
    variants = [v["name"] for v in prog.adts.get(f"preprocessing::operator_enums::{enum_name}", {}).get("variants", [])]
    table = {}
    for v in variants:
        pieces = render.printed(prog, enum_name, ("ctor", f"preprocessing::operator_enums::{enum_name}::{v}", ()))
        if pieces is not None:
            table[v] = tuple(pieces)
    return fn, table, variants


def tokenizer_table(prog, eng):
    """spelling -> (token kind, variant) recovered from the path conditions of the token constructions."""
    import workers
    tk = workers.tokenizer_main(prog)
    # helpers of the tokenizer module are inlined, so that the table survives the extraction of an arm into a helper
    ieng = terms.Engine(prog, inline=True, hooks=E.Hooks(["preprocessing::tokenizer::"]))
    s = ieng.summary(tk)
    table = {}
    for st in s.all_sites():
        if st.kind != "ctor" or not str(st.callee).endswith(("HctlToken::Unary", "HctlToken::Binary", "HctlToken::Hybrid")):
            continue
        if not st.args or st.args[0][0] != "ctor":
            continue
        variant = str(st.args[0][1]).rsplit("::", 1)[-1]
        kind = str(st.callee).rsplit("::", 1)[-1]
        chars = []
        long_name = None
        for c in st.pc:
            if c[0] == "match" and c[3] and c[2][0] == "lit" and isinstance(c[2][1], str) and len(c[2][1]) == 1:
                chars.append(c[2][1])
            elif c[0] == "match" and c[3] and c[2][0] == "or":
                pass
            elif c[0] == "if" and c[2] and c[1][0] == "bin" and c[1][1] == "==":
                others = [x for x in (c[1][2], c[1][3]) if x[0] == "call"]
                if any(isinstance(o[1], str) and o[1].rsplit("::", 1)[-1] == "peek" for o in others):
                    continue            # a look-ahead test does not consume the character
                for side in (c[1][2], c[1][3]):
                    if side[0] == "ctor" and str(side[1]).endswith("Some") and side[2] and side[2][0][0] == "lit" and isinstance(side[2][0][1], str) and len(side[2][0][1]) == 1:
                        chars.append(side[2][0][1])
                    if side[0] == "lit" and isinstance(side[1], str) and len(side[1]) > 1:
                        long_name = side[1]
        sp = "".join(chars)
        if long_name:
            sp = "\\" + long_name
        table.setdefault(sp, []).append((kind, variant, st))
    return tk, table


def check_spelling(prog, rep, eng):
    import tokrules as TR
    m = TR.model(prog)
    if not m.ok:
        rep.unresolved("C06-R4", "tokenizer/model", "", "the tokenizer's main loop could not be modelled")
    for enum_name, kind in (("UnaryOp", "Unary"), ("BinaryOp", "Binary"), ("HybridOp", "Hybrid")):
        fn, dtable, variants = display_table(prog, eng, enum_name)
        if fn is None:
            rep.unresolved("C06-R4", f"{enum_name}/Display", "", "Display impl not found")
            continue
        rep.functions.add(fn.qual)
        for v in variants:
            pieces = dtable.get(v)
            if pieces is None or not all(isinstance(p, str) for p in pieces):
                rep.unresolved("C06-R4", f"{enum_name}::{v}", f"{fn.file}:{fn.line}", "printed text of the variant could not be recovered")
                continue
            text = "".join(pieces)
            if not m.ok:
                continue
            good, why = TR.reads_back(m, text, kind, v, follows=(("{", " ") if kind == "Hybrid" else TR.BREAK_CHARS))
            rep.check(good, "C06-R4", f"{enum_name}::{v}", f"{fn.file}:{fn.line}", f"`{text}` is tokenised back to {kind}({v})",
                      f"Display prints {enum_name}::{v} as `{text}`, but {why}")
    # a printed proposition name is read back as one proposition: names that begin like an operator included (C05-R4 instances)
    sub = type(rep)("C06n")
    TR.check_lookahead(prog, sub, "N")
    for i in sub.instances:
        (rep.ok if i.verdict == "ok" else rep.violation if i.verdict == "violation" else rep.unresolved)("C06-R4", "names/" + i.key.split(":", 1)[1], i.where, i.detail)
    rep.floor("C06-R4", 25)
    # atoms
    fn, _, _ = display_table(prog, eng, "Atomic")
    if fn is None:
        rep.unresolved("C06-R4", "Atomic/Display", "", "Display impl not found")
        return
    import render
    shapes = {}
    for v in prog.adts.get("preprocessing::operator_enums::Atomic", {}).get("variants", []):
        arg = (("param", "#name"),) if v["fields"] else ()
        pieces = render.printed(prog, "Atomic", ("ctor", "preprocessing::operator_enums::Atomic::" + v["name"], arg))
        if pieces is not None and all(isinstance(p, str) or p[1] == ("param", "#name") for p in pieces):
            shapes[v["name"]] = render.shape(pieces)
    import c05
    _, consts = c05.parser_constants(prog)
    for v, val in (("True", True), ("False", False)):
        text = "".join(shapes.get(v, ("?",))) if all(isinstance(x, str) for x in shapes.get(v, ())) else None
        rep.check(text is not None and text in consts[val] and text not in consts[not val], "C06-R4", f"Atomic::{v}/parsed-back", f"{fn.file}:{fn.line}",
                  f"the printed constant `{text}` is read back as the constant {str(val).lower()}",
                  f"Atomic::{v} prints as `{text}`, but the parser maps only {sorted(consts[val])} to {str(val).lower()}: a printed tree containing the constant is parsed back as a proposition named `{text}`")
    want = {"Var": ("{", "{}", "}"), "Prop": ("{}",), "True": ("True",), "False": ("False",), "WildCardProp": ("%", "{}", "%")}
    for v, w in want.items():
        rep.check(shapes.get(v) == w, "C06-R4", f"Atomic::{v}", f"{fn.file}:{fn.line}", f"prints as {''.join(w)}",
                  f"Atomic::{v} prints as {shapes.get(v)}; the tokenizer reads {''.join(w)}")
