"""Partial evaluation of Herbrand terms under structural assumptions ("the node is `Unary(EX, child)`").

`simplify` resolves `switch` / `matches` / `ite` / comparisons whose scrutinee became a constructor
term after substitution, and evaluates path conditions to True / False / None (unknown).  This is
constant folding on the summary terms; no code is run."""
from terms import mk_field, mk_proj, mk_tproj, mk_ite, mk_join

TRUE = ("lit", True)
FALSE = ("lit", False)


def match_desc(d, t):
    """Does pattern descriptor d match constructor term t?  True / False / None (cannot tell)."""
    k = d[0]
    if k == "wild":
        return True
    if k == "or":
        res = [match_desc(x, t) for x in d[1]]
        if any(r is True for r in res):
            return True
        if all(r is False for r in res):
            return False
        return None
    if k == "lit":
        if t[0] == "lit":
            return t[1] == d[1]
        return None
    if k == "var":
        path, subs, dd = d[1], d[2], d[3]
        if t[0] == "ctor":
            if not same_variant(t[1], path):
                return False
            if dd == "struct":
                return None if subs else True
            args = t[2]
            res = True
            n = len(subs)
            for i, s in enumerate(subs):
                if dd is None or i < dd:
                    idx = i
                else:
                    idx = len(args) - (n - i)
                if idx >= len(args) or idx < 0:
                    return None
                r = match_desc(s, args[idx])
                if r is False:
                    return False
                if r is None:
                    res = None
            return res
        if t[0] == "struct":
            if not same_variant(t[1], path):
                return False
            res = True
            if dd == "struct":
                fields = dict(t[2])
                for nm, s in subs:
                    if nm not in fields:
                        return None
                    r = match_desc(s, fields[nm])
                    if r is False:
                        return False
                    if r is None:
                        res = None
            return res
        return None
    if k == "tuple":
        if t[0] == "tuple" and len(t[1]) == len(d[1]) and d[2] is None:
            res = True
            for s, x in zip(d[1], t[1]):
                r = match_desc(s, x)
                if r is False:
                    return False
                if r is None:
                    res = None
            return res
        return None
    return None


def same_variant(a, b):
    if a == b:
        return True
    if not isinstance(a, str) or not isinstance(b, str):
        return False
    # paths printed from different crates: compare the last two segments (Enum::Variant)
    sa, sb = a.split("::"), b.split("::")
    if sa[-1] == sb[-1] and sa[-1] in ("Some", "None", "Ok", "Err"):
        return True          # prelude re-exports (`std::prelude::v1::Some`)
    return sa[-2:] == sb[-2:]


def is_concrete(t):
    return isinstance(t, tuple) and t and t[0] in ("ctor", "struct", "lit", "tuple")


def ctor_eq(a, b):
    """Structural equality of constructor terms with literal leaves: True / False / None (not decidable)."""
    if a[0] == "lit" and b[0] == "lit":
        return a[1] == b[1]
    if a[0] == "ctor" and b[0] == "ctor":
        if not same_variant(a[1], b[1]):
            return False
        if len(a[2]) != len(b[2]):
            return None
        res = True
        for x, y in zip(a[2], b[2]):
            r = ctor_eq(x, y)
            if r is False:
                return False
            if r is None:
                res = None
        return res
    if a == b and is_concrete(a):
        return True
    return None


def simplify(t, memo=None):
    if memo is None:
        memo = {}
    if not isinstance(t, tuple) or not t:
        return t
    hit = memo.get(id(t))
    if hit is not None and hit[0] is t:
        return hit[1]
    k = t[0]
    r = None
    if k == "switch":
        scrut = simplify(t[1], memo)
        arms = t[2]
        chosen = None
        undecided = []
        for (d, g), v in arms:
            m = match_desc(d, scrut) if is_concrete(scrut) else None
            if m is False:
                continue
            if m is True and g is None:
                if not undecided:
                    chosen = v
                    break
                undecided.append(((d, g), v))
                break
            if g is not None:
                gs = simplify(g, memo)
                if m is True and gs == FALSE:
                    continue
                if m is True and gs == TRUE:
                    if not undecided:
                        chosen = v
                        break
                undecided.append(((d, gs), v))
            else:
                undecided.append(((d, g), v))
        if chosen is None and not undecided and is_concrete(scrut):
            r = ("never",)
        elif chosen is not None:
            r = simplify(chosen, memo)
        elif len(undecided) == 1 and is_concrete(scrut) and undecided[0][0][1] is None:
            r = simplify(undecided[0][1], memo)
        else:
            r = ("switch", scrut, tuple(((d, g), simplify(v, memo)) for (d, g), v in undecided)) + tuple(t[3:])
    elif k == "matches":
        scrut = simplify(t[1], memo)
        m = match_desc(t[2], scrut) if is_concrete(scrut) else None
        r = TRUE if m is True else FALSE if m is False else ("matches", scrut, t[2])
    elif k == "ite":
        c = simplify(t[1], memo)
        if c == TRUE:
            r = simplify(t[2], memo)
        elif c == FALSE:
            r = simplify(t[3], memo)
        else:
            r = mk_ite(c, simplify(t[2], memo), simplify(t[3], memo))
    elif k == "not":
        x = simplify(t[1], memo)
        r = FALSE if x == TRUE else TRUE if x == FALSE else ("not", x)
    elif k == "bin":
        a, b = simplify(t[2], memo), simplify(t[3], memo)
        op = t[1]
        if op == "&&":
            if a == FALSE or b == FALSE:
                r = FALSE
            elif a == TRUE:
                r = b
            elif b == TRUE:
                r = a
        elif op == "||":
            if a == TRUE or b == TRUE:
                r = TRUE
            elif a == FALSE:
                r = b
            elif b == FALSE:
                r = a
        elif op in ("==", "!="):
            eq = None
            if a == b and pure(a):
                eq = True
            elif a[0] == "lit" and b[0] == "lit":
                eq = a[1] == b[1]
            elif a[0] == "ctor" and b[0] == "ctor" and not same_variant(a[1], b[1]):
                eq = False
            elif a[0] == "ctor" and b[0] == "ctor":
                eq = ctor_eq(a, b)
            if eq is not None:
                r = TRUE if (eq == (op == "==")) else FALSE
        if r is None:
            r = ("bin", op, a, b)
    elif k == "field":
        r = mk_field(simplify(t[1], memo), t[2])
    elif k == "proj":
        r = mk_proj(simplify(t[1], memo), t[2], t[3])
    elif k == "tproj":
        r = mk_tproj(simplify(t[1], memo), t[2])
    elif k == "join":
        r = mk_join([simplify(x, memo) for x in t[1]])
    elif k == "hof" and len(t) >= 4:
        name, recv, body = t[1], simplify(t[2], memo), t[3]
        rest = t[4] if len(t) > 4 else ()
        if recv[0] == "ctor" and recv[1].rsplit("::", 1)[-1] in ("Some", "None"):
            some = recv[1].endswith("Some")
            b = simplify(body, memo)
            if name in ("and_then",):
                r = b if some else recv
            elif name == "map":
                r = ("ctor", recv[1], (b,)) if some else recv
            elif name in ("is_some_and",):
                r = b if some else FALSE
            elif name in ("is_none_or",):
                r = b if some else TRUE
            elif name == "filter":
                r = simplify(("ite", b, recv, ("ctor", recv[1].rsplit("::", 1)[0] + "::None", ())), memo) if some else recv
            elif name in ("map_or",) and rest:
                r = b if some else simplify(rest[0], memo)
            elif name in ("or_else", "unwrap_or_else"):
                r = (recv if name == "or_else" else recv[2][0]) if some else b
        if r is None:
            r = ("hof", name, recv, simplify(body, memo)) + ((tuple(simplify(x, memo) for x in rest),) if len(t) > 4 else ())
    elif k == "call" and isinstance(t[1], str) and t[1].endswith("::is_some") and len(t[2]) == 1:
        x = simplify(t[2][0], memo)
        if x[0] == "ctor":
            r = TRUE if x[1].endswith("Some") else FALSE
        else:
            r = ("call", t[1], (x,))
    elif k == "call" and isinstance(t[1], str) and t[1].endswith("::is_none") and len(t[2]) == 1:
        x = simplify(t[2][0], memo)
        if x[0] == "ctor":
            r = FALSE if x[1].endswith("Some") else TRUE
        else:
            r = ("call", t[1], (x,))
    else:
        r = tuple(simplify(x, memo) if isinstance(x, tuple) else x for x in t)
        if all(a is b for a, b in zip(r, t)):
            r = t
    memo[id(t)] = (t, r)
    return r


def pure(t):
    """No opaque effects inside (safe to conclude t == t)."""
    return True


def eval_pc(pc, mapping=None, memo=None):
    """Evaluate a path condition (after substitution + simplification): True (all hold), False (one is
    refuted), None (unknown).  Returns (verdict, residual list of undecided conditions)."""
    from terms import subst
    residual = []
    for c in pc:
        if c[0] == "if":
            t = c[1]
            if mapping:
                t = subst(t, mapping)
            t = simplify(t, memo)
            want = c[2]
            if t == TRUE:
                if not want:
                    return False, []
            elif t == FALSE:
                if want:
                    return False, []
            else:
                residual.append(("if", t, want))
        elif c[0] == "match":
            scrut, d, pol = c[1], c[2], c[3]
            if mapping:
                scrut = subst(scrut, mapping)
            scrut = simplify(scrut, memo)
            m = match_desc(d, scrut) if is_concrete(scrut) else None
            prior = c[5] if len(c) > 5 else ()
            if m is not None:
                if m != pol:
                    return False, []
                # being in arm i also means that no earlier arm matched
                dead = False
                for pd_ in prior:
                    pm = match_desc(pd_, scrut)
                    if pm is True and pol:
                        dead = True
                if dead:
                    return False, []
            else:
                residual.append(("match", scrut, d, pol))
    return (True if not residual else None), residual
