"""The tokenizer's first decision: which token one iteration of the main loop produces for a given beginning of the input.

The summary of `try_tokenize_recursive` (helpers of the module inlined) is a set of token pushes and early exits, each under a
path condition over the characters read so far: `it.next()` / `it.peek()` applied to the iterator *state* at that point.  The
position of a state relative to the start of the iteration is computed from the chain of `next` / `peek` effects; conditions and
token terms are then *partially evaluated* for a short concrete prefix (at most three characters and the end of input).  What
cannot be evaluated (conditions behind loops of helper functions: names, whitespace skipping on a cloned iterator) stays as a
residual condition.  No loop is executed and no input is tokenised: this is constant propagation into the guards of one iteration,
independent of how the arms are arranged (match arms, guards, merged arms, helper functions, tables)."""
import evalnode as E
import norm
import partial
import terms
from norm import last
from terms import subterms

TOK = "preprocessing::tokenizer::"
END = None          # end of input marker in a prefix


class TokModel:
    def __init__(self, prog):
        self.prog = prog
        import workers
        self.fn = workers.tokenizer_main(prog)          # found as the recursive function behind try_tokenize_formula
        self.ok = False
        if self.fn is None:
            return
        self.eng = terms.Engine(prog, inline=True, hooks=E.Hooks([TOK], opaque_names=[self.fn.path]))
        self.summ = self.eng.summary(self.fn)
        self.pn = self.fn.param_names()
        self.it_param = self.pn[0]
        self.nz = norm.Normalizer()
        # token pushes of the main loop, and the loop they are in
        self.pushes = []
        for st in self.summ.all_sites():
            if st.kind == "mcall" and st.name == "push" and len(st.args) == 2 and st.argnodes and len(st.argnodes) > 1 and st.argnodes[1] is not None \
                    and "HctlToken" in str(st.argnodes[1].get("ty", "")):
                self.pushes.append(st)
        self.loop = None
        for st in self.pushes:
            for y in self._conds_terms(st.pc):
                for z in [y] + list(subterms(y)):
                    if z[0] == "call" and isinstance(z[1], str) and last(z[1]) == "next" and len(z[2]) == 1 and z[2][0][0] == "loopvar" and z[2][0][2] == self.it_param:
                        self.loop = z[2][0]
        self.ok = bool(self.pushes) and self.loop is not None
        self.exits = [r for r in self.summ.returns if r[5] in ("return", "tail")]

    @staticmethod
    def _conds_terms(pc):
        return [c[1] for c in pc if c[0] in ("if", "match")]

    # ------------------------------------------------------------------------------------------ iterator positions
    def pos(self, s, depth=0):
        """Number of characters consumed between the start of the iteration and iterator state `s` (None if unknown)."""
        if depth > 60 or not isinstance(s, tuple) or not s:
            return None
        if s == self.loop:
            return 0
        if s[0] == "mut":
            p = self.pos(s[1], depth + 1)
            if p is None:
                return None
            eff = s[2]
            if eff[0] == "call" and isinstance(eff[1], str):
                l = last(eff[1])
                if l == "next":
                    return p + 1
                if l in ("peek", "clone", "by_ref"):
                    return p
            return None
        if s[0] == "call" and isinstance(s[1], str) and last(s[1]) in ("clone", "by_ref", "borrow_mut", "deref_mut") and len(s[2]) == 1:
            return self.pos(s[2][0], depth + 1)
        if s[0] == "ite":
            a, b = self.pos(s[2], depth + 1), self.pos(s[3], depth + 1)
            return a if a == b else None
        return None

    def concretise(self, t, w, memo=None):
        """Replace `next(S)` / `peek(S)` at a known position by the character of the prefix `w` there."""
        if memo is None:
            memo = {}
        if not isinstance(t, tuple) or not t:
            return t
        k = id(t)
        if k in memo and memo[k][0] is t:
            return memo[k][1]
        r = None
        if t[0] == "call" and isinstance(t[1], str) and last(t[1]) in ("next", "peek") and len(t[2]) == 1:
            p = self.pos(t[2][0])
            if p is not None and p < len(w):
                ch = w[p]
                r = ("ctor", "std::prelude::v1::None", ()) if ch is END else ("ctor", "std::prelude::v1::Some", (("lit", ch),))
        if r is None:
            r = tuple(self.concretise(x, w, memo) if isinstance(x, tuple) else x for x in t)
        memo[k] = (t, r)
        return r

    def _eval(self, t, w, flags):
        t = terms.subst(t, flags) if flags else t
        t = self.concretise(t, w)
        nz = norm.Normalizer()
        for _ in range(4):
            t2 = nz(partial.simplify(table_fold(char_fold(t), nz)))
            if t2 == t:
                break
            t = t2
        return t

    def _eval_pc(self, pc, w, flags):
        """(feasible, residual conditions)"""
        residual = []
        for c in pc:
            if c[0] == "if":
                v = self._eval(c[1], w, flags)
                pol = c[2]
            elif c[0] == "match":
                v = self._eval(("matches", c[1], c[2]), w, flags)
                pol = c[3]
                if pol:
                    # an arm is only reached when no earlier arm was taken
                    scrut = self._eval(c[1], w, flags)
                    blocked = False
                    for d in (c[5] if len(c) > 5 else ()):
                        m = partial.match_desc(d, scrut) if scrut[0] in ("lit", "ctor") else None
                        if m is True:
                            blocked = True
                        elif m is None:
                            residual.append((("matches", scrut, d), False))
                    for d, g in (c[7] if len(c) > 7 else ()):
                        pv = self._eval(("bin", "&&", ("matches", c[1], d), g), w, flags)
                        if pv == ("lit", True):
                            blocked = True
                        elif pv != ("lit", False):
                            residual.append((pv, False))
                    if blocked:
                        return False, []
            else:
                continue
            while v[0] == "not":
                v, pol = v[1], not pol
            if v == ("lit", True):
                if not pol:
                    return False, []
            elif v == ("lit", False):
                if pol:
                    return False, []
            else:
                residual.append((v, pol))
        return True, residual

    # ------------------------------------------------------------------------------------------ decisions
    def decide(self, w, flags=None):
        """Outcomes of one iteration for input prefix w: [("token", term, residual) | ("err", term, residual)]."""
        ft = getattr(self, "flag_terms", {})
        fl = {self.pn[i]: (v if isinstance(v, tuple) else ft.get((i, v), ("lit", v))) for i, v in (flags or {}).items()} if flags else {}
        out = []
        for st in self.pushes:
            ok, res = self._eval_pc(st.pc, w, fl)
            if not ok:
                continue
            tok = self._eval(st.args[1], w, fl)
            for conds, leaf in leaves(tok):
                if leaf == terms.NEVER:
                    continue          # this arm of the token expression left the iteration (continue / return): nothing is pushed
                extra = []
                feasible = True
                for c, pol in conds:
                    v = self._eval(c, w, fl)
                    if v == ("lit", True) and not pol or v == ("lit", False) and pol:
                        feasible = False
                    elif v[0] != "lit":
                        extra.append((v, pol))
                if feasible:
                    out.append(("token", leaf, res + extra))
        for r in self.exits:
            if not any(c[0] == "loop" for c in r[1]):
                continue          # exits after the loop are not decisions of an iteration
            ok, res = self._eval_pc(r[1], w, fl)
            if not ok:
                continue
            v = self._eval(r[0], w, fl)
            for conds, leaf in leaves(v):
                if leaf[0] == "ctor" and last(leaf[1]) == "Err":
                    out.append(("err", leaf, res + list(conds)))
                elif leaf[0] == "ctor" and last(leaf[1]) == "Ok":
                    out.append(("end", leaf, res + list(conds)))
        return out


def leaves(t, conds=()):
    if isinstance(t, tuple) and t and t[0] == "switch":
        # decision list: the first arm whose pattern (and guard) holds
        out = []
        neg = ()
        for (d, g), v in t[2]:
            c = ("matches", t[1], d) if d[0] != "wild" else ("lit", True)
            if g is not None:
                c = ("bin", "&&", c, g) if c != ("lit", True) else g
            here = conds + neg + (((c, True),) if c != ("lit", True) else ())
            out += leaves(v, here)
            if c != ("lit", True):
                neg = neg + ((c, False),)
        return out
    if isinstance(t, tuple) and t and t[0] in ("proj", "tproj", "field") and len(t) >= 3 and isinstance(t[1], tuple) and t[1] and t[1][0] == "switch":
        out = []
        for cs, leaf in leaves(t[1], conds):
            out += leaves((t[0], leaf) + tuple(t[2:]), cs)
        return out
    if isinstance(t, tuple) and t and t[0] == "ite":
        return leaves(t[2], conds + ((t[1], True),)) + leaves(t[3], conds + ((t[1], False),))
    if isinstance(t, tuple) and t and t[0] == "proj" and t[1][0] == "ite" and last(t[2]) in ("Ok", "Some") and t[3] == 0:
        x = t[1]
        return leaves(("proj", x[2], t[2], 0), conds + ((x[1], True),)) + leaves(("proj", x[3], t[2], 0), conds + ((x[1], False),))
    if isinstance(t, tuple) and t and t[0] == "proj" and t[1][0] == "ctor" and last(t[1][1]) == last(t[2]) and t[1][2]:
        return leaves(t[1][2][t[3]], conds)
    if isinstance(t, tuple) and t and t[0] == "proj" and t[1][0] == "ctor" and last(t[1][1]) in ("Some", "None", "Ok", "Err") and last(t[2]) in ("Some", "Ok") \
            and last(t[1][1]) != last(t[2]):
        return []                 # the payload of Ok / Some taken from an Err / None: this branch was left by `?`
    if isinstance(t, tuple) and t and t[0] in ("tproj", "field") and len(t) == 3 and str(t[2]).isdigit():
        # component of a tuple that is itself a decision tree
        out = []
        inner = leaves(t[1], conds)
        if len(inner) > 1 or (inner and inner[0][1] is not t[1]):
            for cs, leaf in inner:
                if leaf[0] == "proj" and not leaves(leaf, cs):
                    continue
                if leaf[0] == "tuple" and int(str(t[2])) < len(leaf[1]):
                    out += leaves(leaf[1][int(str(t[2]))], cs)
                else:
                    out.append((cs, (t[0], leaf, t[2])))
            return out
    return [(conds, t)]


def char_fold(t, memo=None):
    """Character predicates on literal characters: is_whitespace / is_alphanumeric / .. of a literal."""
    if memo is None:
        memo = {}
    if not isinstance(t, tuple) or not t:
        return t
    k = id(t)
    if k in memo and memo[k][0] is t:
        return memo[k][1]
    r = tuple(char_fold(x, memo) if isinstance(x, tuple) else x for x in t)
    if r[0] == "call" and isinstance(r[1], str) and len(r[2]) == 1 and r[2][0][0] == "lit" and isinstance(r[2][0][1], str) and len(r[2][0][1]) == 1:
        ch = r[2][0][1]
        l = last(r[1])
        fn = {"is_whitespace": str.isspace, "is_alphanumeric": str.isalnum, "is_alphabetic": str.isalpha, "is_numeric": str.isnumeric,
              "is_ascii_digit": lambda c: c.isascii() and c.isdigit(), "is_ascii_alphanumeric": lambda c: c.isascii() and c.isalnum(),
              "is_ascii_alphabetic": lambda c: c.isascii() and c.isalpha(), "is_ascii_whitespace": lambda c: c in " \t\n\r\x0c",
              "is_uppercase": str.isupper, "is_lowercase": str.islower}.get(l)
        if fn is not None and "char" in r[1]:
            r = ("lit", bool(fn(ch)))
    memo[k] = (t, r)
    return r


def table_fold(t, nz, memo=None):
    """A search in a table of literals with a predicate that can be decided per entry: `TABLE.iter().find(|e| e.0 == 'x')` is the
    first entry for which the predicate folds to true (None when it folds to false for all); `position` / `any` / `all` likewise.
    Left alone when some entry before the first hit cannot be decided."""
    if memo is None:
        memo = {}
    if not isinstance(t, tuple) or not t:
        return t
    k = id(t)
    if k in memo and memo[k][0] is t:
        return memo[k][1]
    r = tuple(table_fold(x, nz, memo) if isinstance(x, tuple) else x for x in t)
    if all(a is b for a, b in zip(r, t)):
        r = t
    if r[0] == "hof" and r[1] in ("find", "position", "any", "all") and len(r) >= 4:
        src = norm.strip_adapters(r[2])
        if src[0] in ("array", "vec") and src[1] and all(partial.is_concrete(x) for x in src[1]):
            verdicts = []
            for item in src[1]:
                b = r[3]
                for e in (("elem", r[2]), ("elem", src)):
                    b = terms.replace(b, e, item)
                b = nz(partial.simplify(char_fold(b)))
                verdicts.append(True if b == ("lit", True) else False if b == ("lit", False) else None)
            out = None
            if r[1] in ("find", "position"):
                for i, v in enumerate(verdicts):
                    if v is True:
                        out = ("ctor", "std::prelude::v1::Some", (src[1][i] if r[1] == "find" else ("lit", terms.Int(i)),))
                        break
                    if v is None:
                        break
                else:
                    out = ("ctor", "std::prelude::v1::None", ())
            elif r[1] == "any":
                out = ("lit", True) if any(v is True for v in verdicts) else (("lit", False) if all(v is False for v in verdicts) else None)
            elif r[1] == "all":
                out = ("lit", False) if any(v is False for v in verdicts) else (("lit", True) if all(v is True for v in verdicts) else None)
            if out is not None:
                r = out
    memo[k] = (t, r)
    return r


def token_kind(t):
    """('Unary', 'EX') / ('Binary', 'And') / ('Hybrid', 'Bind') / ('Atom', 'Prop') / ('Tokens', None) for a token term."""
    while isinstance(t, tuple) and t and t[0] == "call" and isinstance(t[1], str) and last(t[1]) in ("clone", "into", "from") and len(t[2]) == 1:
        t = t[2][0]
    if not (isinstance(t, tuple) and t and t[0] == "ctor" and "HctlToken" in str(t[1])):
        return None
    kind = last(t[1])
    if kind == "Tokens":
        return ("Tokens", None)
    a = t[2][0] if t[2] else None
    if a is not None and a[0] == "ctor":
        return (kind, last(a[1]))
    return (kind, None)
