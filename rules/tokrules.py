"""Rules about the tokenizer, stated on its first-decision table (tokspec): what one iteration of the main loop does for a given
beginning of the input.  Used by C05 (R3 plain mode, R4 look-ahead, R5 whitespace), C06 (R4 spelling), C08 (R1 long / short
spellings, R3 whitespace) and C14 (plain mode produces no domains)."""
import norm
import partial
import q
import terms
import tokspec as T
from norm import last
from terms import subterms, pt

_MODEL = {}

NAME_CHARS = ("a", "_", "7", "Z")
BREAK_CHARS = (None, " ", "(", "~", "{", "&", ")")


def model(prog):
    k = id(prog)
    if k not in _MODEL:
        _MODEL[k] = T.TokModel(prog)
    return _MODEL[k]


def kinds(outcomes):
    """(definite token kinds, possible token kinds, definite errors, possible errors)"""
    dt, pt_, de, pe = [], [], 0, 0
    for k, t, res in outcomes:
        if k == "token":
            tk = T.token_kind(t)
            (dt if not res else pt_).append(tk)
        elif k == "err":
            if res:
                pe += 1
            else:
                de += 1
    return dt, pt_, de, pe


def two_valued(prog, ty):
    """The two values of a mode parameter's type: (false-like, true-like) terms for bool; the two variants of a local two-variant
    enum with constant variants (order of declaration); None otherwise."""
    ty = ty.strip()
    if ty == "bool":
        return (("lit", False), ("lit", True))
    adt = prog.adt(ty) if hasattr(prog, "adt") else None
    if adt is not None and adt.get("kind") == "enum" and len(adt["variants"]) == 2 and all(not v["fields"] for v in adt["variants"]):
        return tuple(("ctor", adt["path"] + "::" + v["name"], ()) for v in adt["variants"])
    return None


def flag_index(m):
    """(index of the dialect parameter, index of the top-level parameter) of the tokenizer's main function.  Mode parameters are its
    two-valued parameters (bool, or a private two-variant enum); which one is the dialect, and which value means what, is read from
    the two public entry points: the dialect is the parameter the plain and the extended entry pass different values for."""
    if getattr(m, "_flags", None) is not None:
        return m._flags
    prog = m.prog
    tys = m.fn.param_tys
    idx = [i for i, t in enumerate(tys) if two_valued(prog, t) is not None]
    m.flag_terms = {}
    calls = {}
    for name, val in (("try_tokenize_formula", False), ("try_tokenize_extended_formula", True)):
        f = prog.lib_fn(T.TOK + name)
        if f is None:
            continue
        fs = terms.Engine(prog, inline=True, hooks=__import__("evalnode").Hooks([T.TOK], opaque_names=[m.fn.path])).summary(f)
        cc = [x for x in fs.all_sites() if x.kind == "call" and isinstance(x.callee, str) and prog.resolve_local(f.crate, x.callee) is m.fn]
        if len(cc) == 1:
            calls[val] = cc[0].args
    fi = ti = None
    if False in calls and True in calls:
        differ = [i for i in idx if i < len(calls[False]) and calls[False][i] != calls[True][i]]
        same = [i for i in idx if i < len(calls[False]) and calls[False][i] == calls[True][i]]
        if len(differ) == 1:
            fi = differ[0]
            m.flag_terms[(fi, False)], m.flag_terms[(fi, True)] = calls[False][fi], calls[True][fi]
        if len(same) == 1:
            ti = same[0]
            vals = two_valued(prog, tys[ti])
            top = calls[False][ti]
            m.flag_terms[(ti, True)] = top
            m.flag_terms[(ti, False)] = vals[0] if vals[1] == top else vals[1]
    if fi is None:
        bl = [i for i in idx if tys[i].strip() == "bool"]
        fi, ti = (bl[-1] if bl else None), (bl[0] if len(bl) > 1 else None)
    m._flags = (fi, ti)
    return m._flags


# ------------------------------------------------------------------------------------------------ spelling (C06-R4)

def reads_back(m, text, kind, variant, follows=BREAK_CHARS):
    """Is the printed operator `text` tokenised back to (kind, variant), whatever follows?  -> (ok, explanation)"""
    fi, _ = flag_index(m)
    seen = False
    for f in follows:
        w = list(text) + [f]
        out = m.decide(w, {fi: True} if fi is not None else None)
        dt, pt_, de, pe = kinds(out)
        wrong = [x for x in dt if x != (kind, variant)]
        if wrong or de:
            return False, f"`{text}` followed by {f!r} is tokenised as {wrong or 'an error'}"
        if (kind, variant) in dt or (kind, variant) in pt_:
            seen = True
        elif kind != "Hybrid":
            return False, f"`{text}` followed by {f!r} yields {dt + pt_ or 'no token'}"
    return seen, "" if seen else f"no input starting with `{text}` yields {kind}({variant})"


# ------------------------------------------------------------------------------------------------ look-ahead (C05-R4)

def check_lookahead(prog, rep, rule):
    m = model(prog)
    if not m.ok:
        rep.unresolved(rule, "tokenizer/model", "", "the tokenizer's main loop could not be modelled")
        return
    fi, _ = flag_index(m)
    fl = {fi: True} if fi is not None else None
    where = f"{m.fn.file}:{m.fn.line}"
    temporal = {"X": ("Unary", "{q}X"), "F": ("Unary", "{q}F"), "G": ("Unary", "{q}G"), "U": ("Binary", "{q}U"), "W": ("Binary", "{q}W")}
    # the name of a proposition token is made of exactly the characters that were read: those consumed before the rest of the name
    # is collected (the prefix), followed by the collected rest - nothing dropped, nothing added
    import render
    problems = []
    n_names = 0
    for w in (["q"], ["3", "a"], ["V", "_"], ["E", "X", "a"], ["E", "U", "_"], ["A", "X", "a"], ["A", "G", "7"], ["A", "W", "b"], ["E", "F", "Z"],
              ["0", "a"], ["1", "_"], ["1", "0"], ["7", "x"], ["_", "1"]):
        outs = m.decide(w, fl)
        if not any(k == "token" and T.token_kind(t) == ("Atom", "Prop") for k, t, r in outs):
            # (names may start with any name character, digits included: `10`, `0_gene`, `1a`)
            problems.append(f"input `{''.join(w)}..` is not read as one proposition name")
        for k, t, r in outs:
            if k != "token" or T.token_kind(t) != ("Atom", "Prop"):
                continue
            name = t[2][0][2][0] if t[0] == "ctor" and t[2] and t[2][0][0] == "ctor" and t[2][0][2] else None
            if name is None:
                continue
            n_names += 1
            pieces = render.string_pieces(name)
            lit = "".join(p_ for p_ in pieces if isinstance(p_, str))
            rest = [p_ for p_ in pieces if not isinstance(p_, str)]
            want = "".join(w[:-1]) if len(w) > 1 else w[0]
            if lit != want or len(rest) != 1 or (pieces and not isinstance(pieces[0], str)):
                problems.append(f"input `{''.join(w)}..` gives a proposition named `{lit}`+<rest> (expected `{want}`+<rest>)")
    rep.check(not problems and n_names >= 6, rule, "names/content", where, "a proposition's name is the consumed prefix followed by the collected rest",
              "; ".join(problems[:3]) if problems else f"only {n_names} proposition tokens could be examined")
    for qch in ("E", "A"):
        problems = []
        for t, (kind, var) in temporal.items():
            want = (kind, var.format(q=qch))
            for f in BREAK_CHARS:
                dt, pt_, de, pe = kinds(m.decide([qch, t, f], fl))
                if dt != [want] or de:
                    problems.append(f"`{qch}{t}` followed by {f!r} gives {dt or ('error' if de else pt_)}, expected the operator {want[1]}")
            for f in NAME_CHARS:
                dt, pt_, de, pe = kinds(m.decide([qch, t, f], fl))
                if dt != [("Atom", "Prop")] or de:
                    problems.append(f"`{qch}{t}{f}..` gives {dt or ('error' if de else pt_)}: an identifier starting with `{qch}{t}` must be one proposition")
        for f in NAME_CHARS + (None, " ", "(", "&"):
            if f in temporal:
                continue
            dt, pt_, de, pe = kinds(m.decide([qch, f, None], fl))
            if dt != [("Atom", "Prop")] or de:
                problems.append(f"`{qch}` followed by {f!r} gives {dt or ('error' if de else pt_)}: the one-letter identifier `{qch}` (or a name starting with it) must be a proposition")
        rep.check(not problems, rule, f"arm:{qch}/classes", where, f"`{qch}` starts an operator exactly when a temporal letter follows and the name does not continue",
                  "; ".join(problems[:3]))
    for dch, var in (("3", "Exists"), ("V", "Forall")):
        problems = []
        for f in NAME_CHARS:
            dt, pt_, de, pe = kinds(m.decide([dch, f, None], fl))
            if ("Hybrid", var) in dt or ("Atom", "Prop") not in dt + pt_:
                problems.append(f"`{dch}{f}..` gives {dt or pt_}: an identifier starting with `{dch}` must be a proposition")
        for f in (None, "(", "&", "~", ")", "|"):
            dt, pt_, de, pe = kinds(m.decide([dch, f, None], fl))
            if ("Hybrid", var) in dt or ("Atom", "Prop") not in dt + pt_:
                problems.append(f"`{dch}` followed by {f!r} gives {dt or pt_}: the one-character identifier `{dch}` (e.g. `{dch} & a`) must be a proposition")
        dt, pt_, de, pe = kinds(m.decide([dch, "{", None], fl))
        if ("Hybrid", var) not in dt + pt_:
            problems.append(f"`{dch}{{` does not start the quantifier")
        # the quantifier reading: possible, and decided by a look-ahead that does not consume input, skips whitespace and looks for `{`
        out = m.decide([dch], fl)
        hy = [(t, res) for k, t, res in out if k == "token" and T.token_kind(t) == ("Hybrid", var)]
        pr = [(t, res) for k, t, res in out if k == "token" and T.token_kind(t) == ("Atom", "Prop")]
        if not hy:
            problems.append(f"`{dch}` never starts the quantifier")
        elif not pr:
            problems.append(f"`{dch}` always starts the quantifier: the identifier `{dch}` (e.g. `{dch} & a`) is rejected")
        else:
            guard = [c for c, pol in hy[0][1] if pol] + [c for c, pol in pr[0][1] if not pol]
            txt = " ".join(pt(c) for c in guard)
            looks_brace = any(y == ("lit", "{") for c in guard for y in subterms(c)) or "'{'" in txt
            skips_ws = "is_whitespace" in txt or "skip_whitespaces" in txt
            if not skips_ws:
                # whitespace skipped by a helper while the guard is computed (its loop has no closed form in the guard term):
                # a call that is reached for this character *before* the guard is decided, i.e. whose own condition does not contain the guard
                fl2 = {m.pn[fi]: ("lit", True)} if fi is not None else {}
                for st in m.summ.all_sites():
                    if (st.kind == "call" and st.is_call_to("skip_whitespaces")) or (st.kind in ("call", "mcall") and (st.name == "is_whitespace" or str(st.callee).endswith("is_whitespace"))):
                        ok_, res_ = m._eval_pc(st.pc, [dch], fl2)
                        # a test of the operator character itself (the whitespace arm of the main loop) is not a look-ahead
                        on_first = bool(st.args) and not st.is_call_to("skip_whitespaces") and m._eval(st.args[0], [dch], fl2)[0] == "lit"
                        if ok_ and not on_first and not any(c in guard for c, _ in res_):
                            skips_ws = True
            if not looks_brace:
                problems.append(f"the quantifier reading of `{dch}` is not decided by looking for `{{`")
            elif not skips_ws:
                problems.append(f"the look-ahead of `{dch}` does not skip whitespace before testing for `{{` (`{dch} {{x}}:` would not be a quantifier)")
            # the look-ahead works on a copy: the real iterator is still right behind the operator character
            consumed = [c for c in guard for y in [c] + list(subterms(c)) if y[0] == "call" and isinstance(y[1], str) and last(y[1]) in ("next", "next_if")
                        and len(y[2]) >= 1 and m.pos(y[2][0]) is not None]
            if consumed:
                problems.append(f"the look-ahead of `{dch}` consumes characters of the real input")
        rep.check(not problems, rule, f"arm:{dch}/classes", where, f"`{dch}`: quantifier iff the next non-whitespace character is `{{`; otherwise part of a name", "; ".join(problems[:3]))
    # one name-character predicate: every name character continues a proposition, nothing else does
    problems = []
    for ch in ("a", "Z", "5", "_", "é"):
        dt, pt_, de, pe = kinds(m.decide([ch, None], fl))
        if dt != [("Atom", "Prop")]:
            problems.append(f"`{ch}` does not start a proposition")
        dt, pt_, de, pe = kinds(m.decide(["a", ch, None], fl))
        if dt != [("Atom", "Prop")]:
            problems.append(f"`a{ch}` is not one proposition")
    for ch in ("$", "#", "-", ";"):
        dt, pt_, de, pe = kinds(m.decide([ch, None], fl))
        if dt or not de:
            problems.append(f"`{ch}` is accepted as {dt}")
    rep.check(not problems, rule, "is_valid_in_name/definition", where, "name character = alphanumeric or '_'", "; ".join(problems[:3]))


# ------------------------------------------------------------------------------------------------ plain mode (C05-R3)

def domain_leaves(tok):
    """Leaves of the domain component of a Hybrid token term."""
    while tok[0] == "call" and len(tok[2]) == 1:
        tok = tok[2][0]
    if tok[0] != "ctor" or last(tok[1]) != "Hybrid" or len(tok[2]) != 3:
        return None
    out = []
    for conds, leaf in T.leaves(tok[2][2]):
        out.append(leaf)
    return out


def can_have_domain(m, w, flag_value, subst=None):
    """(some Hybrid token possible, one of them may carry Some(domain))"""
    fi, _ = flag_index(m)
    out = m.decide(w, {fi: flag_value} if fi is not None else None)
    any_h, some = False, False
    nz = norm.Normalizer()
    for k, t, res in out:
        if k != "token" or (T.token_kind(t) or ("",))[0] != "Hybrid":
            continue
        if subst:
            t = nz(partial.simplify(terms.replace(t, subst[0], subst[1])))
        any_h = True
        dl = domain_leaves(t)
        if dl is None:
            some = True
            continue
        for leaf in dl:
            leaf = nz(partial.simplify(leaf))
            if not (leaf[0] == "ctor" and last(leaf[1]) == "None"):
                # a projection of the helper's result that was not resolved: look inside for a Some(..) constructor
                if leaf[0] == "ctor" and last(leaf[1]) == "Some":
                    some = True
                elif any(y[0] == "ctor" and last(y[1]) == "Some" and y[2] and "String" not in str(y[1]) for y in [leaf] + list(subterms(leaf))):
                    some = True
                elif leaf[0] not in ("ctor",):
                    some = True
    return any_h, some


def check_plain_mode(prog, rep, rule):
    m = model(prog)
    if not m.ok:
        rep.unresolved(rule, "tokenizer/model", "", "the tokenizer's main loop could not be modelled")
        return
    fi, ti = flag_index(m)
    where = f"{m.fn.file}:{m.fn.line}"
    if fi is None:
        rep.unresolved(rule, "tokenizer/mode-flag", where, "no mode flag parameter found")
        return
    # wild-card propositions
    dt, pt_, de, pe = kinds(m.decide(["%"], {fi: False}))
    rep.check(("Atom", "WildCardProp") not in dt + pt_ and (de or pe), rule, "tokenizer/WildCardProp@plain", where, "plain mode: `%` is rejected",
              "a wild-card proposition token can be produced although parse_wild_cards is false (the plain parser must reject `%p%`)")
    dt, pt_, de, pe = kinds(m.decide(["%"], {fi: True}))
    rep.check(("Atom", "WildCardProp") in dt + pt_, rule, "tokenizer/WildCardProp@extended", where, "extended mode: `%name%` is a wild-card proposition",
              "the extended tokenizer does not produce wild-card propositions")
    # domains
    for ch, name in (("!", "bind"), ("3", "exists"), ("V", "forall"), ("@", "jump")):
        h0, s0 = can_have_domain(m, [ch], False)
        h1, s1 = can_have_domain(m, [ch], True)
        if ch == "@":
            rep.check(h0 and h1 and not s0 and not s1, rule, f"tokenizer/mode-arg:{ch}", where, "`@` never takes a domain",
                      "a jump token can carry a domain" if (s0 or s1) else "`@` does not produce a jump token")
        else:
            rep.check(h0 and h1 and not s0 and s1, rule, f"tokenizer/mode-arg:{ch}", where, f"`{ch}` takes a domain exactly in extended mode",
                      f"operator `{ch}`: a domain can be attached in plain mode={s0}, in extended mode={s1} (expected False / True); token produced: plain={h0}, extended={h1}")
    nt, names = long_name_term(m)
    if nt is not None:
        for name in sorted(names):
            doms = {}
            for fv in (False, True):
                some = False
                nz = norm.Normalizer()
                for k, t, r in decide_long(m, nt, name, fv):
                    if k == "token" and (T.token_kind(t) or ("",))[0] == "Hybrid":
                        dl = domain_leaves(t)
                        if dl is None or any(not (nz(partial.simplify(x))[0] == "ctor" and last(nz(partial.simplify(x))[1]) == "None") for x in dl):
                            some = True
                doms[fv] = some
            want = (False, False) if name == "jump" else (False, True)
            rep.check((doms[False], doms[True]) == want, rule, f"tokenizer/mode-arg:\\{name}", where,
                      f"`\\{name}` takes a domain {'never' if name == 'jump' else 'exactly in extended mode'}",
                      f"operator `\\{name}`: a domain can be attached in plain mode={doms[False]}, in extended mode={doms[True]} (expected {want[0]} / {want[1]})")
    # recursion and entry points
    eng = terms.Engine(prog, inline=False)
    s = eng.summary(m.fn)
    flag, top = ("param", m.pn[fi]), (("param", m.pn[ti]) if ti is not None else None)
    recs = [x for x in m.summ.all_sites() if x.kind == "call" and isinstance(x.callee, str) and prog.resolve_local(m.fn.crate, x.callee) is m.fn]
    for x in recs:
        good = x.args[fi] == flag and (ti is None or x.args[ti] == m.flag_terms.get((ti, False), ("lit", False)))
        rep.check(good, rule, f"tokenizer/recursion@{x.ordinal}", x.where(), "nested group: same mode, not top level",
                  f"recursive call passes ({', '.join(pt(a)[:30] for a in x.args[1:])})")
    if not recs:
        rep.unresolved(rule, "tokenizer/recursion", where, "no recursive call for parenthesised groups found")
    for name, val in (("try_tokenize_formula", False), ("try_tokenize_extended_formula", True)):
        f = prog.lib_fn(T.TOK + name)
        if f is None:
            rep.unresolved(rule, name, "", "entry not found")
            continue
        fs = terms.Engine(prog, inline=True, hooks=__import__("evalnode").Hooks([T.TOK], opaque_names=[m.fn.path])).summary(f)
        cc = [x for x in fs.all_sites() if x.kind == "call" and isinstance(x.callee, str) and prog.resolve_local(f.crate, x.callee) is m.fn]
        good = len(cc) == 1 and cc[0].args[fi] == m.flag_terms.get((fi, val), ("lit", val)) and (ti is None or cc[0].args[ti] == m.flag_terms.get((ti, True), ("lit", True)))
        rep.check(good, rule, name, f"{f.file}:{f.line}", f"{name} tokenizes with top_level = true, parse_wild_cards = {str(val).lower()}",
                  f"{name} calls the tokenizer with {[pt(a)[:30] for a in cc[0].args[1:]] if cc else None}")


# ------------------------------------------------------------------------------------------------ whitespace (C05-R5)

def check_whitespace(prog, rep, rule):
    m = model(prog)
    if not m.ok:
        rep.unresolved(rule, "tokenizer/model", "", "the tokenizer's main loop could not be modelled")
        return
    fi, _ = flag_index(m)
    fl = {fi: True} if fi is not None else None
    where = f"{m.fn.file}:{m.fn.line}"
    problems = []
    for ws in (" ", "\t", "\n", "\r"):
        out = m.decide([ws, None], fl)
        if out:
            problems.append(f"{ws!r} produces {[(k, T.token_kind(t)) for k, t, r in out][:2]}")
    rep.check(not problems, rule, "tokenizer/whitespace-first", where, "a whitespace character produces no token and no error", "; ".join(problems))
    # hybrid operators: whitespace is skipped before each segment of `op {var} [in %dom%] :`
    skippers = whitespace_skippers(prog)
    for ch in ("!", "@"):
        n = 0
        for st in m.summ.all_sites():
            if st.kind == "call" and isinstance(st.callee, str) and prog.resolve_local(m.fn.crate, st.callee) in skippers:
                ok, res = m._eval_pc(st.pc, [ch], {m.pn[fi]: ("lit", True)} if fi is not None else {})
                if ok:
                    n += 1
        need = 4 if ch == "!" else 2
        rep.check(n >= need, rule, f"collect_var/skip-count:{ch}", where, f"{n} whitespace skips on the path of `{ch}` (before each segment)",
                  f"only {n} skip_whitespaces calls on the path of `{ch}`: whitespace before one of the segments `{{`, `in`/`:`, `%`, `:` is not accepted")
    sk = skippers[0] if skippers else None
    if sk is not None:
        ss = terms.Engine(prog, inline=False).summary(sk)
        adv = [x for x in ss.sites if x.kind == "mcall" and x.name in ("next", "next_if", "nth", "advance_by")]
        good = bool(adv)
        for x in adv:
            if x.name == "next":
                good = good and any(pol and "is_whitespace" in pt(t) for t, pol in q.conds(x.pc))
            elif x.name == "next_if":
                good = good and isinstance(x.term, tuple) and "is_whitespace" in pt(x.term) and not any(y[0] == "not" for y in subterms(x.term[3] if len(x.term) > 3 else x.term))
            else:
                good = False
        rep.check(good, rule, "skip_whitespaces/only-whitespace", f"{sk.file}:{sk.line}", "only whitespace characters are consumed",
                  "skip_whitespaces can consume a non-whitespace character (or does not consume every whitespace character)")
        # every whitespace character is skipped (not only ' ')
        lits = [y for x in ss.sites for a in (x.args or []) if isinstance(a, tuple) for y in [a] + list(subterms(a)) if y[0] == "lit" and y[1] == " "]
        lits += [t for x in ss.sites for t, pol in q.conds(x.pc) for y in [t] + list(subterms(t)) if y[0] == "lit" and y[1] == " "]
        rep.check(not lits, rule, "skip_whitespaces/all-whitespace", f"{sk.file}:{sk.line}", "whitespace is recognised by is_whitespace, not by a literal blank",
                  "skip_whitespaces compares with the literal ' ': tabs and newlines inside a hybrid segment are not skipped")


def whitespace_skippers(prog):
    """The private helper(s) of the tokenizer module (sub-modules included) that skip whitespace: one parameter (the character
    iterator), no result, the iterator is advanced and `is_whitespace` is consulted - found by that, not by name."""
    out = []
    raw = terms.Engine(prog, inline=False)
    for f in prog.lib_fns():
        if not f.path.startswith(T.TOK) or len(f.params) != 1 or str(f.ret) not in ("()", "None", ""):
            continue
        ss = raw.summary(f)
        adv = [x for x in ss.sites if x.kind == "mcall" and x.name in ("next", "next_if", "nth", "advance_by")]
        ws = any("is_whitespace" in str(x.callee) or (isinstance(x.term, tuple) and "is_whitespace" in pt(x.term)) or
                 any("is_whitespace" in pt(c[1]) for c in x.pc if c[0] in ("if", "match")) for x in ss.sites)
        if adv and ws:
            out.append(f)
    return out


# ------------------------------------------------------------------------------------------------ long / short spellings (C08-R1)

def long_name_term(m):
    """The term that is compared with the long operator names after `\\`."""
    fi, _ = flag_index(m)
    out = m.decide(["\\"], {fi: True} if fi is not None else None)
    cands = {}
    names = set()
    for k, t, res in out:
        for c, pol in res:
            for y in [c] + list(subterms(c)):
                if y[0] == "bin" and y[1] in ("==", "!="):
                    for a, b in ((y[2], y[3]), (y[3], y[2])):
                        if a[0] == "lit" and isinstance(a[1], str) and len(a[1]) > 1:
                            cands[b] = cands.get(b, 0) + 1
                            names.add(a[1])
                if y[0] == "matches" and y[2][0] in ("lit", "or"):
                    ds = y[2][1] if y[2][0] == "or" else (y[2],)
                    ls = [d[1] for d in ds if d[0] == "lit" and isinstance(d[1], str) and len(d[1]) > 1]
                    if ls:
                        cands[y[1]] = cands.get(y[1], 0) + 1
                        names.update(ls)
                if y[0] == "hof" and y[1] in ("find", "position", "any") and norm.strip_adapters(y[2])[0] in ("array", "vec"):
                    # a table of (long name, ..) entries searched for the name that was read
                    items = norm.strip_adapters(y[2])[1]
                    b = y[3]
                    if b[0] == "bin" and b[1] == "==":
                        for a_, o_ in ((b[2], b[3]), (b[3], b[2])):
                            comp = a_
                            while comp[0] == "call" and len(comp[2]) == 1:
                                comp = comp[2][0]
                            if comp[0] in ("tproj", "field") and comp[1][0] == "elem" and str(comp[2]).isdigit():
                                k_ = int(str(comp[2]))
                                ls = [it[1][k_][1] for it in items if it[0] == "tuple" and k_ < len(it[1]) and it[1][k_][0] == "lit" and isinstance(it[1][k_][1], str)
                                      and len(it[1][k_][1]) > 1]
                                if ls and len(ls) == len(items):
                                    cands[o_] = cands.get(o_, 0) + 1
                                    names.update(ls)
        for y in [t] + list(subterms(t)):
            if y[0] == "switch":
                ls = [d[1] for (d, g), v in y[2] if d[0] == "lit" and isinstance(d[1], str) and len(d[1]) > 1]
                if ls:
                    cands[y[1]] = cands.get(y[1], 0) + 1
                    names.update(ls)
    if not cands:
        return None, names
    return max(cands, key=lambda k_: cands[k_]), names


def decide_long(m, name_term, name, flag_value):
    """Outcomes after `\\<name>`: the name term replaced by the literal."""
    fi, _ = flag_index(m)
    out = m.decide(["\\"], {fi: flag_value} if fi is not None else None)
    nz = norm.Normalizer()
    res_out = []
    lit = ("lit", name)
    # the comparison may be on name.as_str(): replace the term and its stripped form
    variants = [name_term]
    x = name_term
    while x[0] == "call" and len(x[2]) == 1:
        x = x[2][0]
        variants.append(x)

    def rep_(t):
        for v in variants:
            t = terms.replace(t, v, lit)
        return t
    for k, t, res in out:
        feasible = True
        rest = []
        for c, pol in res:
            v = nz(partial.simplify(T.table_fold(rep_(c), nz)))
            for _ in range(2):
                v = nz(partial.simplify(T.table_fold(v, nz)))
            if v == ("lit", True) and not pol or v == ("lit", False) and pol:
                feasible = False
                break
            if v[0] != "lit":
                rest.append((v, pol))
        if not feasible:
            continue
        t2 = nz(partial.simplify(T.table_fold(rep_(t), nz)))
        for _ in range(2):
            t2 = nz(partial.simplify(T.table_fold(t2, nz)))
        for conds, leaf in T.leaves(t2):
            ok = True
            for c, pol in conds:
                v = nz(partial.simplify(c))
                if v == ("lit", True) and not pol or v == ("lit", False) and pol:
                    ok = False
            if ok:
                res_out.append((k, leaf, rest))
    return res_out


def check_long_short(prog, rep, rule, readme_longs):
    m = model(prog)
    if not m.ok:
        rep.unresolved(rule, "tokenizer/model", "", "the tokenizer's main loop could not be modelled")
        return
    where = f"{m.fn.file}:{m.fn.line}"
    nt, names = long_name_term(m)
    rep.check(readme_longs is not None and names == set(readme_longs), rule, "long-names", where, f"long names {sorted(names)} == README",
              f"tokenizer accepts {sorted(names)}, README documents {sorted(readme_longs or [])}")
    if nt is None:
        rep.unresolved(rule, "long-names/term", where, "the operator name read after `\\\\` could not be identified")
        return
    fi, _ = flag_index(m)
    for ch, name, var in (("!", "bind", "Bind"), ("3", "exists", "Exists"), ("V", "forall", "Forall"), ("@", "jump", "Jump")):
        problems = []
        for fv in (False, True):
            short = m.decide([ch], {fi: fv} if fi is not None else None)
            sk = [T.token_kind(t) for k, t, r in short if k == "token" and (T.token_kind(t) or ("",))[0] == "Hybrid"]
            lg = decide_long(m, nt, name, fv)
            lk = [T.token_kind(t) for k, t, r in lg if k == "token" and (T.token_kind(t) or ("",))[0] == "Hybrid"]
            if set(sk) != {("Hybrid", var)}:
                problems.append(f"`{ch}` builds {sorted(set(sk))}, expected {var}")
            if set(lk) != {("Hybrid", var)}:
                problems.append(f"`\\\\{name}` builds {sorted(set(lk))}, expected {var}")
            _, s_short = can_have_domain(m, [ch], fv)
            s_long = False
            nz = norm.Normalizer()
            for k, t, r in lg:
                if k == "token" and T.token_kind(t) == ("Hybrid", var):
                    dl = domain_leaves(t)
                    if dl is None or any(not (nz(partial.simplify(x))[0] == "ctor" and last(nz(partial.simplify(x))[1]) == "None") for x in dl):
                        s_long = True
            if s_short != s_long:
                problems.append(f"with parse_wild_cards = {fv}: `{ch}` may carry a domain={s_short}, `\\\\{name}` may carry a domain={s_long}")
        rep.check(not problems, rule, f"hybrid:{ch}", where, f"`{ch}` and `\\\\{name}` are the same operator with the same domain permission", "; ".join(problems[:3]))
