"""C16 - result archives reload to the sets that were written.

Decided here (the I/O round trip itself is not decided; this is writer / reader table agreement):
  C16-R1  entry naming: build_result_archive writes each result under `<label>.bdd`; load_bdd_bundle accepts exactly
          the entries whose extension is `bdd` and recovers the label with strip_suffix(".bdd") (one suffix, once);
          the set is serialised with Bdd::write_as_string and parsed with Bdd::from_string (L8) and wrapped with the
          caller's symbolic context; the loaded map is keyed by the recovered label;
  C16-R2  fixed entries: both archive builders write `model.aeon` (the model text) and `formulae.txt` (one formula per
          line, in the order given) exactly once, after the results;
  C16-R3  label / line correspondence: analyse_formulae stores result i under `formula-<i>` with i the enumerate
          counter of the loop that evaluates tree i (no arithmetic), trees are pushed in the order of the input
          formulae, nothing reorders either list, and the formula list archived is the input list."""
import evalnode as E
import semantics as sem
import terms
from terms import subterms, pt, place_path

LEVEL = "other"
REORDER = ("sort", "sort_by", "sort_by_key", "sort_unstable", "sort_unstable_by", "sort_unstable_by_key", "reverse", "dedup", "swap", "retain",
           "rotate_left", "rotate_right", "swap_remove", "truncate", "drain", "dedup_by_key", "sort_by_cached_key")


def fmt_template(t):
    for x in [t] + list(subterms(t)):
        if x[0] == "fmt":
            return tuple(p if isinstance(p, str) else "{}" for p in x[1]), [p[1] for p in x[1] if isinstance(p, tuple)]
    return None, []


def run(prog, rep):
    rep.explanation = __doc__
    rep.assumptions = ["L8 Bdd::write_as_string / Bdd::from_string are inverse", "the zip crate stores and returns entry names verbatim"]
    rep.rule("C16-R1", "writer's entry name / serialiser == reader's filter / suffix / parser")
    rep.rule("C16-R2", "model.aeon and formulae.txt written once each, formulae in order")
    rep.rule("C16-R3", "result i is archived under formula-<i>; nothing is reordered")
    eng = terms.Engine(prog, inline=False)
    w = prog.lib_fn("generate_output::build_result_archive")
    r = prog.lib_fn("load_inputs::load_bdd_bundle")
    if w is None or r is None:
        rep.unresolved("C16-R1", "functions", "", "archive writer / reader not found")
        return
    rep.functions.add(w.qual)
    rep.functions.add(r.qual)
    ws, rs = eng.summary(w), eng.summary(r)
    wpn, rpn = w.param_names(), r.param_names()
    # writer: start_file(fmt"{name}.bdd") inside the loop over results, write_as_string of that set
    fors = [x for x in ws.sites if x.kind == "for"]
    res_for = [x for x in fors if any(y == ("param", wpn[0]) for y in [x.args[0]] + list(subterms(x.args[0])))]
    starts = [x for x in ws.sites if x.kind == "mcall" and x.name == "start_file"]
    suffix = None
    good = len(res_for) == 1
    why = "no loop over the results"
    if good:
        lid = res_for[0].node["id"]
        elem = ("elem", res_for[0].args[0])
        inner = [x for x in starts if lid in x.loops]
        sers = [x for x in ws.sites if x.kind == "mcall" and lid in x.loops and x.name in ("write_as_string", "write_as_bytes", "write_as_dot")]
        good = len(inner) == 1 and len(sers) == 1
        why = f"{len(inner)} start_file and {len(sers)} serialiser calls in the result loop"
        if good:
            tmpl, args = fmt_template(inner[0].args[1])
            good = tmpl is not None and len(tmpl) == 2 and tmpl[0] == "{}" and tmpl[1].startswith(".") and args == [("tproj", elem, 0)]
            why = f"entry name template is {tmpl} over {[sem.short(a, 40) for a in args]}"
            if good:
                suffix = tmpl[1]
                good = sers[0].name == "write_as_string" and any(y == ("tproj", elem, 1) for y in subterms(sers[0].args[0]))
                why = f"serialiser is {sers[0].name} on {sem.short(sers[0].args[0], 80)}"
    rep.check(good, "C16-R1", "writer/entry", f"{w.file}:{w.line}", f"writes `<label>{suffix}` with write_as_string of that label's set", why)
    # reader
    strips = [x for x in rs.sites if x.kind == "mcall" and x.name in ("strip_suffix", "trim_end_matches", "trim_end", "trim_matches", "replace", "rsplit", "split", "strip_prefix", "trim_start_matches")]
    fors_r = [x for x in rs.sites if x.kind == "for"]
    good = len(strips) == 1 and strips[0].name == "strip_suffix" and suffix is not None and strips[0].args[1] == ("lit", suffix) and len(fors_r) == 1
    why = f"label recovered with {[x.name + '(' + sem.short(x.args[1], 20) + ')' for x in strips]}; writer's suffix is {suffix!r}"
    if good:
        fname = ("elem", fors_r[0].args[0])
        good = strips[0].args[0] == fname or any(y == fname for y in subterms(strips[0].args[0]))
        why = "the suffix is not stripped from the entry name"
    rep.check(good, "C16-R1", "reader/label", strips[0].where() if strips else f"{r.file}:{r.line}", "label = entry name with the writer's suffix stripped once", why)
    ext_ok = False
    for x in rs.sites:
        if x.kind == "continue":
            for c in x.pc:
                if c[0] == "if" and c[2] and c[1][0] == "not" and c[1][1][0] == "matches":
                    d = c[1][1][2]
                    if d[0] == "var" and str(d[1]).endswith("Some") and d[2] and d[2][0] == ("lit", (suffix or ".").lstrip(".")) and "extension" in pt(c[1][1][1]):
                        ext_ok = True
    rep.check(ext_ok, "C16-R1", "reader/filter", f"{r.file}:{r.line}", "entries are skipped iff their extension is not the writer's",
              "the reader's extension filter does not correspond to the writer's suffix")
    parse = [x for x in rs.sites if x.kind == "call" and x.is_call_to("from_string", "from_bytes", "read_as_string", "read_as_bytes")]
    wraps = [x for x in rs.sites if x.kind == "call" and str(x.callee).endswith("::new") and "GraphColoredVertices" in str(x.callee)]
    ins = [x for x in rs.sites if x.kind == "mcall" and x.name == "insert"]
    good = len(parse) == 1 and parse[0].short() == "from_string" and len(wraps) == 1 and wraps[0].args[0] == parse[0].term and wraps[0].args[1] == ("param", rpn[1]) \
        and len(ins) == 1 and ins[0].args[2] == wraps[0].term and strips and any(y == strips[0].term for y in subterms(ins[0].args[1]))
    rep.check(good, "C16-R1", "reader/parse", f"{r.file}:{r.line}", "Bdd::from_string of the entry, wrapped with the caller's context, stored under the label",
              f"parser={[x.short() for x in parse]}, wrapped with caller's context={bool(wraps) and wraps[0].args[1] == ('param', rpn[1])}, keyed by the stripped label={bool(ins)}")
    rd = [x for x in rs.sites if x.kind == "call" and x.is_call_to("read_zipped_file")]
    rep.check(len(rd) == 1 and fors_r and rd[0].args[1] == ("elem", fors_r[0].args[0]) and parse and any(y == rd[0].term for y in subterms(parse[0].args[0])),
              "C16-R1", "reader/content", f"{r.file}:{r.line}", "the parsed text is the content of that entry", "the parsed text is not the content of the entry being loaded")
    rep.floor("C16-R1", 5)
    # R2
    for f in (w, prog.lib_fn("generate_output::build_initial_archive")):
        if f is None:
            rep.unresolved("C16-R2", "build_initial_archive", "", "function not found")
            continue
        rep.functions.add(f.qual)
        s = eng.summary(f)
        pn = f.param_names()
        st = [x for x in s.sites if x.kind == "mcall" and x.name == "start_file" and not x.loops]
        names = [x.args[1][1] if x.args[1][0] == "lit" else None for x in st]
        good = names == ["model.aeon", "formulae.txt"]
        why = f"fixed entries {names}"
        fl = [x for x in s.sites if x.kind == "for" and x.args[0] == ("param", pn[-1])]
        if good:
            good = len(fl) == 1
            why = "formulae are not written by one loop over the given list"
        if good:
            lid = fl[0].node["id"]
            wr = [x for x in s.sites if x.kind == "mcall" and x.name == "write_fmt" and lid in x.loops]
            tm, args = fmt_template(wr[0].args[1]) if wr else (None, [])
            good = len(wr) == 1 and tm == ("{}", "\n") and args == [("elem", fl[0].args[0])]
            why = f"line template {tm}"
        if good and f is w:
            res_loops = [x for x in s.sites if x.kind == "for" and x.args[0] != ("param", pn[-1])]
            good = all(x.line() < st[0].line() for x in res_loops)
            why = "fixed entries are not written after the results"
        model = [x for x in s.sites if x.kind == "mcall" and x.name == "write_fmt" and not x.loops]
        if good:
            tm, args = fmt_template(model[0].args[1]) if model else (None, [])
            good = len(model) == 1 and tm == ("{}",) and args == [("param", pn[-2])]
            why = "model.aeon does not receive exactly the model string"
        rep.check(good, "C16-R2", f"{f.name}/fixed-entries", f"{f.file}:{f.line}", "model.aeon then formulae.txt, one formula per line in order", why)
    rep.floor("C16-R2", 2)
    # R3
    an = prog.lib_fn("analysis::analyse_formulae")
    if an is None:
        rep.unresolved("C16-R3", "analyse_formulae", "", "function not found")
        return
    rep.functions.add(an.qual)
    s = eng.summary(an)
    pn = an.param_names()
    formulae = ("param", pn[1])
    for x in s.sites:
        if x.kind == "mcall" and x.name in REORDER:
            rep.violation("C16-R3", f"analyse_formulae/{x.name}@{x.ordinal}", x.where(), f"`{x.name}` reorders a list between parsing and archiving: entry i no longer corresponds to line i")
    evs = [x for x in s.sites if x.kind == "call" and x.is_call_to("eval_node")]
    ins = [x for x in s.sites if x.kind == "mcall" and x.name == "insert" and evs and any(y == evs[0].term for y in [x.args[-1]] + list(subterms(x.args[-1])))]
    good = len(evs) == 1 and len(ins) == 1
    why = f"{len(evs)} eval_node, {len(ins)} result inserts"
    if good:
        ev, st = evs[0], ins[0]
        loop = [x for x in s.sites if x.kind == "for" and x.node["id"] in ev.loops]
        good = len(loop) == 1 and st.loops == ev.loops
        why = "result is not stored in the iteration that computed it"
        if good:
            it = loop[0].args[0]
            elem = ("elem", it)
            is_enum = it[0] == "call" and it[1].endswith("::enumerate")
            src = it[2][0] if is_enum else None
            while src is not None and src[0] == "call" and src[1].rsplit("::", 1)[-1] in ("iter", "into_iter") and len(src[2]) == 1:
                src = src[2][0]
            tm, args = fmt_template(st.args[1])
            good = is_enum and tm == ("formula-", "{}") and args == [("tproj", elem, 0)] and any(y == ("tproj", elem, 1) for y in [ev.args[0]] + list(subterms(ev.args[0])))
            why = f"label template {tm} over {[sem.short(a, 40) for a in args]}; evaluated tree {sem.short(ev.args[0], 60)}"
            if good:
                # the iterated list is the list of trees pushed while iterating over the input formulae in order
                good = src is not None and src[0] == "mu"
                pushes = [x for x in s.sites if x.kind == "mcall" and x.name == "push" and x.argnodes and place_path(x.argnodes[0]) and src is not None and src[0] == "mu"
                          and place_path(x.argnodes[0]) == src[2]]
                ploop = [x for x in s.sites if x.kind == "for" and pushes and x.node["id"] in pushes[0].loops]
                good = good and len(pushes) == 1 and len(ploop) == 1
                if good:
                    pit = ploop[0].args[0]
                    base = pit
                    while base[0] == "call" and base[1].rsplit("::", 1)[-1] in ("iter", "into_iter", "enumerate") and len(base[2]) == 1:
                        base = base[2][0]
                    good = base == formulae and not any(c[0] == "if" and c[2] for c in pushes[0].pc)
                why = "the evaluated list is not the list of trees pushed once per input formula, in input order"
    rep.check(good, "C16-R3", "analyse_formulae/labels", evs[0].where() if evs else f"{an.file}:{an.line}",
              "results[formula-<i>] = eval(tree i), i = enumerate counter over the trees in input order", why)
    arch = [x for x in s.sites if x.kind == "call" and x.is_call_to("build_result_archive")]
    good = len(arch) == 1 and arch[0].args[3] == formulae and ins and arch[0].args[0][0] in ("mu", "loopvar", "mut") and terms.mentions_param(arch[0].args[2], pn[0])
    rep.check(good, "C16-R3", "analyse_formulae/archive-args", arch[0].where() if arch else f"{an.file}:{an.line}",
              "archive = (results map, model text of bn, the input formulae)", f"archive arguments {[sem.short(a, 50) for a in arch[0].args] if arch else None}")
    rep.floor("C16-R3", 2)
