"""C16 - result archives reload to the sets that were written.

Decided here (the I/O round trip itself is not decided; this is writer / reader agreement):
  C16-R1  entry naming: the *effect trace* of the zip writer (the chain of operations applied to it, in order, loops and iterator
          closures included) of build_result_archive starts with one loop over the results that opens `<label><suffix>` and
          writes that label's set with Bdd::write_as_string; load_bdd_bundle stores, under the entry name with exactly that
          suffix stripped once, Bdd::from_string (L8) of that entry's content wrapped with the caller's symbolic context; an
          entry is loaded iff its extension is the writer's (the filter condition is evaluated for the extensions `bdd`,
          `txt`, `BDD` and none);
  C16-R2  fixed entries: after the results both archive builders write `model.aeon` (the model text) and `formulae.txt`
          (one formula per line, in the order given) exactly once, then finish - read off the effect trace, so a builder that
          delegates to the other one is the same;
  C16-R3  label / line correspondence: analyse_formulae stores result i - the raw set returned by eval_node, not a transformed copy -
          under `formula-<i>` with i the enumerate counter of
          the loop over the list of trees built once per input formula in input order (no filter, no reordering), the value
          stored is eval_node of the element at that position, the archive receives exactly that map, the model text of the
          network and the input formulae."""
import effects
import evalnode as E
import norm
import partial
import render
import semantics as sem
import terms
from norm import last
from terms import subterms, pt

LEVEL = "other"
STRINGY = render.STRINGY_CALLS + ("as_os_str", "to_path_buf", "as_path")
ARCHIVE_OPS = ("start_file", "start_file_aligned", "start_file_from_path", "add_directory", "raw_copy_file", "finish")


def strip_str(t):
    while isinstance(t, tuple) and t and t[0] == "call" and isinstance(t[1], str) and last(t[1]) in STRINGY and len(t[2]) == 1:
        t = t[2][0]
    return t


def is_write(name):
    return name.startswith("write") or name in ARCHIVE_OPS


def archive_trace(prog, f, eng):
    """Operations applied to the zip writer of `f`, in order (from the receiver of `finish`)."""
    s = eng.summary(f)
    fin = [x for x in s.all_sites() if x.kind == "mcall" and x.name == "finish"]
    if len(fin) != 1:
        return None, s
    items = effects.trace(fin[0].args[0], s)
    out = []
    for it in items:
        if it[0] == "op" and is_write(it[1]):
            out.append(it)
        elif it[0] == "loop":
            inner = [x for x in it[3] if (x[0] == "op" and is_write(x[1])) or x[0] != "op"]
            if inner:
                out.append(("loop", it[1], it[2], inner))
        elif it[0] in ("cond", "opaque"):
            out.append(it)
    return out, s


class LoadedPair:
    """How one (label, set) pair of the loaded map is produced: key, value, the conditions under which it is, where."""

    def __init__(self, key, value, conds, where):
        self.args = (None, key, value)
        self.conds = conds
        self._where = where

    def where(self):
        return self._where


def collected_pair(ret, where):
    """`collect(filter(src, C), body)` / `collectmap(src, C, K, V)` as the function's value: the single pair the body yields."""
    import tokspec
    t = ret
    while t[0] == "call" and isinstance(t[1], str) and last(t[1]) in ("Ok", "into", "from") and len(t[2]) == 1:
        t = t[2][0]
    if t[0] == "ctor" and last(t[1]) == "Ok" and len(t[2]) == 1:
        t = t[2][0]
    if t[0] == "collectmap":
        return LoadedPair(t[3], t[4], [(t[2], True)], where)
    if t[0] != "collect":
        return None
    conds = []
    src = t[1]
    while src[0] == "hof" and src[1] in ("filter", "map"):
        if src[1] == "filter":
            conds.append((src[3], True))
        src = src[2]
    pairs = []
    for cs, leaf in tokspec.leaves(t[2]):
        if leaf[0] == "ctor" and last(leaf[1]) in ("Ok", "Some") and len(leaf[2]) == 1:
            leaf = leaf[2][0]
        elif leaf[0] == "ctor" and last(leaf[1]) in ("Err", "None"):
            continue
        if leaf[0] == "tuple" and len(leaf[1]) == 2:
            pairs.append((cs, leaf))
        else:
            return None
    if len(pairs) != 1:
        return None
    cs, leaf = pairs[0]
    return LoadedPair(leaf[1][0], leaf[1][1], conds + [(c, pol) for c, pol in cs], where)


def source_root(t):
    t = terms.strip_iter_adapters(t) if t is not None else None
    while isinstance(t, tuple) and t and t[0] == "call" and isinstance(t[1], str) and last(t[1]) in ("iter", "into_iter", "keys", "values", "clone", "enumerate") and len(t[2]) == 1:
        t = t[2][0]
    return t


def comp(t, i):
    """t is component i of a loop element: returns the elem term."""
    t = strip_str(t)
    if t[0] in ("tproj", "field") and str(t[2]) == str(i) and t[1][0] == "elem":
        return t[1]
    return None


def check_writer(rep, prog, f, eng, with_results):
    pn = f.param_names()
    where = f"{f.file}:{f.line}"
    tr, s = archive_trace(prog, f, eng)
    if tr is None:
        rep.unresolved("C16-R2", f"{f.name}/trace", where, "the archive writer's `finish` call was not found")
        return None
    suffix = None
    items = list(tr)
    # optional leading loop over the results
    res_param = ("param", pn[0]) if with_results else None
    if items and items[0][0] == "loop":
        lp = items.pop(0)
        src = source_root(lp[2])
        if src is not None and terms.is_fresh_collection(src):
            pass        # a loop over an empty collection writes nothing
        else:
            ops = lp[3]
            good = with_results and src == res_param and len(ops) == 2 and ops[0][0] == "op" and ops[0][1] == "start_file" and ops[1][0] == "op" and ops[1][1] == "write_as_string"
            why = f"the result loop performs {[o[1] if o[0] == 'op' else o[0] for o in ops]} over {sem.short(src, 40)}"
            if good:
                pieces = render.string_pieces(ops[0][2][0])
                e0 = comp(pieces[0][1], 0) if len(pieces) == 2 and isinstance(pieces[0], tuple) else None
                good = e0 is not None and isinstance(pieces[1], str) and pieces[1].startswith(".") and source_root(e0[1]) == res_param
                why = f"entry name is {render.shape(pieces)} over {[sem.short(p[1], 40) for p in pieces if isinstance(p, tuple)]}"
                if good:
                    suffix = pieces[1]
                    ser = ops[1][2][0] if ops[1][2] else None
                    v = ser[2][0] if ser is not None and ser[0] == "call" and last(ser[1]) == "as_bdd" and len(ser[2]) == 1 else None
                    good = v is not None and comp(v, 1) == e0
                    why = f"the set written under a label is {sem.short(ser, 80)}, not that label's set"
            rep.check(good, "C16-R1", "writer/entry", where, f"each result is written as `<label>{suffix}` with write_as_string of that label's set", why)
    elif with_results:
        rep.violation("C16-R1", "writer/entry", where, "the archive writer does not start with a loop writing one entry per result")
    # fixed entries
    names = []
    good = True
    why = ""
    i = 0
    expect = [("start_file", "model.aeon"), ("write", pn[-2]), ("start_file", "formulae.txt"), ("loop", pn[-1]), ("finish", None)]
    got = []
    for it in items:
        if it[0] == "op" and it[1] == "start_file":
            a = strip_str(it[2][0])
            got.append(("start_file", a[1] if a[0] == "lit" else sem.short(a, 30)))
        elif it[0] == "op" and it[1] in ("write_fmt", "write_all", "write_str", "write"):
            pieces = render.string_pieces(it[2][0])
            if len(pieces) == 1 and isinstance(pieces[0], tuple) and strip_str(pieces[0][1])[0] == "param":
                got.append(("write", strip_str(pieces[0][1])[1]))
            else:
                got.append(("write", render.shape(pieces)))
        elif it[0] == "loop":
            src = source_root(it[2])
            ops = it[3]
            ok_line = False
            if ops and all(o[0] == "op" and o[1] in ("write_fmt", "write_all", "write_str", "write") for o in ops):
                # one line per formula, however many writes it takes: the pieces of the consecutive writes, concatenated
                pieces = render.merge([p_ for o in ops for p_ in render.flatten_pieces(o[2][0], render.norm.Normalizer(), {})])
                ok_line = (len(pieces) == 2 and isinstance(pieces[0], tuple) and pieces[1] == "\n" and strip_str(pieces[0][1])[0] == "elem"
                           and source_root(strip_str(pieces[0][1])[1]) == src)
            got.append(("loop", src[1] if src is not None and src[0] == "param" and ok_line else f"?{sem.short(src, 30)}:{[o[1] if o[0] == 'op' else o[0] for o in ops]}"))
        elif it[0] == "op" and it[1] == "finish":
            got.append(("finish", None))
        else:
            got.append((it[0], it[1] if it[0] == "op" else None))
    if got and got[-1] != ("finish", None):
        got.append(("finish", None))        # the trace is the receiver of finish
    rep.check(got == expect, "C16-R2", f"{f.name}/fixed-entries", where, "then model.aeon (the model text), formulae.txt (one formula per line, in the order given)",
              f"after the results the archive receives {got}; expected {expect}")
    return suffix


def ext_value(cond, value):
    """Truth value of a condition when `Path::extension()` of the entry is `value` (None = no extension)."""
    ext = ("ctor", norm.SOME, (("lit", value),)) if value is not None else ("ctor", "std::prelude::v1::None", ())

    def model(t):
        if not isinstance(t, tuple) or not t:
            return t
        if t[0] == "call" and isinstance(t[1], str) and last(t[1]) == "extension":
            return ext
        r = tuple(model(x) if isinstance(x, tuple) else x for x in t)
        if r[0] == "call" and isinstance(r[1], str) and last(r[1]) in ("to_str", "to_string_lossy", "to_os_string", "as_os_str", "to_string", "as_ref", "new") and len(r[2]) == 1 \
                and r[2][0][0] == "lit":
            return ("ctor", norm.SOME, (r[2][0],)) if last(r[1]) == "to_str" else r[2][0]
        if r[0] == "bin" and r[1] in ("==", "!=") and concrete(r[2]) and concrete(r[3]):
            return ("lit", same(r[2], r[3]) == (r[1] == "=="))
        return r

    def concrete(t):
        return t[0] == "lit" or (t[0] == "ctor" and all(concrete(x) for x in t[2]))

    def same(a, b):
        if a[0] != b[0]:
            return False
        if a[0] == "lit":
            return a[1] == b[1]
        return last(a[1]) == last(b[1]) and len(a[2]) == len(b[2]) and all(same(x, y) for x, y in zip(a[2], b[2]))
    nz = norm.Normalizer()
    t = cond
    for _ in range(4):
        t2 = nz(partial.simplify(model(nz(partial.simplify(model(t))))))
        if t2 == t:
            break
        t = t2
    if t == ("lit", True):
        return True
    if t == ("lit", False):
        return False
    return None


def run(prog, rep):
    rep.explanation = __doc__
    rep.assumptions = ["L8 Bdd::write_as_string / Bdd::from_string are inverse", "the zip crate stores and returns entry names verbatim"]
    rep.rule("C16-R1", "writer's entry name / serialiser == reader's filter / suffix / parser")
    rep.rule("C16-R2", "model.aeon and formulae.txt written once each, formulae in order")
    rep.rule("C16-R3", "result i is archived under formula-<i>; nothing is reordered")
    w = prog.lib_fn("generate_output::build_result_archive")
    wi = prog.lib_fn("generate_output::build_initial_archive")
    r = prog.lib_fn("load_inputs::load_bdd_bundle")
    if w is None or r is None or wi is None:
        rep.unresolved("C16-R1", "functions", "", "archive writer / reader not found")
        return
    for f in (w, wi, r):
        rep.functions.add(f.qual)
    weng = terms.Engine(prog, inline=True, hooks=E.Hooks(["generate_output::"]))
    suffix = check_writer(rep, prog, w, weng, True)
    check_writer(rep, prog, wi, weng, False)
    rep.floor("C16-R2", 2)
    # ---- reader
    # the helper that reads one entry of the archive stays a symbol: the private function of the module that takes the archive and an
    # entry name and reads that entry to a string (found by what it calls, not by its name)
    raw = terms.Engine(prog, inline=False)
    readers = []
    for g in prog.lib_fns():
        if g.path.startswith("load_inputs::") and g is not r and len(g.params) == 2:
            gs = raw.summary(g)
            if any(x.kind == "mcall" and x.name == "by_name" for x in gs.sites) and any(x.kind == "mcall" and x.name == "read_to_string" for x in gs.sites):
                readers.append(g)
    reader_names = [g.path.rsplit("::", 1)[-1] for g in readers]
    reng = terms.Engine(prog, inline=True, hooks=E.Hooks(["load_inputs::"], opaque_names=[g.path for g in readers]))
    rs = reng.summary(r)
    rpn = r.param_names()
    where = f"{r.file}:{r.line}"
    ins = [x for x in rs.all_sites() if x.kind == "mcall" and x.name == "insert" and len(x.args) == 3]
    st = None
    if len(ins) == 1:
        st = LoadedPair(ins[0].args[1], ins[0].args[2], list(__import__("q").conds(ins[0].pc)), ins[0].where())
        # a loop over `names.filter(C)..collect()`: the entries that reach the body are the ones that passed C
        for lid in ins[0].loops or ():
            node = (rs.loops.get(lid) or {}).get("node")
            for fs in [x for x in rs.all_sites() if x.kind == "for" and node is not None and x.node is node]:
                src = fs.args[0] if fs.args else None
                while isinstance(src, tuple) and src and (src[0] == "collect" or (src[0] == "hof" and src[1] in ("filter", "map")) or
                                                          (src[0] == "call" and isinstance(src[1], str) and len(src[2]) == 1 and
                                                           last(src[1]) in ("iter", "into_iter", "clone", "to_vec", "into_keys"))):
                    if src[0] == "hof" and src[1] == "filter":
                        st.conds.extend(__import__("q").conds([("if", src[3], True)]))
                    src = src[1] if src[0] == "collect" else (src[2][0] if src[0] == "call" else src[2])
    elif not ins:
        st = collected_pair(rs.ret, where)          # the map is the value of an iterator pipeline: `..filter(C).map(|e| Ok((K, V))).collect()`
    if st is None:
        rep.unresolved("C16-R1", "reader/insert", where, f"{len(ins)} insertions into the loaded map")
        return
    # what is known on the way to the pair (the filter passed, the helper returned a label) is used inside its terms
    import norm as _norm
    _nz = _norm.Normalizer()
    _pcs = [("if", t_, p_) for t_, p_ in st.conds]
    st.args = (None, _nz(terms.assume(_nz(st.args[1]), _pcs)), _nz(terms.assume(_nz(st.args[2]), _pcs)))
    key = strip_str(st.args[1])
    name = None
    good = key[0] == "proj" and last(key[2]) == "Some" and key[1][0] == "call" and last(key[1][1]) == "strip_suffix" and len(key[1][2]) == 2
    why = f"the label is {sem.short(key, 120)}"
    if good:
        name = strip_str(key[1][2][0])
        sfx = key[1][2][1]
        good = name[0] == "elem" and sfx[0] == "lit" and suffix is not None and sfx[1] == suffix
        why = f"the reader strips {sem.short(sfx, 20)} from {sem.short(name, 60)}; the writer appends {suffix!r} to the label"
    rep.check(good, "C16-R1", "reader/label", st.where(), "label = entry name with the writer's suffix stripped once", why)
    # filter
    conds = [(t, pol) for t, pol in st.conds if any(y[0] == "call" and isinstance(y[1], str) and last(y[1]) == "extension" for y in [t] + list(subterms(t)))]
    want = (suffix or ".bdd").lstrip(".")
    verdicts = {}
    for v in (want, "txt", want.upper(), None):
        vals = [(ext_value(t, v), pol) for t, pol in conds]
        # a conjunction: one condition that definitely fails decides (the others may then be meaningless, e.g. the payload of a None)
        # (a condition that stays undecided once the extension is fixed is about something else - e.g. the suffix test - and does not
        # exclude the entry; an entry is rejected only by a condition that definitely fails)
        verdicts[v] = False if any(x is not None and x != pol for x, pol in vals) else True
    ext_ok = bool(conds) and verdicts[want] is True and verdicts["txt"] is False and verdicts[None] is False and verdicts[want.upper()] is False
    if conds and any(v is None for v in verdicts.values()):
        rep.unresolved("C16-R1", "reader/filter", where, f"the extension filter could not be evaluated: {[sem.short(t, 80) for t, _ in conds]}")
    else:
        rep.check(ext_ok, "C16-R1", "reader/filter", where, f"an entry is loaded iff its extension is `{want}`",
                  f"an entry is loaded under extension {[k for k, v in verdicts.items() if v]}; the writer's entries have extension `{want}`")
    val = st.args[2]
    good = val[0] == "call" and last(val[1]) == "new" and "GraphColoredVertices" in val[1] and len(val[2]) == 2 and val[2][1] == ("param", rpn[1])
    why = f"the stored set is {sem.short(val, 100)}"
    if good:
        b = val[2][0]
        good = b[0] == "call" and last(b[1]) == "from_string" and "Bdd" in b[1]
        why = f"the BDD is parsed with {last(b[1]) if b[0] == 'call' else sem.short(b, 40)}; the writer uses write_as_string"
        if good:
            src = strip_str(b[2][0])
            if reader_names:
                good = (src[0] == "proj" and last(src[2]) == "Ok" and src[1][0] in ("call", "rec") and last(src[1][1]) in reader_names
                        and name is not None and strip_str(src[1][2][1]) == name)
            else:
                # read in place: the text comes from `by_name(<that entry name>)` + read_to_string
                by = [y for y in [src] + list(subterms(src)) if y[0] == "call" and isinstance(y[1], str) and last(y[1]) == "by_name" and len(y[2]) == 2]
                good = bool(by) and name is not None and all(strip_str(y[2][1]) == name for y in by) and "read_to_string" in pt(src)
            why = "the parsed text is not the content of the entry whose name gives the label"
    rep.check(good, "C16-R1", "reader/parse", st.where(), "Bdd::from_string of that entry's content, wrapped with the caller's context, stored under the label", why)
    rep.floor("C16-R1", 4)
    # ---- R3
    an = prog.lib_fn("analysis::analyse_formulae")
    if an is None:
        rep.unresolved("C16-R3", "analyse_formulae", "", "function not found")
        return
    rep.functions.add(an.qual)
    import pipelines as _pl
    s = _pl.analysis_engine(prog).summary(an)
    pn = an.param_names()
    formulae = ("param", pn[1])
    where = f"{an.file}:{an.line}"
    evs = [x for x in s.all_sites() if x.kind == "call" and x.is_call_to("eval_node")]
    ins = [x for x in s.all_sites() if x.kind == "mcall" and x.name == "insert" and len(x.args) == 3 and evs
           and any(y == evs[0].term for y in [x.args[2]] + list(subterms(x.args[2])))]
    good = len(evs) == 1 and len(ins) == 1
    why = f"{len(evs)} eval_node call(s), {len(ins)} result insertion(s)"
    if good:
        # the archived set is the raw result itself (it is reloaded against a graph with the same spare variable sets: a sanitised or
        # otherwise transformed copy does not fit that context)
        v_ = ins[0].args[2]
        while v_[0] == "call" and isinstance(v_[1], str) and last(v_[1]) in ("clone", "to_owned", "borrow", "deref") and len(v_[2]) == 1:
            v_ = v_[2][0]
        good = v_ == evs[0].term
        why = f"the archived value is {sem.short(ins[0].args[2], 120)}: not the set returned by eval_node itself"
    if good:
        ev, st = evs[0], ins[0]
        pieces = render.string_pieces(st.args[1])
        idx = strip_str(pieces[1][1]) if len(pieces) == 2 and pieces[0] == "formula-" and isinstance(pieces[1], tuple) else None
        e = comp(idx, 0) if idx is not None else None
        good = e is not None
        why = f"the label is {render.shape(pieces)} over {[sem.short(p[1], 40) for p in pieces if isinstance(p, tuple)]}: expected `formula-<enumerate counter>`"
        if good:
            src = terms.strip_iter_adapters(e[1])
            is_enum = src[0] == "call" and last(src[1]) == "enumerate"
            tree = strip_str(ev.args[0])
            good = is_enum
            why = f"the label index {sem.short(idx, 60)} is not the counter of an `enumerate()` loop"
            if good:
                # zip(trees, formulae): the first source gives the trees
                prim = src[2][0]
                for _ in range(6):
                    prim = terms.strip_iter_adapters(prim)
                    if prim[0] == "call" and last(prim[1]) == "zip" and len(prim[2]) == 2:
                        # either side of the zip may be the list of trees (the other one is the list of formulae)
                        sides = [source_root(x) for x in prim[2]]
                        pick = [x for x in sides if x is not None and x[0] == "collect"]
                        prim = pick[0] if pick else prim[2][0]
                    elif prim[0] == "call" and last(prim[1]) in ("iter", "into_iter", "clone") and len(prim[2]) == 1:
                        prim = prim[2][0]
                    else:
                        break
                good = prim[0] == "collect" and source_root(prim[1]) == formulae
                why = (f"the enumerated list is {sem.short(prim, 120)}: not the list of trees built once per input formula, in input order "
                       "(a reordered or filtered list makes entry i correspond to another line)")
                if good:
                    # the evaluated tree is the element of that list at the counter's position (elements are expressed over the input formula)
                    good = strip_str(prim[2]) == tree and st.loops == ev.loops
                    why = f"the evaluated tree {sem.short(tree, 80)} is not the element of the enumerated list at the counter's position"
    rep.check(good, "C16-R3", "analyse_formulae/labels", evs[0].where() if evs else where,
              "results[formula-<i>] = eval(tree i), i = enumerate counter over the trees built in input order", why)
    arch = [x for x in s.all_sites() if x.kind == "call" and x.is_call_to("build_result_archive")]
    good = len(arch) == 1 and strip_str(arch[0].args[3]) == formulae and terms.mentions_param(arch[0].args[2], pn[0])
    if good and ins:
        import norm
        nz = norm.Normalizer()
        m0 = nz(arch[0].args[0])
        while m0[0] == "call" and isinstance(m0[1], str) and last(m0[1]) in ("clone", "to_owned") and len(m0[2]) == 1:
            m0 = m0[2][0]
        if m0[0] == "collectmap":
            # the closed form of the insertion loop (the map was filled in a helper, or by an iterator pipeline): one unconditional
            # entry per evaluated formula, key and value those of the insertion examined above
            good = m0[2] == ("lit", True) and nz(ins[0].args[1]) == m0[3] and nz(ins[0].args[2]) == m0[4]
        else:
            tr = effects.trace(arch[0].args[0], s)
            loops = [x for x in tr if x[0] == "loop"]
            others = [x for x in tr if x[0] == "op" and x[1] not in ("insert",)]
            good = len(loops) == 1 and not others and terms.is_fresh_collection(tr[0][1]) and [o[1] for o in loops[0][3] if o[0] == "op"] == ["insert"]
    rep.check(good, "C16-R3", "analyse_formulae/archive-args", arch[0].where() if arch else where,
              "archive = (the map filled by exactly those insertions, the model text of the network, the input formulae)",
              f"archive arguments {[sem.short(a, 50) for a in arch[0].args] if arch else None}")
    rep.floor("C16-R3", 2)
