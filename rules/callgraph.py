"""Call graph over local functions from the resolved call sites (HIR), with closures attributed to their parent."""
import terms


def build(prog, engine=None):
    eng = engine or terms.Engine(prog, inline=False)
    edges = {}
    for q, f in prog.fns.items():
        if f.derived:
            continue
        s = eng.summary(f)
        outs = set()
        for st in s.sites:
            cands = []
            if st.kind in ("call", "mcall") and isinstance(st.callee, str):
                cands.append(st.callee)
            if st.kind in ("call", "mcall") and st.inst:
                cands.append(st.inst)
            # function items passed as values (e.g. `.position(is_hybrid)`, `.map(FnUpdate::mk_var)`)
            for a in st.args or []:
                if isinstance(a, tuple) and a and a[0] == "def" and isinstance(a[1], str):
                    cands.append(a[1])
            for c in cands:
                t = prog.resolve_local(f.crate, c)
                if t is not None:
                    outs.add(t.qual)
            # Display impls reached through format!/to_string: resolved by `inst` when available
        edges[q] = outs
    return edges


def display_targets(prog):
    return [f.qual for f in prog.fns.values() if f.path.endswith("std::fmt::Display>::fmt")]


def reachable(prog, edges, roots, with_display=True):
    seen = set()
    stack = [r for r in roots]
    disp = display_targets(prog) if with_display else []
    while stack:
        q = stack.pop()
        if q in seen:
            continue
        seen.add(q)
        for n in edges.get(q, ()):
            if n not in seen:
                stack.append(n)
    if with_display:
        # formatting of local types (to_string / format!) reaches their Display impls
        for d in disp:
            if d not in seen:
                seen.add(d)
                for n in edges.get(d, ()):
                    stack.append(n)
        while stack:
            q = stack.pop()
            if q in seen:
                continue
            seen.add(q)
            stack.extend(edges.get(q, ()))
    return seen
