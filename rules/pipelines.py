"""Driver pipelines (model_checking.rs, analysis.rs): whole-pipeline views obtained by inlining the helpers of the
driver module into each public entry point (value numbering, deep call sites). Used by C01, C04, C10, C11, C14, C15, C17."""
import evalnode as E
import terms
from semantics import short
from terms import subterms, pt

MC = "model_checking::"
UNSAFE = MC + "model_check_formula_unsafe_ex"


def entry_points(prog):
    """Public functions of model_checking.rs that evaluate formulae (string- and tree-based)."""
    out = []
    for f in prog.lib_fns():
        if f.path.startswith(MC) and f.vis == "Public" and ("model_check" in f.name):
            out.append(f)
    return sorted(out, key=lambda f: f.line)


def driver_engine(prog, extra_opaque=()):
    return terms.Engine(prog, inline=True, hooks=E.Hooks([MC], opaque_names=list(extra_opaque)))


def analysis_hooks(prog):
    """The command-line analysis with its private phase functions inlined - also those that live (crate-internal, not `pub`) in the
    printing / archiving / loading modules next to the public functions they wrap."""
    names = [f.path for f in prog.lib_fns() if f.path.startswith(("result_print::", "generate_output::", "load_inputs::")) and f.vis != "Public"]
    return E.Hooks(["analysis::"], inline_names=names)


def analysis_engine(prog):
    return terms.Engine(prog, inline=True, hooks=analysis_hooks(prog))


def eval_sites(summ):
    return [s for s in summ.all_sites() if s.kind == "call" and s.is_call_to("eval_node")]


def is_steady_of(t, graph):
    return (t[0] == "call" and isinstance(t[1], str) and t[1].endswith("compute_steady_states") and len(t[2]) == 1 and t[2][0] == graph)


def check_steady_pipeline(prog, rep, rule):
    """Every driver hands eval_node the steady states of the very graph it evaluates on, computed unconditionally
    (the only exception is the documented self-loop-free entry point)."""
    eng = driver_engine(prog)
    n = 0
    fns = entry_points(prog)
    an = prog.lib_fn("analysis::analyse_formulae")
    for f in fns + ([an] if an else []):
        s = (eng if f.path.startswith(MC) else analysis_engine(prog)).summary(f)
        rep.functions.add(f.qual)
        evs = eval_sites(s)
        if not evs:
            rep.unresolved(rule, f"{f.name}/eval", f"{f.file}:{f.line}", "entry point does not reach eval_node")
            continue
        for i, ev in enumerate(evs):
            a = ev.args
            n += 1
            if f.path == UNSAFE:
                continue
            good = len(a) >= 4 and is_steady_of(a[3], a[1])
            rep.check(good, rule, f"{f.name}/steady@{i}", ev.where(),
                      "steady-state argument = compute_steady_states(<the graph evaluated on>), unconditionally",
                      f"eval_node receives {short(a[3], 160) if len(a) > 3 else None} as steady states; expected compute_steady_states of the graph it evaluates on")
    return n


def validators(prog):
    """(plain, extended): the functions of the driver module that turn formula strings into validated trees - found by what they
    call (parse_and_minimize_hctl_formula / parse_and_minimize_extended_formula, public functions of the parser), not by name.  With
    the module's helpers inlined (a shared skeleton that receives the parser as a function value is seen through), the validator is the
    innermost function whose pipeline contains the parser call: none of the module functions it calls contains it as well."""
    raw = terms.Engine(prog, inline=False)
    eng = terms.Engine(prog, inline=True, hooks=E.Hooks([MC]))
    out = {False: None, True: None}
    fns = [f for f in prog.lib_fns() if f.path.startswith(MC)]
    for ext, callee in ((False, "parse_and_minimize_hctl_formula"), (True, "parse_and_minimize_extended_formula")):
        cands = []
        for f in fns:
            s = eng.summary(f)
            if s is not None and any(x.kind == "call" and x.is_call_to(callee) for x in s.all_sites()):
                # (the validator of the extended mode is the one that also checks the wild-card context: a helper that only parses and
                # checks the variable support is a part of it)
                if ext and not any(x.kind == "call" and x.is_call_to("validate_and_divide_wild_cards") for x in s.all_sites()):
                    continue
                cands.append(f)
        inner = []
        for f in cands:
            callees = {prog.resolve_local(f.crate, x.callee) for x in raw.summary(f).sites if x.kind in ("call", "mcall") and isinstance(x.callee, str)}
            if not any(g in callees for g in cands if g is not f):
                inner.append(f)
        inner.sort(key=lambda f: len(f.path))
        out[ext] = inner[0] if inner else None
        if len(inner) > 1:
            # several pipelines share a private skeleton that receives the parser as a function value (`parse_and_check(formula, graph,
            # parse_fn)`): the skeleton, with the parser bound, is the validator
            shared = None
            for f in inner:
                hs = set()
                for x in raw.summary(f).sites:
                    if x.kind in ("call", "mcall") and isinstance(x.callee, str) and any(isinstance(a, tuple) and a[:1] == ("def",) and str(a[1]).endswith(callee) for a in (x.args or [])):
                        h = prog.resolve_local(f.crate, x.callee)
                        if h is not None and h.path.startswith(MC) and h.vis != "Public":
                            hs.add(h)
                shared = hs if shared is None else (shared & hs)
            if shared and len(shared) == 1:
                h = next(iter(shared))
                par = [n for n, t in zip(h.param_names(), h.param_tys) if "Fn(" in str(t) or "fn(" in str(t) or len(str(t)) <= 2]
                if len(par) == 1:
                    full = next(g.path for g in prog.lib_fns() if g.path.endswith("::" + callee))
                    BINDINGS[h.path] = {par[0]: ("def", full)}
                    out[ext] = h
    return out[False], out[True]


# validator skeleton -> the parser it is bound to (see validators)
BINDINGS = {}


def validator_summary(eng, f):
    """Summary of a validator; a shared skeleton is specialised for its parser."""
    b = BINDINGS.get(f.path)
    return eng.specialise(f, dict(b)) if b else eng.summary(f)


def support_check_paths(prog):
    """check_hctl_var_support and its crate-internal wrappers (same graph, same tree - e.g. a variant that borrows the tree and clones it)."""
    out = []
    raw = terms.Engine(prog, inline=False)
    for g in prog.lib_fns():
        if g.path.endswith("mc_utils::check_hctl_var_support"):
            out.append(g.path)
        elif g.path.startswith("mc_utils::") and g.vis != "Public" and len(g.param_names()) == 2:
            r = raw.summary(g).ret
            pn = g.param_names()

            def strip(t):
                while isinstance(t, tuple) and t and t[0] == "call" and isinstance(t[1], str) and t[1].rsplit("::", 1)[-1] in ("clone", "to_owned", "borrow", "deref") and len(t[2]) == 1:
                    t = t[2][0]
                return t
            r = strip(r)
            if isinstance(r, tuple) and r[:1] == ("call",) and str(r[1]).endswith("check_hctl_var_support") and len(r[2]) == 2 \
                    and r[2][0] == ("param", pn[0]) and strip(r[2][1]) == ("param", pn[1]):
                out.append(g.path)
    return tuple(out)
