"""C03 - results never leave the graph's valid universe.

Decided here:
  C03-R1  unit-boundedness on every return path: eval_node, partially evaluated for every node shape (atoms,
          all operators, quantifiers with and without domain, both shortcut patterns, wild-card / cache hits),
          returns a set that the boundedness analysis (rules/bounded.py) shows to be a subset of unit(graph) -
          assuming only that recursive results are bounded by the graph they were computed on (induction);
          the same for every evaluator in hctl_operators_eval.rs with respect to its own graph parameter and
          bounded arguments;
  C03-R2  complements are relative: no absolute BDD negation (`Bdd::not`, `iff`, `xor`) flows into a returned set
          except inside create_equalizer, whose result is intersected with the unit set;
  C03-R3  closed results do not depend on the auxiliary variables: every quantifier projects the copy of its own
          variable (the hybrid equations of C01-R1 restated for bind / exists / forall / jump, the projection
          primitives of lowlevel.py) and cache hits are admitted only when the key names every restriction in force;
  C03-R4  the unit set is the regulation constraints applied to `true`: get_extended_symbolic_graph builds the graph
          with with_custom_context(bn, context, mk_constant(true)) and restrict_stg_unit_bdd only ever intersects.
Not decided: cardinalities; the library's L3/L4 (unit sets are products that do not constrain state variables)."""
import bounded as bd
import cacheproto
import evalnode as E
import lowlevel
import semantics as sem
import setalg
import spec as S
import terms
from terms import subterms, pt

LEVEL = "other"


def all_shapes():
    out = []
    for key, shape, alts, kind, op in sem.plain_shapes() + sem.domain_shapes():
        out.append((key, shape))
    for key, shape, alts, is_pattern in sem.pattern_shapes():
        if is_pattern or key in ("near:attractor-domain", "near:fixed-point-domain"):
            out.append((key, shape))
    out.append(("atom:WildCardProp", E.shape_atom("WildCardProp", E.lit("p"))))
    return out


def run(prog, rep):
    rep.explanation = __doc__
    rep.assumptions = ["L1", "L2", "L3 with_custom_context yields unit = given unit & regulation constraints", "L4 unit sets do not constrain state variables",
                       "L5 FixedPoints / attractor results are subsets of the universe they are given"]
    rep.rule("C03-R1", "every return path of eval_node / of every evaluator is bounded by unit(graph)")
    rep.rule("C03-R2", "no absolute complement flows into a result")
    rep.rule("C03-R3", "quantifiers eliminate their own variable; cache hits are admitted only for keys naming all restrictions")
    rep.rule("C03-R4", "unit set construction: constraints applied to `true`, restriction only intersects")
    en = E.EvalNode(prog)
    if not en.ok():
        rep.unresolved("C03-R1", "eval_node", "", "eval_node not found")
        return
    rep.functions.add(en.fn.qual)
    g = E.G
    for key, shape in all_shapes():
        rs = [r for r in en.specialise(shape) if r["term"] != terms.NEVER]
        if not rs:
            rep.unresolved("C03-R1", f"eval_node/{key}", f"{en.fn.file}:{en.fn.line}", "no feasible return path")
        for i, r in enumerate(rs):
            ok = bd.bounded(r["term"], g)
            tag = "cache-hit" if sem.is_cache_path(r) else r["kind"]
            rep.check(ok, "C03-R1", f"eval_node/{key}/{tag}{i}", f"{en.fn.file}:{r['node'].get('sp', [0])[0]}",
                      "returned set is a subset of unit(graph)",
                      f"return path ({tag}) for node shape {key} yields {sem.short(r['term'], 220)}, which is not shown to be a subset of the current graph's unit set")
    rep.floor("C03-R1", 60)
    # evaluators on their own
    eng = terms.Engine(prog, inline=True, hooks=E.Hooks([E.OPS]))     # low-level primitives stay opaque (own rule: lowlevel.py)
    n_ev = 0
    dispatched = set()
    for fns in sem.operator_callees(en).values():
        dispatched |= {x.qual for x in fns}
    for f in prog.lib_fns():
        if not f.path.startswith(E.OPS) or "GraphColoredVertices" not in str(f.ret) or f.qual not in dispatched:
            continue          # evaluators eval_node dispatches to (generic helpers are covered through them)
        gparam, sets = sem.roles(f)
        if gparam is None:
            continue
        rep.functions.add(f.qual)
        s = eng.summary(f)
        # arguments that are results of evaluation are bounded by the same graph (hypothesis); the self-loop set is NOT
        # assumed bounded (it belongs to the top-level graph)
        hyp = {}
        for i, sp in enumerate(sets):
            if "loop" in sp[1] or "steady" in sp[1]:
                continue
            hyp[sp[1]] = ("call", E.ALG + "eval_node", (("param", "#n" + str(i)), gparam))
        t = terms.subst(s.ret, hyp)
        ok = bd.bounded(t, gparam)
        n_ev += 1
        rep.check(ok, "C03-R1", f"{f.name}", f"{f.file}:{f.line}", "evaluator result is a subset of unit(graph) for bounded arguments",
                  f"{f.name} returns {sem.short(s.ret, 200)}, not shown to be a subset of unit(graph)")
    # R2: absolute complements never reach a caller unbounded: every public function of the evaluation modules whose
    # value involves an absolute BDD operation (not / iff / xor / imp) returns a set bounded by its graph's unit set
    eng2 = terms.Engine(prog, inline=True, hooks=E.Hooks([E.OPS, E.LOW, E.ALG], opaque_names=[E.ALG + "eval_node", E.ALG + "compute_attractor_states",
                        E.ALG + "compute_steady_states"] + [E.LOW + a for a in lowlevel.ANCHORS] +
                        ([E.LOW + w for w in lowlevel.WRAPPERS] if prog.lib_fn(E.LOW + "create_equalizer") is None else [])))
    for f in prog.lib_fns():
        if not (f.path.startswith(E.OPS) or f.path.startswith(E.LOW) or f.path.startswith(E.ALG)):
            continue
        is_anchor = f.path in [E.LOW + a for a in lowlevel.ANCHORS]
        if (f.vis != "Public" and not is_anchor) or "GraphColoredVertices" not in str(f.ret):
            continue
        s2 = eng2.summary(f)
        if s2 is None:
            continue
        absolute = [x for x in subterms(s2.ret) if x[0] == "call" and isinstance(x[1], str) and "Bdd" in x[1]
                    and x[1].rsplit("::", 1)[-1] in ("not", "iff", "xor", "imp", "mk_not")]
        if not absolute:
            continue
        gparam, _ = sem.roles(f)
        ok = False
        if gparam is not None:
            alg = setalg.Alg()
            try:
                ok = alg.equivalent(alg.interp(s2.ret), ("and", alg.interp(s2.ret), alg.interp(S.UNIT(gparam))))
            except ValueError:
                ok = False
            ok = ok or bd.bounded(s2.ret, gparam)
        rep.check(ok, "C03-R2", f"{f.name}/absolute-op", f"{f.file}:{f.line}",
                  "value built with an absolute BDD operation is intersected with the unit set before it is returned",
                  f"{f.name} builds its result with the absolute BDD operation `{absolute[0][1].rsplit('::', 1)[-1]}` and does not intersect it with the unit set: "
                  "complements must be taken relative to the unit set")
    rep.floor("C03-R2", 1)
    # R3
    for key, shape, alts, kind, op in sem.plain_shapes() + sem.domain_shapes():
        if kind == "hybrid":
            sem.check_shape(rep, "C03-R3", en, shape, alts, key, detail=f"{kind} {op}")
    lowlevel.check_primitives(prog, rep, "C03-R3")
    cacheproto.check_store_guard(prog, rep, "C03-R3", en)
    cacheproto.check_read_guard(prog, rep, "C03-R3", en)
    rep.floor("C03-R3", 14)
    # R4
    f = prog.lib_fn("mc_utils::get_extended_symbolic_graph")
    if f is None:
        rep.unresolved("C03-R4", "get_extended_symbolic_graph", "", "not found")
    else:
        rep.functions.add(f.qual)
        s = terms.Engine(prog, inline=False).summary(f)
        wc = [x for x in s.sites if x.kind == "call" and x.is_call_to("with_custom_context")]
        good = len(wc) == 1
        why = "expected exactly one with_custom_context call"
        if good:
            unit = wc[0].args[2]
            good = unit[0] == "call" and unit[1].endswith("mk_constant") and unit[2][-1] == ("lit", True)
            why = f"unit argument is {sem.short(unit, 100)}, expected mk_constant(true)"
            bn = wc[0].args[0]
            if good and bn != ("param", f.param_names()[0]):
                good, why = False, "graph is not built for the given network"
        rep.check(good, "C03-R4", "get_extended_symbolic_graph", f"{f.file}:{f.line}", "with_custom_context(bn, context, true)", why)
    f = prog.lib_fn(E.LOW + "restrict_stg_unit_bdd")
    if f is None:
        rep.unresolved("C03-R4", "restrict_stg_unit_bdd", "", "not found")
    else:
        rep.functions.add(f.qual)
        s = terms.Engine(prog, inline=False).summary(f)
        pn = f.param_names()
        gg, rr = ("param", pn[0]), ("param", pn[1])
        wc = [x for x in s.sites if x.kind == "call" and x.is_call_to("with_custom_context")]
        good = len(wc) == 1
        why = "expected exactly one with_custom_context call"
        if good:
            alg = setalg.Alg()
            unit = wc[0].args[2]
            good = alg.equivalent(alg.interp(unit), alg.interp(S.AND(S.UNIT(gg), rr)))
            why = f"new unit set is {sem.short(unit, 120)}, expected unit(graph) & restriction"
            if good and not (terms.mentions_param(wc[0].args[0], pn[0]) and terms.mentions_param(wc[0].args[1], pn[0])):
                good, why = False, "network / symbolic context are not those of the given graph"
        rep.check(good, "C03-R4", "restrict_stg_unit_bdd", f"{f.file}:{f.line}", "new unit = unit(graph) & restriction, same network and context", why)
    rep.floor("C03-R4", 2)
