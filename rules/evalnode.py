"""Shared machinery for the rules that reason about `evaluation::algorithm::eval_node`:
the function is summarised once (operator evaluators inlined, low-level primitives opaque) and then
*partially evaluated* for every syntactic shape of the node (one per operator), giving for each shape
the set of feasible return paths with their values."""
import partial
import setalg
import terms
from terms import subst, pt

ALG = "evaluation::algorithm::"
OPS = "evaluation::hctl_operators_eval::"
LOW = "evaluation::low_level_operations::"

NT = "preprocessing::hctl_tree::NodeType::"
UOP = "preprocessing::operator_enums::UnaryOp::"
BOP = "preprocessing::operator_enums::BinaryOp::"
HOP = "preprocessing::operator_enums::HybridOp::"
ATOM = "preprocessing::operator_enums::Atomic::"
TREE = "preprocessing::hctl_tree::HctlTreeNode"

UNARY = ["Not", "EX", "AX", "EF", "AF", "EG", "AG"]
BINARY = ["And", "Or", "Xor", "Imp", "Iff", "EU", "AU", "EW", "AW"]
HYBRID = ["Bind", "Jump", "Exists", "Forall"]

SOME = "std::prelude::v1::Some"
NONE = "std::prelude::v1::None"


class Hooks:
    """Inline the operator evaluators and the small recognisers; keep everything else opaque."""

    def __init__(self, inline_prefixes, inline_names=(), opaque_names=()):
        self.prefixes = tuple(inline_prefixes)
        self.names = set(inline_names)
        self.opaque_names = set(opaque_names)

    def opaque(self, fn):
        if fn.path in self.opaque_names:
            return True
        if fn.path in self.names:
            return False
        if fn.path.startswith("preprocessing::operator_enums::") and getattr(fn, "vis", None) != "Public" and " as " not in fn.path:
            # crate-internal classification helpers of the operator enums (`op.is_temporal()`, `op.symbol()`) are part of every layer
            return False
        if fn.path.startswith("<") and " as " in fn.path:
            # `<Type as Trait>::method` belongs to the module of the type or of the trait, whichever is local
            ty_, tr_ = fn.path[1:].split(" as ", 1)
            return not (self.prefixes and (ty_.startswith(self.prefixes) or tr_.startswith(self.prefixes)))
        return not (self.prefixes and fn.path.startswith(self.prefixes))


# The vocabulary of the evaluation layer: functions that the specifications mention by name and that therefore stay opaque when
# another function of the layer is summarised.  Every other function under evaluation:: is a helper and is inlined, whichever
# module it lives in (so a helper extracted into, or shared from, a sibling module changes nothing).
VOCAB = ("algorithm::eval_node", "algorithm::compute_attractor_states", "algorithm::compute_steady_states",
         "canonization::get_canonical_and_renaming", "canonization::get_canonical", "canonization::canonize_subform",
         "mark_duplicates::mark_duplicates_canonized_multiple", "mark_duplicates::mark_duplicates_canonized_single",
         "low_level_operations::create_comparator_var_state", "low_level_operations::create_comparator_two_vars", "low_level_operations::create_equalizer",
         "low_level_operations::project_out_hctl_var", "low_level_operations::project_out_bn_vars", "low_level_operations::substitute_hctl_var",
         "low_level_operations::compute_valid_domain_for_var", "low_level_operations::restrict_stg_unit_bdd",
         "eval_context::EvalContext::from_single_tree", "eval_context::EvalContext::from_multiple_trees", "eval_context::EvalContext::new",
         "eval_context::EvalContext::extend_context_with_wild_cards")


def eval_hooks(opaque_extra=(), transparent=()):
    """Inline every helper of the evaluation layer; keep its vocabulary opaque (minus `transparent`)."""
    names = ["evaluation::" + v for v in VOCAB if v not in transparent] + list(opaque_extra)
    return Hooks(["evaluation::"], opaque_names=names)


def node_term(shape):
    """Constructor term of an HctlTreeNode with the given node_type term."""
    return ("struct", TREE, (("formula_str", ("param", "#formula_str")), ("height", ("param", "#height")),
                             ("node_type", shape)))


def child(name):
    return ("param", name)


def lit(s):
    return ("lit", s)


def shape_atom(kind, payload=None):
    if kind in ("True", "False"):
        return ("ctor", NT + "Terminal", (("ctor", ATOM + kind, ()),))
    return ("ctor", NT + "Terminal", (("ctor", ATOM + kind, (payload,)),))


def shape_unary(op, c):
    return ("ctor", NT + "Unary", (("ctor", UOP + op, ()), c))


def shape_binary(op, l, r):
    return ("ctor", NT + "Binary", (("ctor", BOP + op, ()), l, r))


def shape_hybrid(op, var, dom, c):
    d = ("ctor", NONE, ()) if dom is None else ("ctor", SOME, (dom,))
    return ("ctor", NT + "Hybrid", (("ctor", HOP + op, ()), var, d, c))


def N(shape):
    return node_term(shape)


class EvalNode:
    def __init__(self, prog):
        self.prog = prog
        self.fn = prog.lib_fn(ALG + "eval_node")
        # helpers of the algorithm module (pattern recognisers, quantifier wrapper, anything a refactoring extracts)
        # are inlined; the recursion itself and the two library-heavy shortcut computations stay opaque
        self.hooks = eval_hooks()
        self.engine = terms.Engine(prog, inline=True, hooks=self.hooks)
        self.summ = self.engine.summary(self.fn) if self.fn else None
        self.params = self.fn.param_names() if self.fn else []
        import norm
        self.nz = norm.Normalizer()

    def ok(self):
        return self.fn is not None and self.summ is not None and len(self.params) >= 5

    def specialise(self, shape):
        """Feasible return paths of eval_node for a node of the given shape:
        list of dict(term, residual, kind, node, raw_pc)."""
        mapping = {self.params[0]: node_term(shape)}
        out = []
        memo = {}
        for (term, pc, may, must, node, kind) in self.summ.returns:
            if kind == "try":
                continue
            verdict, residual = partial.eval_pc(pc, mapping, memo)
            if verdict is False:
                continue
            t = self.nz(partial.simplify(subst(term, mapping), memo))
            residual = [(c[0], self.nz(c[1])) + tuple(c[2:]) for c in residual]
            out.append({"term": t, "residual": residual, "kind": kind, "node": node, "pc": pc})
        return out


class NodeAlg(setalg.Alg):
    """Boolean normal form in which recursive eval_node results are atoms keyed by (node, graph, steady states)
    only - the evaluation context and the callback are irrelevant for the value algebra."""

    def interp(self, t):
        if isinstance(t, tuple) and t and t[0] in ("rec", "call") and isinstance(t[1], str) and t[1].endswith("::eval_node") and len(t[2]) >= 4:
            a = t[2]
            const = constant_node(a[0])
            if const is True:
                return ("atom", ("unit", self.canon(a[1])))       # the constants are known (C01-R1 atoms): true = unit(graph)
            if const is False:
                return setalg.FALSE
            return ("atom", ("rec", "eval_node", self.canon(a[0]), self.canon(a[1]), self.canon(a[3])))
        return super().interp(t)

    def canon(self, t):
        if isinstance(t, tuple) and t and t[0] in ("rec", "call") and isinstance(t[1], str) and t[1].endswith("::eval_node") and len(t[2]) >= 4:
            e = self.interp(t)
            return e[1] if e[0] == "atom" else ("sig", self.sig(e))
        d = domset_label(t)
        if d is not None:
            return ("domset", self.canon(d))
        return super().canon(t)


def constant_node(n):
    """True / False if the node term is the constant terminal, else None."""
    if n[0] == "struct":
        for f, v in n[2]:
            if f == "node_type" and v[0] == "ctor" and str(v[1]).endswith("NodeType::Terminal") and v[2] and v[2][0][0] == "ctor":
                l = str(v[2][0][1]).rsplit("::", 1)[-1]
                if l == "True":
                    return True
                if l == "False":
                    return False
    return None


def domset_label(t):
    """`eval_context.domain_raw_sets.get(L).unwrap()` / `[L]`  ->  L  (the raw set registered for label L)."""
    if not isinstance(t, tuple) or not t:
        return None
    if t[0] == "domset":
        return t[1]
    if t[0] == "proj" and len(t) == 4 and t[3] == 0 and str(t[2]).endswith("Some") and t[1][0] == "call" and t[1][1] == "#map::get" and len(t[1][2]) == 2:
        m = t[1][2][0]
        while m[0] == "mut":
            m = m[1]
        if m[0] == "field" and m[2] == "domain_raw_sets":
            return t[1][2][1]
    if t[0] == "call" and isinstance(t[1], str) and t[1].rsplit("::", 1)[-1] in ("unwrap", "expect") and t[2]:
        g = t[2][0]
        if g[0] == "call" and isinstance(g[1], str) and g[1].rsplit("::", 1)[-1] == "get" and len(g[2]) == 2:
            m = g[2][0]
            if m[0] == "field" and m[2] == "domain_raw_sets":
                return g[2][1]
    if t[0] == "index" and t[1][0] == "field" and t[1][2] == "domain_raw_sets":
        return t[2]
    return None


def REC(node, g, sl):
    """Spec-side recursive result (same key as NodeAlg gives to the code's recursive calls)."""
    return ("rec", ALG + "eval_node", (node, g, ("param", "#ctx"), sl, ("param", "#cb")))


# ------------------------------------------------------------------------------------------------
# expected values per node shape (the HCTL semantics of C01 / C02 / C12 / C13 as terms)
# ------------------------------------------------------------------------------------------------
import spec as S

G = ("param", "graph")
SL = ("param", "steady_states")
CTX = ("param", "eval_context")


def CMP(g, var):
    return ("call", LOW + "create_comparator_var_state", (g, var))


def PROJ_VAR(g, x, var):
    return ("call", LOW + "project_out_hctl_var", (g, x, var))


def PROJ_BN(g, x):
    return ("call", LOW + "project_out_bn_vars", (g, x))


def DOMSET(label):
    # eval_context.domain_raw_sets.get(label).unwrap()
    return ("domset", label)


def VALID_DOMAIN(g, dset, var):
    return ("call", LOW + "compute_valid_domain_for_var", (g, dset, var))


def RESTRICT(g, d):
    return ("call", LOW + "restrict_stg_unit_bdd", (g, d))


def IS_EMPTY(x):
    return ("call", S.SET + "is_empty", (x,))


def ATTRACTORS(g):
    return ("call", ALG + "compute_attractor_states", (g, S.UNIT(g)))


def PROP(g, name):
    ctx = ("call", S.GRAPH + "symbolic_context", (g,))
    var = ("call", "std::option::Option::<T>::unwrap", (("call", "ctx::SymbolicContext::find_network_variable", (ctx, name)),))
    bdd = ("call", "ctx::SymbolicContext::mk_state_variable_is_true", (ctx, var))
    return S.AND(("call", "gcv::GraphColoredVertices::new", (bdd, ctx)), S.UNIT(g))


def expected_unary(op, g, c, sl):
    return {
        "Not": [S.NOT(g, c)], "EX": [S.EX(g, c, sl)], "AX": [S.AX(g, c, sl)], "EF": S.EF_alts(g, c, sl),
        "AF": [S.AF(g, c, sl)], "EG": [S.EG(g, c, sl)], "AG": S.AG_alts(g, c, sl),
    }[op]


def expected_binary(op, g, l, r, sl):
    return {
        "And": [S.AND(l, r)], "Or": [S.OR(l, r)], "Xor": [S.XOR(g, l, r)], "Imp": [S.IMP(g, l, r)], "Iff": [S.IFF(g, l, r)],
        "EU": S.EU_alts(g, l, r, sl), "AU": [S.AU(g, l, r, sl)], "EW": S.EW_alts(g, l, r, sl), "AW": S.AW_alts(g, l, r, sl),
    }[op]


def expected_quantifier(op, g, g_child, c, var):
    """`g_child` is the graph the child was evaluated on (== g without a domain)."""
    if op == "Bind":
        return [PROJ_VAR(g, S.AND(CMP(g, var), c), var)]
    if op == "Exists":
        return [PROJ_VAR(g, c, var)]
    if op == "Forall":
        return [S.NOT(g, PROJ_VAR(g, S.NOT(g_child, c), var))]
    raise KeyError(op)


def expected_jump(g, c, var):
    return [PROJ_BN(g, S.AND(CMP(g, var), c))]


def expected_domain_quantifier(op, g, child_node, var, label, sl):
    d = VALID_DOMAIN(g, DOMSET(label), var)
    g2 = RESTRICT(g, d)
    c2 = REC(child_node, g2, sl)
    shortcut = S.UNIT(g) if op == "Forall" else S.EMPTY(g)
    outs = []
    for full in expected_quantifier(op, g, g2, c2, var):
        outs.append(("ite", IS_EMPTY(S.AND(S.UNIT(g), d)), shortcut, full))
    return outs
