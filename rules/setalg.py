"""Boolean-algebra normal form for set-valued Herbrand terms.

The set operations of `biodivine-lib-param-bn` / `biodivine-lib-bdd` (L1) are interpreted as Boolean
connectives; everything else (pre-images, loop iterates, recursive results, parameters) is an opaque
*atom* whose set-valued arguments are normalised recursively (congruence).  Two terms are compared by
their truth tables over the atoms - a canonical form of the expression, computed bit-parallel; nothing
of the analysed program is executed and no solver is called.
"""
from terms import subterms

SET_AND = ("Set::intersect", "Bdd::and")
SET_OR = ("Set::union", "Bdd::or")
SET_MINUS = ("Set::minus", "Bdd::and_not")
UNIT_FNS = ("mk_unit_colored_vertices", "unit_colored_vertices")
EMPTY_FNS = ("mk_empty_colored_vertices", "empty_colored_vertices")
IDENT_FNS = ("as_bdd", "into_bdd", "copy")
BDD_NOT = ("Bdd::not",)
BDD_IFF = ("Bdd::iff",)
BDD_XOR = ("Bdd::xor",)
BDD_IMP = ("Bdd::imp",)
ITER_ADAPTERS = ("rev", "iter", "into_iter", "cloned", "copied", "by_ref")

FALSE = ("false",)
TRUE = ("true",)


def _ends(path, suffixes):
    if not isinstance(path, str):
        return False
    for s in suffixes:
        if path == s or path.endswith("::" + s) or path.endswith(">::" + s.split("::")[-1]) and s.split("::")[0] in path:
            return True
    return False


def _last(path):
    return path.rsplit("::", 1)[-1] if isinstance(path, str) else ""


def is_trait_call(path, trait, method):
    """`biodivine_lib_param_bn::biodivine_std::traits::Set::union` or `biodivine_lib_bdd::Bdd::and` style paths."""
    if not isinstance(path, str):
        return False
    return path.endswith(f"{trait}::{method}") or (path.endswith("::" + method) and f"{trait}" in path)


def opkey(path):
    """Path-insensitive key of a library operation (the spec uses its own pseudo paths)."""
    if not isinstance(path, str):
        return path
    last = _last(path)
    if "SymbolicAsyncGraph" in path:
        return "graph::" + last
    if "GraphColoredVertices" in path:
        return "gcv::" + last
    if "SymbolicContext" in path:
        return "ctx::" + last
    if "BddVariableSet" in path:
        return "bddvars::" + last
    if "Bdd" in path:
        return "bdd::" + last
    return path


class Alg:
    """Interpretation context: maps (loop id, var) to canonical bound-variable names."""

    def __init__(self, extra_identity=(), gcv_new=True):
        self.bound = {}
        self.extra_identity = tuple(extra_identity)

    # ---------------------------------------------------------------- interpretation
    def interp(self, t):
        if not isinstance(t, tuple) or not t:
            return ("atom", ("raw", repr(t)))
        k = t[0]
        if k == "call":
            path, args = t[1], t[2]
            last = _last(path)
            if is_trait_call(path, "Set", "intersect") or is_trait_call(path, "Bdd", "and"):
                return ("and", self.interp(args[0]), self.interp(args[1]))
            if is_trait_call(path, "Set", "union") or is_trait_call(path, "Bdd", "or"):
                return ("or", self.interp(args[0]), self.interp(args[1]))
            if is_trait_call(path, "Set", "minus") or is_trait_call(path, "Bdd", "and_not"):
                return ("and", self.interp(args[0]), ("not", self.interp(args[1])))
            if is_trait_call(path, "Bdd", "not"):
                return ("not", self.interp(args[0]))
            if is_trait_call(path, "Bdd", "iff"):
                a, b = self.interp(args[0]), self.interp(args[1])
                return ("or", ("and", a, b), ("and", ("not", a), ("not", b)))
            if is_trait_call(path, "Bdd", "xor"):
                a, b = self.interp(args[0]), self.interp(args[1])
                return ("or", ("and", a, ("not", b)), ("and", ("not", a), b))
            if is_trait_call(path, "Bdd", "imp"):
                a, b = self.interp(args[0]), self.interp(args[1])
                return ("or", ("not", a), b)
            if last in UNIT_FNS and len(args) == 1:
                return ("atom", ("unit", self.canon(args[0])))
            if last in EMPTY_FNS and len(args) == 1:
                return FALSE
            if last in ("mk_false",):
                return FALSE
            if last in IDENT_FNS and len(args) == 1:
                return self.interp(args[0])
            if last == "new" and "GraphColoredVertices" in path and len(args) == 2:
                return self.interp(args[0])          # wrapping a BDD as a coloured set
            if path in self.extra_identity and args:
                return self.interp(args[0])
            if last in ITER_ADAPTERS and len(args) == 1:
                return self.interp(args[0])
            if last in ("pre", "post", "var_pre", "var_post") and "SymbolicAsyncGraph" in str(path) and args:
                # images are strict: the image of the empty set is empty
                if self.equivalent(self.interp(args[-1]), FALSE):
                    return FALSE
            return ("atom", ("call", opkey(path), tuple(self.canon(a) for a in args)))
        if k == "rec":
            return ("atom", ("rec", opkey(t[1]), tuple(self.canon(a) for a in t[2])))
        if k == "ite":
            c = ("atom", ("cond", self.canon(t[1])))
            return ("or", ("and", c, self.interp(t[2])), ("and", ("not", c), self.interp(t[3])))
        if k == "join":
            # a value that is one of several: interpreted as a fresh choice between them
            alts = [self.interp(x) for x in t[1]]
            if all(a == alts[0] for a in alts):
                return alts[0]
            return ("atom", ("join", tuple(sorted((self.sig(a) for a in alts), key=repr))))
        if k == "loopvar":
            b = self.bound.get((t[1], t[2]))
            return ("atom", ("X", b) if b is not None else ("loopvar", t[1], t[2]))
        if k == "mu":
            key = self.canon_mu(t)
            if key[0] == "const":
                return self.interp(t[3])
            return ("atom", key)
        if k == "param":
            return ("atom", ("param", t[1]))
        if k == "elem":
            return ("atom", ("elem", self.canon(t[1])))
        if k == "mut":
            # a value after an in-place update: opaque, keyed by both
            return ("atom", ("mut", self.canon(t[1]), self.canon(t[2])))
        return ("atom", self.canon_struct(t))

    def step_alternatives(self, step):
        """Top-level control-flow alternatives of a loop step (ite / join): the possible next values."""
        if isinstance(step, tuple) and step and step[0] == "ite":
            return self.step_alternatives(step[2]) + self.step_alternatives(step[3])
        if isinstance(step, tuple) and step and step[0] == "join":
            out = []
            for x in step[1]:
                out += self.step_alternatives(x)
            return out
        return [step]

    def canon_mu(self, t):
        """Canonical key of a loop iterate mu(init, step).
        * alternatives of the step that leave the variable unchanged are dropped, the rest is united
          (chaotic iteration; that the loop only stops when no alternative changes anything is a separate rule);
        * an inflationary step (X <= step) is normalised to step | init, a deflationary one (step <= X)
          to step & init, because iterates started in init stay above (below) it."""
        _, lid, name, init, step = t
        level = len(self.bound)
        self.bound[(lid, name)] = level
        try:
            xe = ("atom", ("X", level))
            ie = self.interp(init)
            # an iteration that is already stationary at its initial value is that value
            try:
                import terms as _t
                at_init = self.interp(_t.replace(step, ("loopvar", lid, name), init))
                if self.equivalent(at_init, ie):
                    return ("const", self.sig(ie))
            except (ValueError, RecursionError):
                pass
            alts = [self.interp(a) for a in self.step_alternatives(step)]
            keep = [a for a in alts if not self.equivalent(a, xe)]
            if not keep:
                se, scheme = xe, "const"
            else:
                se = keep[0]
                for a in keep[1:]:
                    se = ("or", se, a)
                if self.implies(xe, se):
                    se, scheme = ("or", se, ie), "lfp"
                elif self.implies(se, xe):
                    se, scheme = ("and", se, ie), "gfp"
                else:
                    scheme = "other"
            s = self.sig(se)
        finally:
            del self.bound[(lid, name)]
        return ("mu", scheme, self.sig(ie), s)

    def canon_struct(self, t):
        if t and t[0] in ("call", "rec") and len(t) == 3:
            return (t[0], opkey(t[1]), tuple(self.canon(x) for x in t[2]))
        return tuple(self.canon(x) if isinstance(x, tuple) else x for x in t)

    def canon(self, t):
        """Canonical key of an arbitrary term: set-valued subterms by signature, the rest structurally."""
        if not isinstance(t, tuple) or not t:
            return t
        if self.is_setlike(t):
            # the set interpretation proper (a subclass may interpret conditions, not sets)
            return ("sig", self.sig(Alg.interp(self, t)))
        if t[0] == "call" and _last(t[1]) in ITER_ADAPTERS and len(t[2]) == 1:
            return self.canon(t[2][0])
        if t[0] == "loopvar":
            b = self.bound.get((t[1], t[2]))
            return ("X", b) if b is not None else t
        return self.canon_struct(t)

    def is_setlike(self, t):
        if t[0] == "call":
            p = t[1]
            last = _last(p)
            return (is_trait_call(p, "Set", "intersect") or is_trait_call(p, "Set", "union") or is_trait_call(p, "Set", "minus")
                    or is_trait_call(p, "Bdd", "and") or is_trait_call(p, "Bdd", "or") or is_trait_call(p, "Bdd", "and_not")
                    or is_trait_call(p, "Bdd", "not") or is_trait_call(p, "Bdd", "iff") or is_trait_call(p, "Bdd", "xor")
                    or last in UNIT_FNS or last in EMPTY_FNS or last in IDENT_FNS
                    or (last == "new" and "GraphColoredVertices" in p))
        return t[0] in ("mu", "ite") and False

    # ---------------------------------------------------------------- truth tables
    @staticmethod
    def atoms_of(e, out=None):
        if out is None:
            out = []
        stack = [e]
        while stack:
            x = stack.pop()
            if x[0] == "atom":
                if x[1] not in out:
                    out.append(x[1])
            elif x[0] in ("and", "or"):
                stack.append(x[1])
                stack.append(x[2])
            elif x[0] == "not":
                stack.append(x[1])
        return out

    @staticmethod
    def table(e, atoms, fixed=None):
        n = len(atoms)
        if n > 18:
            raise ValueError("too many atoms")
        width = 1 << n
        full = (1 << width) - 1
        vecs = {}
        for i, a in enumerate(atoms):
            block = (1 << (1 << i)) - 1           # 2^i ones
            pat = block << (1 << i)               # 0..0 1..1 of period 2^(i+1)
            v = 0
            period = 1 << (i + 1)
            for off in range(0, width, period):
                v |= pat << off
            vecs[a] = v & full
        memo = {}

        def ev(x):
            if x in memo:
                return memo[x]
            k = x[0]
            if k == "atom":
                if fixed is not None and x[1] in fixed:
                    r = full if fixed[x[1]] else 0
                else:
                    r = vecs[x[1]]
            elif k == "and":
                r = ev(x[1]) & ev(x[2])
            elif k == "or":
                r = ev(x[1]) | ev(x[2])
            elif k == "not":
                r = full & ~ev(x[1])
            elif k == "false":
                r = 0
            else:
                r = full
            memo[x] = r
            return r

        return ev(e), full

    def sig(self, e):
        """Canonical signature: (support atoms sorted, truth table over them)."""
        atoms = sorted(self.atoms_of(e), key=repr)
        if len(atoms) > 14:
            return ("big", repr(e))
        # drop atoms outside the support
        tab, full = self.table(e, atoms)
        support = []
        for i, a in enumerate(atoms):
            t1, _ = self.table(e, atoms, fixed={a: True})
            t0, _ = self.table(e, atoms, fixed={a: False})
            if t1 != t0:
                support.append(a)
        if len(support) != len(atoms):
            tab, full = self.table(e, support, fixed={a: False for a in atoms if a not in support})
        return (tuple(support), tab)

    def equivalent(self, e1, e2, assume=()):
        """e1 == e2 on every valuation of the atoms that satisfies all `assume` expressions."""
        atoms = sorted(set(self.atoms_of(e1)) | set(self.atoms_of(e2)) | {a for c in assume for a in self.atoms_of(c)}, key=repr)
        if len(atoms) > 18:
            return e1 == e2
        t1, full = self.table(e1, atoms)
        t2, _ = self.table(e2, atoms)
        care = full
        for c in assume:
            tc, _ = self.table(c, atoms)
            care &= tc
        return (t1 & care) == (t2 & care)

    def implies(self, e1, e2, assume=()):
        return self.equivalent(("and", e1, ("not", e2)), FALSE, assume)


def pe(e):
    """Pretty-print an interpreted expression."""
    k = e[0]
    if k == "atom":
        a = e[1]
        if a[0] == "param":
            return a[1]
        if a[0] == "unit":
            return "U"
        if a[0] == "X":
            return f"X{a[1]}"
        if a[0] == "call":
            return _last(a[1]) + "(..)"
        return a[0]
    if k == "and":
        return "(" + pe(e[1]) + " & " + pe(e[2]) + ")"
    if k == "or":
        return "(" + pe(e[1]) + " | " + pe(e[2]) + ")"
    if k == "not":
        return "~" + pe(e[1])
    return k
