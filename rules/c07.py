"""C07 - preprocessing validates binding and renames variables without changing meaning.

Decided here (alpha-equivalence and idempotence over all trees are value-level and not decided):
  C07-R1  classification agreement: every site that branches on the hybrid operator partitions it the same way -
          quantifiers {Bind, Exists, Forall} versus {Jump}: the scope extension in validate_and_rename_recursive, the
          variable collection in collect_unique_hctl_vars_recursive, the jump arm and the quantifier wrapper of the
          evaluator (the latter two through the C01 shapes);
  C07-R2  check before use: a variable terminal is renamed only through the scope map and absence returns Err; a
          quantifier whose variable is already in the map returns Err before the map is extended; a jump whose target
          is not in the map returns Err; a proposition reaches Ok only if find_network_variable(name) is some;
  C07-R3  depth naming and sibling isolation: the name inserted for a quantifier is the parent's name extended by exactly
          one push, on the quantifier path only; the child receives exactly that extended map and name; unary and binary
          children receive the parent's map and name unchanged; the scope map is a by-value parameter (a callee cannot
          leak bindings into a sibling) - if it is not, every insert must be paired with a remove for the same operators;
          the function keeps no other state (no memo table, no extra parameters);
  C07-R4  must-pass-through: every string-based entry point and the command-line analysis evaluate only trees
          that are results of validate_props_and_rename_vars, and check_hctl_var_support counts exactly the quantifier
          variables collected from that tree;
  C07-R5  reconstruction: every node is rebuilt through the public constructors from the validated children and the
          node's own operator / domain (nothing is dropped or reordered)."""
import evalnode as E
import pipelines
import semantics as sem
import terms
from terms import subterms, pt, place_path

LEVEL = "other"
UTILS = "preprocessing::utils::"
QUANT = {"Bind", "Exists", "Forall"}


def desc_variants(d):
    if d[0] == "var":
        return {str(d[1]).rsplit("::", 1)[-1]}
    if d[0] == "or":
        out = set()
        for x in d[1]:
            v = desc_variants(x)
            if v is None:
                return None
            out |= v
        return out
    return None


def hybrid_class(pc):
    """Set of HybridOp variants the path condition restricts the operator to (None = unrestricted)."""
    res = None
    for c in pc:
        if c[0] == "match" and c[3]:
            v = desc_variants(c[2])
            if v and v <= {"Bind", "Exists", "Forall", "Jump"}:
                res = v if res is None else res & v
        if c[0] == "if" and c[1][0] == "matches":
            v = desc_variants(c[1][2])
            if v and v <= {"Bind", "Exists", "Forall", "Jump"}:
                if c[2]:
                    res = v if res is None else res & v
                else:
                    res = ({"Bind", "Exists", "Forall", "Jump"} - v) if res is None else res - v
    return res


def run(prog, rep):
    rep.explanation = __doc__
    rep.assumptions = []
    for r, t in (("C07-R1", "quantifier / jump classification agrees at all sites"), ("C07-R2", "scope checks dominate every use"),
                 ("C07-R3", "depth naming, sibling isolation, no hidden state"), ("C07-R4", "evaluation only of validated trees"),
                 ("C07-R5", "nodes rebuilt through the constructors from validated children")):
        rep.rule(r, t)
    f = prog.lib_fn(UTILS + "validate_and_rename_recursive")
    if f is None:
        rep.unresolved("C07-R2", "validate_and_rename_recursive", "", "function not found")
        return
    rep.functions.add(f.qual)
    eng = terms.Engine(prog, inline=False)
    s = eng.summary(f)
    where = f"{f.file}:{f.line}"
    pn = f.param_names()
    if len(pn) != 4:
        rep.unresolved("C07-R3", "validate/params", where, f"expected (tree, scope map, last name, context), found {pn}: extra state can make the result depend on history")
        return
    tree, smap, name, ctx = (("param", x) for x in pn)
    nt = ("field", tree, "node_type")
    hyb = lambda i: ("proj", nt, "preprocessing::hctl_tree::NodeType::Hybrid", i)    # noqa: E731
    var = hyb(1)

    def mentions_map(t):
        return terms.mentions_param(t, pn[1])

    # ---- R1 / R3: scope extension
    ins = [x for x in s.sites if x.kind == "mcall" and x.name == "insert" and x.argnodes and place_path(x.argnodes[0]) == pn[1]]
    rep.check(len(ins) == 1, "C07-R3", "validate/one-insert", where, "exactly one scope extension", f"{len(ins)} inserts into the scope map")
    for x in ins:
        cls = hybrid_class(x.pc)
        rep.check(cls == QUANT, "C07-R1", "validate/scope-extension", x.where(), "scope extended exactly for bind, exists, forall",
                  f"the scope map is extended for {sorted(cls) if cls else 'every operator'}; expected exactly {sorted(QUANT)}")
        key_ok = x.args[1] == var
        val = x.args[2]
        pushes = [y for y in subterms(val) if y[0] == "call" and y[1].endswith("::push")]
        one_push = len(pushes) == 1 and pushes[0][2] == (("lit", "x"),) and val[0] == "mut" and val[1] == name
        rep.check(key_ok and one_push, "C07-R3", "validate/depth-name", x.where(), "scope[var] = parent's name + exactly one 'x'",
                  f"inserted binding is {sem.short(x.args[1], 60)} -> {sem.short(val, 100)}")
        guard = any(c[0] == "if" and not c[2] and c[1][0] == "call" and c[1][1].endswith("contains_key") and c[1][2] == (smap, var) for c in x.pc)
        rep.check(guard, "C07-R2", "validate/requantification-before-insert", x.where(), "extension only after the re-quantification check",
                  "the scope map is extended without first checking that the variable is not already bound")
    byval = not f.param_tys[1].startswith("&")
    if byval:
        rep.ok("C07-R3", "validate/by-value-scope", where, "scope map and name are by-value parameters: a callee cannot leak bindings to a sibling")
    else:
        rems = [x for x in s.sites if x.kind == "mcall" and x.name == "remove" and x.argnodes and place_path(x.argnodes[0]) == pn[1]]
        cls_r = set()
        for x in rems:
            cls_r |= hybrid_class(x.pc) or {"Bind", "Exists", "Forall", "Jump"}
        rep.check(bool(rems) and QUANT <= cls_r and all(x.args[1] == var for x in rems), "C07-R3", "validate/paired-remove", where,
                  "shared scope map: every binding is removed again for all three quantifiers",
                  f"the scope map is shared (`{f.param_tys[1][:40]}`) and bindings are removed only for {sorted(cls_r)}: "
                  "a binding outlives its quantifier and is visible in siblings")
    # no other stateful look-ups
    for x in s.sites:
        if x.kind == "mcall" and x.name in ("get", "insert", "contains_key", "entry", "get_mut", "remove") and x.argnodes:
            root = place_path(x.argnodes[0])
            if root is not None and root.split(".")[0] not in (pn[1],):
                rep.violation("C07-R3", f"validate/hidden-state:{root}@{x.ordinal}", x.where(),
                              f"validate_and_rename_recursive consults `{root}`: the result for a node may depend on what was processed before")
    # ---- R2
    errs = [r for r in s.returns if r[5] == "return" and r[0][0] == "ctor" and str(r[0][1]).endswith("Err")]

    def err_under(cond_pred):
        return any(any(cond_pred(c) for c in r[1]) for r in errs)

    v_name = ("proj", ("proj", nt, "preprocessing::hctl_tree::NodeType::Terminal", 0), "preprocessing::operator_enums::Atomic::Var", 0)
    mkv = [x for x in s.sites if x.kind == "call" and x.is_call_to("mk_variable")]
    good = len(mkv) == 1 and mkv[0].args[0][0] == "call" and any(y[0] == "call" and y[1].endswith("::get") and y[2] == (smap, v_name) for y in subterms(mkv[0].args[0]))
    guarded = good and any(c[0] == "if" and c[1] == ("not", ("call", c[1][1][1] if c[1][0] == "not" and c[1][1][0] == "call" else "", (smap, v_name))) and not c[2]
                           for c in mkv[0].pc if c[0] == "if" and c[1][0] == "not")
    free_err = err_under(lambda c: c[0] == "if" and c[2] and c[1][0] == "not" and c[1][1][0] == "call" and c[1][1][1].endswith("contains_key") and c[1][1][2] == (smap, v_name))
    rep.check(good and guarded and free_err, "C07-R2", "validate/variable", mkv[0].where() if mkv else where,
              "variable renamed through scope[name]; absent -> Err", f"renamed via scope map={good}, dominated by the presence check={guarded}, Err when free={free_err}")
    requant = err_under(lambda c: c[0] == "if" and c[2] and c[1][0] == "call" and c[1][1].endswith("contains_key") and c[1][2] == (smap, var))
    rq_cls = [hybrid_class(r[1]) for r in errs if any(c[0] == "if" and c[2] and c[1][0] == "call" and c[1][1].endswith("contains_key") and c[1][2] == (smap, var) for c in r[1])]
    rep.check(requant and all(c == QUANT for c in rq_cls), "C07-R2", "validate/requantification", where, "re-quantified variable -> Err (for all three quantifiers)",
              f"re-quantification is rejected for {[sorted(c) if c else None for c in rq_cls]}")
    jump_err = False
    for r in errs:
        for c in r[1]:
            if c[0] == "if" and c[2] and c[1][0] == "bin" and c[1][1] == "&&":
                l, rr = c[1][2], c[1][3]
                if l[0] == "matches" and desc_variants(l[2]) == {"Jump"} and rr[0] == "not" and rr[1][0] == "call" and rr[1][1].endswith("contains_key") and rr[1][2][1] == var:
                    jump_err = True
    rep.check(jump_err, "C07-R2", "validate/jump-target", where, "jump to an unbound variable -> Err", "a jump whose target is not in scope is not rejected")
    p_name = ("proj", ("proj", nt, "preprocessing::hctl_tree::NodeType::Terminal", 0), "preprocessing::operator_enums::Atomic::Prop", 0)
    fnv = [x for x in s.sites if x.kind == "mcall" and x.name == "find_network_variable" and x.args[1] == p_name and x.args[0] == ctx]
    tail = [r for r in s.returns if r[5] == "tail"]
    prop_ok = False
    if fnv and tail:
        for y in subterms(tail[0][0]):
            if y[0] == "ite" and y[1][0] == "call" and y[1][1].endswith("is_none") and y[1][2] == (fnv[0].term,):
                prop_ok = y[2][0] == "ctor" and str(y[2][1]).endswith("Err") and y[3][0] == "ctor" and str(y[3][1]).endswith("Ok")
            if y[0] == "ite" and y[1][0] == "call" and y[1][1].endswith("is_some") and y[1][2] == (fnv[0].term,):
                prop_ok = y[3][0] == "ctor" and str(y[3][1]).endswith("Err") and y[2][0] == "ctor" and str(y[2][1]).endswith("Ok")
    rep.check(prop_ok, "C07-R2", "validate/proposition", fnv[0].where() if fnv else where, "proposition accepted iff it names a network variable",
              "a proposition can be accepted without find_network_variable(name) being some")
    rep.floor("C07-R2", 5)
    # ---- R3: recursive calls
    recs = [x for x in s.sites if x.kind == "call" and x.is_call_to("validate_and_rename_recursive")]
    for x in recs:
        a = x.args
        kind = None
        for c in x.pc:
            if c[0] == "match" and c[3] and c[2][0] == "var":
                kind = str(c[2][1]).rsplit("::", 1)[-1]
        if kind in ("Unary", "Binary"):
            rep.check(a[1] == smap and a[2] == name and a[3] == ctx, "C07-R3", f"validate/rec:{kind}@{x.ordinal}", x.where(),
                      "child sees the parent's scope and name unchanged", f"child receives scope {sem.short(a[1], 80)}, name {sem.short(a[2], 60)}")
        elif kind == "Hybrid":
            # alternatives of the merged state: extended (quantifier path) or unchanged (jump path)
            def alts(t):
                if t[0] == "ite":
                    return alts(t[2]) + alts(t[3])
                if t[0] == "switch":
                    return [y for _, v in t[2] for y in alts(v)]
                return [t]
            ma, na = alts(a[1]), alts(a[2])
            ext = [m for m in ma if m != smap]
            ok = (smap in ma and len(ext) == 1 and ext[0][0] == "mut" and ext[0][1] == smap and ins and ext[0][2][2][0] == var
                  and name in na and len([n for n in na if n != name]) == 1)
            rep.check(bool(ok) and a[0] == hyb(3), "C07-R3", f"validate/rec:Hybrid@{x.ordinal}", x.where(),
                      "child of a hybrid node sees the scope extended by its own variable (quantifiers) or unchanged (jump)",
                      f"child receives scope alternatives {[sem.short(m, 70) for m in ma]}")
        else:
            rep.unresolved("C07-R3", f"validate/rec@{x.ordinal}", x.where(), "recursive call outside the node-type match")
    rep.floor("C07-R3", 7)
    # ---- R5 reconstruction
    for ctor, arity in (("mk_unary", 1), ("mk_binary", 2), ("mk_hybrid", 1)):
        cs = [x for x in s.sites if x.kind == "call" and x.is_call_to(ctor)]
        good = len(cs) == 1
        why = f"{len(cs)} {ctor} calls"
        if good:
            a = cs[0].args
            kids = a[:arity]
            good = all(k[0] == "proj" and k[1][0] in ("call", "rec") and k[1][1].endswith("validate_and_rename_recursive") for k in kids)
            if ctor == "mk_binary" and good:
                good = kids[0][1][2][0][3] == 1 and kids[1][1][2][0][3] == 2 and a[2] == ("proj", nt, "preprocessing::hctl_tree::NodeType::Binary", 0)
            if ctor == "mk_unary" and good:
                good = a[1] == ("proj", nt, "preprocessing::hctl_tree::NodeType::Unary", 0)
            if ctor == "mk_hybrid" and good:
                renamed = a[1]
                good = a[2] == hyb(2) and a[3] == hyb(0) and any(y[0] == "call" and y[1].endswith("::get") and y[2][1] == var for y in subterms(renamed))
            why = f"arguments {[sem.short(x, 60) for x in a]}"
        rep.check(good, "C07-R5", f"validate/{ctor}", cs[0].where() if cs else where, f"{ctor}(validated children, own operator / domain, renamed variable)", why)
    rep.floor("C07-R5", 3)
    # ---- R1: collection of quantifier variables
    cu = prog.lib_fn("mc_utils::collect_unique_hctl_vars_recursive")
    if cu is None:
        rep.unresolved("C07-R1", "collect_unique_hctl_vars_recursive", "", "function not found")
    else:
        rep.functions.add(cu.qual)
        cs = eng.summary(cu)
        cins = [x for x in cs.sites if x.kind == "mcall" and x.name == "insert"]
        good = len(cins) == 1 and hybrid_class(cins[0].pc) == QUANT
        rep.check(good, "C07-R1", "collect_unique_hctl_vars/quantifiers", f"{cu.file}:{cu.line}", "variables collected from bind, exists, forall",
                  f"variables are collected for {sorted(hybrid_class(cins[0].pc) or []) if cins else None}")
        recs2 = [x for x in cs.sites if x.kind == "call" and x.is_call_to("collect_unique_hctl_vars_recursive")]
        kinds = set()
        for x in recs2:
            for c in x.pc:
                if c[0] == "match" and c[3] and c[2][0] == "var":
                    kinds.add(str(c[2][1]).rsplit("::", 1)[-1])
        rep.check(kinds == {"Unary", "Binary", "Hybrid"} and len(recs2) == 4, "C07-R1", "collect_unique_hctl_vars/traversal", f"{cu.file}:{cu.line}",
                  "all children are visited", f"recursion covers {sorted(kinds)} with {len(recs2)} calls (expected 4)")
    chk = prog.lib_fn("mc_utils::check_hctl_var_support")
    if chk is not None:
        rep.functions.add(chk.qual)
        cs = eng.summary(chk)
        cpn = chk.param_names()
        rets = [r for r in cs.returns if r[5] != "try"]
        falses = [r for r in rets if r[0] == ("lit", False)]
        good = False
        for r in falses:
            for c in r[1]:
                if c[0] == "if" and c[2] and c[1][0] == "bin" and c[1][1] == ">":
                    l, rr = c[1][2], c[1][3]
                    if "collect_unique_hctl_vars" in pt(l) and l[0] == "call" and l[1].endswith("::len") and "extra_state_variables" in pt(rr) and rr[0] == "call" and rr[1].endswith("::len"):
                        good = True
        rep.check(good and any(r[0] == ("lit", True) for r in rets), "C07-R4", "check_hctl_var_support", f"{chk.file}:{chk.line}",
                  "false iff #quantifier variables > #extra variable sets of some network variable", "support check does not compare the number of collected variables with the number of extra variable sets")
    # ---- R4 must-pass-through
    deng = terms.Engine(prog, inline=True, hooks=E.Hooks(["model_checking::", "preprocessing::parser::parse_and_minimize"],
                                                         inline_names=["preprocessing::parser::parse_and_minimize_hctl_formula", "preprocessing::parser::parse_and_minimize_extended_formula"]))
    for ep in pipelines.entry_points(prog):
        strs = [t for t in ep.param_tys if "str" in t]
        if not strs:
            continue
        sm = deng.summary(ep)
        evs = pipelines.eval_sites(sm)
        good = bool(evs)
        for ev in evs:
            node = ev.args[0]
            vals = [y for y in subterms(node) if y[0] == "call" and y[1].endswith("validate_props_and_rename_vars")]
            if not vals or not any(z[0] == "call" and ("parse_hctl_formula" in z[1] or "parse_extended_formula" in z[1]) for z in subterms(vals[0])):
                good = False
        sup = [x for x in sm.all_sites() if x.kind == "call" and x.is_call_to("check_hctl_var_support")]
        good = good and bool(sup)
        rep.check(good, "C07-R4", f"{ep.name}/validated", f"{ep.file}:{ep.line}", "evaluates validate_props_and_rename_vars(parse(formula)) after the support check",
                  "a tree reaches eval_node without passing validate_props_and_rename_vars / check_hctl_var_support")
    an = prog.lib_fn("analysis::analyse_formulae")
    if an is not None:
        sm = eng.summary(an)
        evs = pipelines.eval_sites(sm)
        vals = [x for x in sm.sites if x.kind == "call" and x.is_call_to("validate_props_and_rename_vars")]
        good = bool(evs) and len(vals) == 1
        if good:
            pushed = [x for x in sm.sites if x.kind == "mcall" and x.name == "push" and any(y == vals[0].term for a in x.args[1:] for y in [a] + list(subterms(a)))]
            good = bool(pushed)
        rep.check(good, "C07-R4", "analyse_formulae/validated", f"{an.file}:{an.line}", "the command-line analysis evaluates validated trees",
                  "analyse_formulae evaluates trees that did not pass validate_props_and_rename_vars")
    rep.floor("C07-R4", 18)
    rep.floor("C07-R1", 3)
