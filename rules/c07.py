"""C07 - preprocessing validates binding and renames variables without changing meaning.

Decided here (alpha-equivalence and idempotence over all trees are value-level and not decided).  The validator - the recursive
function behind validate_props_and_rename_vars, found by call structure; a function of the tree, the symbolic context and its state:
one scope map String -> String and one last-used name, as parameters or as fields of a private struct, found by type - is
*partially evaluated* for every node shape (online partial evaluation of the resolved HIR, idiom normal forms) and the value it
returns is compared with the specification:
  C07-R1  shapes and classification: for every atom kind, unary and binary nodes and each of the four hybrid operators the
          returned value is (scope = the by-value map old-name -> new-name, `name'` = last_name extended by exactly one `x`)
            Var(v)                 Ok(mk_variable(scope[v]))                       if scope has v, Err otherwise
            Prop(p)                Ok(tree)                                        if ctx.find_network_variable(p) is some, Err otherwise
            True/False/%w%         Ok(tree)
            Unary(op, c)           Ok(mk_unary(rec(c, scope, last_name)?, op))
            Binary(op, l, r)       Ok(mk_binary(rec(l, scope, last_name)?, rec(r, scope, last_name)?, op))   (siblings see the same scope)
            Q{var}[dom]: c         Err if scope has var, else Ok(mk_hybrid(rec(c, scope+{var->name'}, name')?, name', dom, Q))   Q = bind, exists, forall
            @{var}: c              Ok(mk_hybrid(rec(c, scope, last_name)?, scope[var], None.., Jump))  if scope has var, Err otherwise
          - this contains the quantifier / jump classification, check-before-use, depth naming, sibling isolation and the
          reconstruction through the public constructors;
  C07-R2  error propagation: errors of recursive calls are propagated (`?`), never swallowed;
  C07-R3  no hidden state: the validator's state is exactly the scope map and the name, passed by value - or shared by `&mut`, in
          which case every node shape must leave both as it found them on every successful exit (induction over the tree: recursive
          calls restore the state by hypothesis, errors are propagated at once by R2, the node undoes its own `insert`/`push` by
          `remove` of a key that was absent / `pop`); anything else lets a sibling see what was processed before;
  C07-R4  must-pass-through: every string-based entry point and the command-line analysis evaluate only trees that are
          results of validate_props_and_rename_vars, after check_hctl_var_support, which compares the number of quantifier
          variables collected from that tree (bind / exists / forall, all children visited) with the graph's spare sets."""
import evalnode as E
import norm
import partial
import pipelines
import q
import semantics as sem
import terms
from norm import GET, SOME_DESC
from terms import subterms, pt

LEVEL = "other"
UTILS = "preprocessing::utils::"
VALIDATE = UTILS + "validate_and_rename_recursive"
COLLECT = "mc_utils::collect_unique_hctl_vars_recursive"
QUANT = {"Bind", "Exists", "Forall"}


def ok(t):
    return t[0] == "ctor" and str(t[1]).rsplit("::", 1)[-1] == "Ok" and len(t[2]) == 1


def err(t):
    return t[0] == "ctor" and str(t[1]).rsplit("::", 1)[-1] == "Err"


def leaves(t, conds=()):
    if isinstance(t, tuple) and t and t[0] == "ite":
        return leaves(t[2], conds + ((t[1], True),)) + leaves(t[3], conds + ((t[1], False),))
    if isinstance(t, tuple) and t and t[0] == "join":
        out = []
        for x in t[1]:
            out += leaves(x, conds)
        return out
    return [(conds, t)]


def has_cond(conds, m, k):
    """Polarity of `m has k` among the conditions, closed under unit propagation (None if absent)."""
    clauses = []
    for t, pol in conds:
        x, p = terms._strip_not(t, pol)
        clauses += terms.to_clauses(x, p)
    pr = terms.propagate_clauses([], clauses) if len(clauses) <= 40 else None
    if pr is not None:
        for x, p in pr[0]:
            h = q.as_has(x)
            if h is not None and h[0] == m and h[1] == k:
                return p
    for t, pol in conds:
        stack = [(t, pol)]
        while stack:
            x, p = stack.pop()
            if x[0] == "not":
                stack.append((x[1], not p))
            elif x[0] == "bin" and x[1] == "&&" and p:
                stack += [(x[2], True), (x[3], True)]
            elif x[0] == "bin" and x[1] == "||" and not p:
                stack += [(x[2], False), (x[3], False)]
            else:
                h = q.as_has(x)
                if h is not None and h[0] == m and h[1] == k:
                    return p
    return None


def validate_fn(prog):
    import workers
    return workers.worker_of(prog, UTILS + "validate_props_and_rename_vars")


def collect_fn(prog):
    import workers
    return workers.worker_of(prog, "mc_utils::collect_unique_hctl_vars")


class VState:
    """What the recursive validator is a function of: the tree, the symbolic context, and its *state* - the scope map
    (HashMap<String, String>) and the last used name (String), passed as two parameters or bundled in a struct.  The rules talk about
    the two state places, wherever they live."""

    def __init__(self, prog, f):
        pn, tys = f.param_names(), list(f.param_tys)
        self.ok, self.why = False, ""
        self.prog = prog
        self.tys = list(f.param_tys)
        self.shared = []
        self.fpath = f.path
        self.n = len(pn)
        self.nz = None
        tree_i = [i for i, t in enumerate(tys) if t.endswith("HctlTreeNode") and not t.startswith("&mut")]
        ctx_i = [i for i, t in enumerate(tys) if "SymbolicContext" in t and not t.startswith("&mut")]
        if len(tree_i) != 1 or len(ctx_i) != 1:
            self.why = "expected exactly one tree and one symbolic-context parameter"
            return
        self.tree_i, self.ctx_i = tree_i[0], ctx_i[0]
        self.tree, self.ctx = ("param", pn[self.tree_i]), ("param", pn[self.ctx_i])
        places = []
        for i, (p, t) in enumerate(zip(pn, tys)):
            if i in (self.tree_i, self.ctx_i):
                continue
            if t.startswith("&mut"):
                # shared mutable state: admissible only if every successful call restores it (verified per shape, see `restores`)
                self.shared.append(p)
                t = t[len("&mut"):].strip()
            base = t.lstrip("&").strip()
            adt = prog.adt(base) if hasattr(prog, "adt") else None
            if adt is not None and adt.get("kind") == "struct" and adt.get("variants"):
                for fld in adt["variants"][0]["fields"]:
                    places.append((i, ("field", ("param", p), fld["name"]), fld["ty"]))
            else:
                places.append((i, ("param", p), base))
        maps = [x for x in places if "HashMap<std::string::String, std::string::String" in x[2] or "BTreeMap<std::string::String, std::string::String" in x[2]]
        names = [x for x in places if x[2] in ("std::string::String", "String")]
        extra = [x for x in places if x not in maps and x not in names]
        if len(maps) != 1 or len(names) != 1 or extra:
            self.why = f"the state is {[(terms.pt(x[1]), x[2][:40]) for x in places]}: expected exactly one scope map and one name"
            return
        self.scope_i, self.scope = maps[0][0], maps[0][1]
        self.name_i, self.name = names[0][0], names[0][1]
        self.ok = True

    def arity(self, a):
        return len(a) == self.n

    def unframe(self, t, memo=None):
        """Induction hypothesis for shared state: a recursive call that returns Ok leaves the state as it found it, so
        `mut(X <- validate(..))` (X after the call) is X.  (Whatever follows a recursive call is only reached when it returned Ok:
        rule R2 checks that every recursive result is propagated with `?`.)"""
        if not self.shared:
            return t
        if memo is None:
            memo = {}
        if not isinstance(t, tuple) or not t:
            return t
        hit = memo.get(id(t))
        if hit is not None and hit[0] is t:
            return hit[1]
        r = tuple(self.unframe(x, memo) if isinstance(x, tuple) else x for x in t)
        if r[0] == "mut" and r[2][0] in ("call", "rec") and isinstance(r[2][1], str) and r[2][1] == self.fpath:
            r = r[1]
        elif all(a is b for a, b in zip(r, t)):
            r = t
        memo[id(t)] = (t, r)
        return r

    def undo(self, t, conds):
        """insert(k, v) then remove(k) on a map that did not have k, and push(c) then pop(), leave the value as it was.  Effects on
        different fields of a shared struct commute, so the pairs are looked for field by field."""
        chain = []
        base = t
        while isinstance(base, tuple) and base and base[0] == "mut" and len(chain) < 16:
            chain.append((base[2], tuple(base[3]) if len(base) > 3 else ()))
            base = base[1]
        chain.reverse()                 # oldest effect first
        paths = {p for _, p in chain}
        if any(a != b and a == b[:len(a)] for a in paths for b in paths):
            return t                    # an effect on a whole value and one on a part of it do not commute
        left = []
        for path in sorted(paths):
            place = base
            for f in path:
                place = terms.mk_field(place, f)
            stack = []
            for eff, p in chain:
                if p != path:
                    continue
                l = eff[1].rsplit("::", 1)[-1] if eff[0] == "call" and isinstance(eff[1], str) else None
                top = stack[-1] if stack else None
                lt = top[1].rsplit("::", 1)[-1] if top is not None and top[0] == "call" and isinstance(top[1], str) else None
                if l == "pop" and not eff[2] and lt == "push" and len(top[2]) == 1:
                    stack.pop()
                    continue
                if l == "remove" and len(eff[2]) == 1 and lt == "insert" and len(top[2]) == 2 and top[2][0] == eff[2][0] and len(stack) == 1:
                    k = eff[2][0]
                    if any(q.as_has(cnd) is not None and not pol and q.as_has(cnd)[1] == k and q.as_has(cnd)[0] in (place, base) for cnd, pol in conds):
                        stack.pop()
                        continue
                stack.append(eff)
            left += [(e, path) for e in stack]
        if not left:
            return base
        if len(left) == len(chain):
            return t
        out = base
        for eff, path in left:
            out = ("mut", out, eff, path)
        return out

    def child_of(self, a):
        return a[self.tree_i]

    def ctx_of(self, a):
        return a[self.ctx_i]

    def _place(self, a, i, place):
        v = a[i]
        if place[0] == "field":
            if v[0] == "call" and isinstance(v[1], str) and v[1].endswith("::default") and not v[2]:
                ty = self.tys[i].lstrip("&").strip()
                d = self.prog.resolve_local("biodivine_hctl_model_checker", v[1]) or \
                    self.prog.resolve_local("biodivine_hctl_model_checker", f"<{ty} as std::default::Default>::default")
                if d is not None and d.derived:
                    # #[derive(Default)]: every field is its type's default value
                    return ("call", "std::default::Default::default", ())
            v = terms.mk_field(v, place[2])
            if self.nz is not None:
                v = self.nz(v)
        return v

    def scope_of(self, a):
        return self._place(a, self.scope_i, self.scope)

    def name_of(self, a):
        return self._place(a, self.name_i, self.name)


def is_rec(t, fn_suffix, args_pred):
    """t == proj(rec-call(args), Ok, 0) (the `?` of a recursive call) with args satisfying args_pred."""
    if t[0] == "proj" and str(t[2]).rsplit("::", 1)[-1] == "Ok" and t[3] == 0:
        c = t[1]
        if c[0] in ("call", "rec") and isinstance(c[1], str) and c[1].endswith(fn_suffix):
            return args_pred(c[2])
    return False


def name_plus_x(t, name):
    """t is `name` extended by exactly one 'x' (push / push_str / format!("{name}x") / name + "x")."""
    if t[0] == "mut" and t[1] == name and t[2][0] == "call" and isinstance(t[2][1], str) and t[2][1].rsplit("::", 1)[-1] in ("push", "push_str") \
            and t[2][2] == (("lit", "x"),):
        return True
    import render
    pieces = render.string_pieces(t)
    if len(pieces) == 2 and isinstance(pieces[0], tuple) and pieces[0][1] == name and pieces[1] == "x":
        return True
    return False


def scope_plus(t, scope, var, name):
    """t is `scope` with exactly one more binding var -> name' (name' = name + 'x'); returns name' or None."""
    if t[0] == "mut" and t[1] == scope and t[2][0] == "call" and isinstance(t[2][1], str) and t[2][1].rsplit("::", 1)[-1] == "insert" and len(t[2][2]) == 2:
        k, v = t[2][2]
        if k == var and name_plus_x(v, name):
            return v
    return None


def run(prog, rep):
    rep.explanation = __doc__
    rep.assumptions = []
    for r, t in (("C07-R1", "validator(shape) == specification for every node shape"), ("C07-R2", "errors of recursive calls are propagated"),
                 ("C07-R3", "the validator has no hidden state"), ("C07-R4", "evaluation only of validated trees, after the support check")):
        rep.rule(r, t)
    f = validate_fn(prog)
    if f is None:
        rep.unresolved("C07-R1", "validate_and_rename_recursive", "", "the recursive validator behind validate_props_and_rename_vars was not found")
        return
    rep.functions.add(f.qual)
    where = f"{f.file}:{f.line}"
    pn = f.param_names()
    vs = VState(prog, f)
    rep.check(vs.ok, "C07-R3", "validate/params", where,
              "parameters: the tree, the context, and by-value state consisting of exactly one scope map and one last-used name",
              f"parameters are {list(zip(pn, [t[:50] for t in f.param_tys]))}: {vs.why}; extra or shared mutable state lets the result for a node depend on what was "
              "processed before (a callee can leak bindings into a sibling)")
    if not vs.ok:
        return
    tree, scope, name, ctx = vs.tree, vs.scope, vs.name, vs.ctx
    VALIDATE = f.path
    eng = terms.Engine(prog, inline=True, hooks=E.Hooks([UTILS], opaque_names=[VALIDATE]))
    nz = norm.Normalizer()
    vs.nz = nz

    def strip_prop(t):
        """Drop the exits that merely propagate the error of a recursive call (`rec(..)?`)."""
        if t[0] == "ite":
            a, b = strip_prop(t[2]), strip_prop(t[3])
            pa = a[0] == "ctor" and str(a[1]).rsplit("::", 1)[-1] == "Err" and a[2] and a[2][0][0] == "proj" and str(a[2][0][2]).rsplit("::", 1)[-1] == "Err" \
                and a[2][0][1][0] in ("call", "rec")
            pb = b[0] == "ctor" and str(b[1]).rsplit("::", 1)[-1] == "Err" and b[2] and b[2][0][0] == "proj" and str(b[2][0][2]).rsplit("::", 1)[-1] == "Err" \
                and b[2][0][1][0] in ("call", "rec")
            # (what made the propagation branch impossible is known in the branch that is kept)
            if pa and not pb:
                return nz(terms.assume(b, [("if", t[1], False)]))
            if pb and not pa:
                return nz(terms.assume(a, [("if", t[1], True)]))
            return ("ite", t[1], a, b)
        return t

    def spec(shape):
        s = eng.specialise(f, {pn[vs.tree_i]: E.node_term(shape)})
        if s is None:
            return None, None
        # the full value: exits taken by `?` included (a check delegated to a helper that is called with `?` is still a check)
        full = getattr(s, "ret_full", None) or s.ret
        full = nz(partial.simplify(vs.unframe(result_combinators(full, f.path))))
        if vs.shared:
            check_restored(shape, s, full)
        return s, nz(strip_prop(full))

    restored_keys = set()

    def check_restored(shape, s, full):
        """Shared (&mut) state: on every exit that returns Ok, the scope map and the name are what they were on entry."""
        key = sem.short(shape[2][0] if shape[0] == "ctor" and shape[2] else shape, 40) if isinstance(shape, tuple) else str(shape)
        key = terms.pt(shape)[:60]
        if key in restored_keys:
            return
        restored_keys.add(key)
        for place, pname in ((vs.scope, pn[vs.scope_i]), (vs.name, pn[vs.name_i])):
            if pname not in vs.shared:
                continue
            out = getattr(s, "mut_out", {}).get(pname)
            good, why = True, ""
            if out is not None:
                out = nz(partial.simplify(vs.unframe(out)))
                for cs, leaf in leaves(out):
                    if any((c_, not p_) in cs for c_, p_ in cs):
                        continue                      # the same test with both outcomes: no execution takes this path
                    pcs = [("if", c_, p_) for c_, p_ in cs]
                    val = nz(terms.assume(full, pcs))
                    lv = leaves(val)
                    if lv and all(err(x) for _, x in lv):
                        continue                      # the call fails on this path: the state is dropped by the caller of the recursion
                    fin = nz(vs.undo(leaf, list(cs)))
                    if fin != ("param", pname):
                        good, why = False, f"on a successful exit `{pname}` is left as {sem.short(fin, 160)}"
            rep.check(good, "C07-R3", f"validate/restore:{pname}:{key}", where,
                      "shared state is restored on every successful exit (induction over the tree: recursive calls restore it, this node undoes its own change)",
                      f"the validator shares `{pname}` with its callers (&mut) and does not restore it: {why}; what a sibling sub-formula sees then depends on what was "
                      "processed before")

    def report(key, good, detail_ok, detail_bad):
        rep.check(good, "C07-R1", key, where, detail_ok, detail_bad)

    NT, AT_ = E.NT, E.ATOM
    c, l, r = ("param", "#c"), ("param", "#l"), ("param", "#r")
    v = ("lit", "v")
    # ---- Var
    s, t = spec(E.shape_atom("Var", v))
    good = t is not None
    why = "could not be evaluated"
    if good:
        lv = leaves(t)
        good = bool(lv)
        for conds, leaf in lv:
            h = has_cond(conds, scope, v)
            if ok(leaf):
                mk = leaf[2][0]
                g = mk[0] == "call" and mk[1].endswith("mk_variable") and q.as_at(mk[2][0]) == (scope, v) and h is True
                if not g:
                    good, why = False, f"accepts with {sem.short(leaf, 120)} under scope-has-v={h}"
            elif err(leaf):
                if h is not False:
                    good, why = False, "returns Err although the variable is bound (or without testing the scope)"
            else:
                good, why = False, f"returns {sem.short(leaf, 100)}"
        good = good and any(ok(x) for _, x in lv) and any(err(x) for _, x in lv)
    report("shape:Var", good, "Var(v): Ok(mk_variable(scope[v])) iff scope has v, else Err", f"variable occurrence: {why}")
    # ---- Prop
    p = ("lit", "p")
    s, t = spec(E.shape_atom("Prop", p))
    good = t is not None
    why = "could not be evaluated"
    if good:
        lv = leaves(t)
        for conds, leaf in lv:
            found = None
            for cnd, pol in conds:
                x = q.is_some_test(cnd)
                if x is not None and x[0] == "call" and x[1].endswith("find_network_variable") and x[2] == (ctx, p):
                    found = pol
            if ok(leaf):
                if not (found is True and leaf[2][0] == E.node_term(E.shape_atom("Prop", p))):
                    good, why = False, f"accepts {sem.short(leaf, 100)} under is-network-variable={found}"
            elif err(leaf):
                if found is not False:
                    good, why = False, "rejects a proposition that names a network variable (or without looking it up)"
            else:
                good, why = False, f"returns {sem.short(leaf, 100)}"
        good = good and any(ok(x) for _, x in lv) and any(err(x) for _, x in lv)
    report("shape:Prop", good, "Prop(p): Ok(tree) iff find_network_variable(p) is some", f"proposition: {why}")
    # ---- constants / wild-card
    for kind, payload in (("True", None), ("False", None), ("WildCardProp", ("lit", "w"))):
        sh = E.shape_atom(kind, payload) if payload else E.shape_atom(kind)
        s, t = spec(sh)
        good = t is not None and ok(t) and t[2][0] == E.node_term(sh)
        report(f"shape:{kind}", good, f"{kind}: Ok(tree)", f"{kind} terminal: returns {sem.short(t, 120) if t else None}")
    # ---- Unary / Binary
    same_scope = lambda a, ch: vs.arity(a) and vs.child_of(a) == ch and vs.scope_of(a) == scope and vs.name_of(a) == name and vs.ctx_of(a) == ctx      # noqa: E731
    for op in ("Not", "AG"):
        opc = ("ctor", E.UOP + op, ())
        s, t = spec(E.shape_unary(op, c))
        good = t is not None and ok(t)
        if good:
            mk = t[2][0]
            good = mk[0] == "call" and mk[1].endswith("mk_unary") and is_rec(mk[2][0], VALIDATE, lambda a: same_scope(a, c)) and mk[2][1] == opc
        report(f"shape:Unary[{op}]", good, "Unary(op, c): Ok(mk_unary(rec(c, scope, name)?, op))", f"unary node: returns {sem.short(t, 200) if t else None}")
        check_tries(rep, s, f"Unary[{op}]", 1, where, VALIDATE)
    for op in ("And", "EU"):
        opc = ("ctor", E.BOP + op, ())
        s, t = spec(E.shape_binary(op, l, r))
        good = t is not None and ok(t)
        if good:
            mk = t[2][0]
            good = (mk[0] == "call" and mk[1].endswith("mk_binary") and is_rec(mk[2][0], VALIDATE, lambda a: same_scope(a, l))
                    and is_rec(mk[2][1], VALIDATE, lambda a: same_scope(a, r)) and mk[2][2] == opc)
        report(f"shape:Binary[{op}]", good, "Binary(op, l, r): Ok(mk_binary(rec(l, scope, name)?, rec(r, scope, name)?, op)) - both children see the parent's scope",
               f"binary node: returns {sem.short(t, 260) if t else None}")
        check_tries(rep, s, f"Binary[{op}]", 2, where, VALIDATE)
    # ---- hybrid
    var = ("lit", "z")
    for dom_name, dom in (("none", None), ("dom", ("lit", "d"))):
        domt = ("ctor", E.NONE, ()) if dom is None else ("ctor", E.SOME, (dom,))
        for op in ("Bind", "Exists", "Forall"):
            opc = ("ctor", E.HOP + op, ())
            s, t = spec(E.shape_hybrid(op, var, dom, c))
            good = t is not None
            why = "could not be evaluated"
            if good:
                lv = leaves(t)
                for conds, leaf in lv:
                    h = has_cond(conds, scope, var)
                    if ok(leaf):
                        mk = leaf[2][0]
                        g = mk[0] == "call" and mk[1].endswith("mk_hybrid") and len(mk[2]) == 4 and mk[2][2] == domt and mk[2][3] == opc and h is False
                        newname = None
                        if g:
                            g = is_rec(mk[2][0], VALIDATE,
                                       lambda a: vs.arity(a) and vs.child_of(a) == c and scope_plus(vs.scope_of(a), scope, var, name) is not None
                                       and vs.name_of(a) == scope_plus(vs.scope_of(a), scope, var, name) and vs.ctx_of(a) == ctx)
                        if g:
                            child_scope = vs.scope_of(mk[2][0][1][2])
                            newname = scope_plus(child_scope, scope, var, name)
                            renamed = nz(partial.simplify(mk[2][1]))
                            g = renamed == newname or q.as_at(renamed) == (child_scope, var)
                        if not g:
                            good, why = False, f"accepts with {sem.short(leaf, 200)} under already-bound={h}"
                    elif err(leaf):
                        if h is not True:
                            good, why = False, "returns Err although the variable is not bound yet (or without testing the scope)"
                    else:
                        good, why = False, f"returns {sem.short(leaf, 100)}"
                good = good and any(ok(x) for _, x in lv) and any(err(x) for _, x in lv)
            report(f"shape:{op}[{dom_name}]", good,
                   f"{op}: Err if re-quantified, else child validated in scope+{{var->name+'x'}} and rebuilt with the new name, same domain",
                   f"{op} node: {why}")
            check_tries(rep, s, f"{op}[{dom_name}]", 1, where, VALIDATE)
    s, t = spec(E.shape_hybrid("Jump", var, None, c))
    good = t is not None
    why = "could not be evaluated"
    if good:
        lv = leaves(t)
        for conds, leaf in lv:
            h = has_cond(conds, scope, var)
            if ok(leaf):
                mk = leaf[2][0]
                g = (mk[0] == "call" and mk[1].endswith("mk_hybrid") and len(mk[2]) == 4 and mk[2][3] == ("ctor", E.HOP + "Jump", ())
                     and is_rec(mk[2][0], VALIDATE, lambda a: same_scope(a, c)) and q.as_at(nz(mk[2][1])) == (scope, var) and h is True)
                if not g:
                    good, why = False, f"accepts with {sem.short(leaf, 200)} under target-bound={h}"
            elif err(leaf):
                if h is not False:
                    good, why = False, "returns Err although the jump target is bound"
            else:
                good, why = False, f"returns {sem.short(leaf, 100)}"
        good = good and any(ok(x) for _, x in lv) and any(err(x) for _, x in lv)
    report("shape:Jump", good, "Jump: child validated in the unchanged scope; Ok(mk_hybrid(.., scope[var], .., Jump)) iff the target is bound", f"jump node: {why}")
    check_tries(rep, s, "Jump", 1, where, VALIDATE)
    rep.floor("C07-R1", 16)
    rep.floor("C07-R2", 11)
    check_collection_and_support(prog, rep)
    check_pass_through(prog, rep)


def result_combinators(t, vpath, memo=None):
    """`validate(child, ..).map(|node| rebuild(node))` on the recursive call (a Result): Ok(rebuild(node)) when the call succeeded, its
    error otherwise - the same value as `rebuild(validate(child, ..)?)` wrapped in Ok."""
    if memo is None:
        memo = {}
    if not isinstance(t, tuple) or not t:
        return t
    hit = memo.get(id(t))
    if hit is not None and hit[0] is t:
        return hit[1]
    r = tuple(result_combinators(x, vpath, memo) if isinstance(x, tuple) else x for x in t)
    if r[0] == "hof" and r[1] in ("map", "and_then") and r[2][0] in ("call", "rec") and isinstance(r[2][1], str) and r[2][1] == vpath:
        recv, body = r[2], r[3]
        okp = ("proj", recv, norm.OK, 0)
        body2 = terms.replace(terms.replace(body, ("proj", recv, norm.SOME, 0), okp), ("payload", recv), okp)
        good = ("ctor", norm.OK, (body2,)) if r[1] == "map" else body2
        r = ("ite", ("matches", recv, norm.OK_DESC), good, ("ctor", "std::prelude::v1::Err", (("proj", recv, "std::prelude::v1::Err", 0),)))
    elif len(r) == len(t) and all(a is b for a, b in zip(r, t)):
        r = t
    memo[id(t)] = (t, r)
    return r


def check_tries(rep, s, key, n, where, vpath="validate_and_rename_recursive"):
    """The `?` exits of the specialised validator propagate exactly the recursive calls' results."""
    if s is None:
        rep.unresolved("C07-R2", f"propagate:{key}", where, "not evaluated")
        return
    tries = [r for r in s.returns if r[5] == "try" and r[0][0] in ("call", "rec") and isinstance(r[0][1], str) and r[0][1].endswith(vpath)]
    if len(tries) != n:
        # the `?` may live in a helper that was inlined: then the exit is part of the value - a leaf Err(e) with e the error of a recursive call
        full = getattr(s, "ret_full", None) or s.ret
        full = result_combinators(full, next((r_[0][1] for r_ in s.returns if r_[0][0] in ("call", "rec") and isinstance(r_[0][1], str) and r_[0][1].endswith(vpath)),
                                             next((y[1] for y in subterms(full) if y[0] in ("call", "rec") and isinstance(y[1], str) and y[1].endswith(vpath)), vpath)))
        props = set()
        for x in [full] + list(subterms(full)):
            if x[0] == "ctor" and str(x[1]).rsplit("::", 1)[-1] == "Err" and len(x[2]) == 1 and x[2][0][0] == "proj" and str(x[2][0][2]).rsplit("::", 1)[-1] == "Err":
                r_ = x[2][0][1]
                if r_[0] in ("call", "rec") and isinstance(r_[1], str) and r_[1].endswith(vpath):
                    props.add(r_)
        tries = list(props)
    rep.check(len(tries) == n, "C07-R2", f"propagate:{key}", where, f"{n} recursive result(s) propagated with `?`",
              f"{len(tries)} of {n} recursive results are propagated with `?`: an error in a child can be swallowed")


def check_collection_and_support(prog, rep):
    cu = collect_fn(prog)
    if cu is None:
        if not check_worklist_collector(prog, rep):
            rep.unresolved("C07-R4", "collect_unique_hctl_vars_recursive", "", "the recursive collector behind collect_unique_hctl_vars was not found")
            return
    else:
        check_recursive_collector(prog, rep, cu)
    check_support(prog, rep)


def check_worklist_collector(prog, rep):
    """The collector written as a loop over an explicit work-list: the same per-shape statement (children visited, variable recorded
    exactly for bind / exists / forall, nothing dropped) over the loop body."""
    import worklist
    pub = prog.lib_fn("mc_utils::collect_unique_hctl_vars")
    if pub is None:
        return False
    s = terms.Engine(prog, inline=True, hooks=E.Hooks(["mc_utils::"])).summary(pub)
    root = ("param", pub.param_names()[0])
    tr = worklist.Traversal(s, root)
    if not tr.ok:
        return False
    rep.functions.add(pub.qual)
    nz = norm.Normalizer()
    acc = s.ret
    while isinstance(acc, tuple) and acc[0] == "call" and str(acc[1]).rsplit("::", 1)[-1] in ("clone", "into") and len(acc[2]) == 1:
        acc = acc[2][0]
    # the result is the accumulator of the traversal, starting empty
    acc_ok = isinstance(acc, tuple) and acc[0] == "mu" and acc[1] == tr.lid and acc[3][0] == "call" and \
        str(acc[3][1]).rsplit("::", 1)[-1] in ("new", "default", "with_capacity")
    accvar = ("loopvar", tr.lid, acc[2]) if acc_ok else None
    c, l, r = ("param", "#c"), ("param", "#l"), ("param", "#r")
    where = f"{pub.file}:{pub.line}"
    cases = [("Terminal", E.shape_atom("Prop", ("lit", "p")), [], None), ("Unary", E.shape_unary("EX", c), [c], None),
             ("Binary", E.shape_binary("And", l, r), [l, r], None)]
    for op in ("Bind", "Exists", "Forall", "Jump"):
        cases.append((op, E.shape_hybrid(op, ("lit", "z"), None, c), [c], ("lit", "z") if op in QUANT else None))

    def unbox(t):
        while isinstance(t, tuple) and t and t[0] == "call" and str(t[1]).rsplit("::", 1)[-1] in ("deref", "clone", "as_ref", "borrow") and len(t[2]) == 1:
            t = t[2][0]
        return t
    for name, shape, kids, var in cases:
        node = E.node_term(shape)
        on = [(x, tr.on_shape(x, node, nz)) for x in tr.pushes + tr.sites]
        und = [x for x, v in on if v is None and (x in tr.pushes or (x.kind == "mcall" and x.args and worklist.strip_mut(x.args[0]) == accvar))]
        if und or not acc_ok:
            rep.unresolved("C07-R4", f"collect:{name}", where, "the path taken by the work-list loop for this node shape could not be decided" if und
                           else "the result is not the accumulator of the traversal")
            continue
        visited = [unbox(nz(tr.on_node(x.args[1], node))) for x, v in on if v and x in tr.pushes]
        touched = [x for x, v in on if v and x not in tr.pushes and x.kind in ("mcall", "call") and x.args and worklist.strip_mut(x.args[0]) == accvar]
        inserted = [nz(tr.on_node(x.args[1], node)) for x in touched if x.name == "insert" and len(x.args) == 2]
        good = sorted(map(repr, visited)) == sorted(map(repr, kids)) and inserted == ([var] if var else []) and len(touched) == len(inserted)
        rep.check(good, "C07-R4", f"collect:{name}", where,
                  "every child is visited; the variable is collected exactly for bind / exists / forall; earlier findings are kept (work-list traversal)",
                  f"for a {name} node: visited children {[sem.short(x, 30) for x in visited]}, collected {[sem.short(x, 30) for x in inserted]}; "
                  f"expected children {[sem.short(x, 30) for x in kids]}, collected {[sem.short(var, 30)] if var else []}")
    return True


def check_recursive_collector(prog, rep, cu):
    rep.functions.add(cu.qual)
    pn = cu.param_names()
    COLLECT = cu.path
    eng = terms.Engine(prog, inline=True, hooks=E.Hooks(["mc_utils::"], opaque_names=[COLLECT]))
    seen = ("param", pn[1])
    c, l, r = ("param", "#c"), ("param", "#l"), ("param", "#r")

    def facts_of(shape):
        s = eng.specialise(cu, {pn[0]: E.node_term(shape)})
        if s is None:
            return None, None, None
        recs = [x for x in s.all_sites() if x.kind == "call" and prog.resolve_local(cu.crate, x.callee) is cu]
        ins = [x for x in s.all_sites() if x.kind == "mcall" and x.name == "insert"]
        return s, recs, ins
    where = f"{cu.file}:{cu.line}"
    cases = [("Terminal", E.shape_atom("Prop", ("lit", "p")), [], None), ("Unary", E.shape_unary("EX", c), [c], None),
             ("Binary", E.shape_binary("And", l, r), [l, r], None)]
    for op in ("Bind", "Exists", "Forall", "Jump"):
        cases.append((op, E.shape_hybrid(op, ("lit", "z"), None, c), [c], ("lit", "z") if op in QUANT else None))
    for name, shape, kids, var in cases:
        s, recs, ins = facts_of(shape)
        if s is None:
            rep.unresolved("C07-R4", f"collect:{name}", where, "not evaluated")
            continue
        visited = [x.args[0] for x in recs]
        inserted = [x.args[1] for x in ins if len(x.args) >= 2]
        good = sorted(map(repr, visited)) == sorted(map(repr, kids)) and (inserted == ([var] if var else []))
        # the accumulated set: the returned value, or what is left in a `&mut` accumulator
        acc = s.mut_out.get(pn[1]) if getattr(s, "mut_out", None) and pn[1] in s.mut_out else s.ret
        if acc is None or acc == ("unit",) or acc == terms.UNIT:
            acc = seen if not kids and not var else acc
        merged = [y for y in [acc] + list(subterms(acc)) if y[0] in ("call", "rec") and isinstance(y[1], str) and y[1] == COLLECT] \
            if isinstance(acc, tuple) else []
        ret_ok = isinstance(acc, tuple) and (terms.mentions_param(acc, pn[1]) or acc == seen) and \
            all(any(k in (m[2] or ()) for m in merged) for k in kids)
        rep.check(good and ret_ok, "C07-R4", f"collect:{name}", where,
                  "every child is visited; the variable is collected exactly for bind / exists / forall; earlier findings are kept",
                  f"for a {name} node: visited children {[sem.short(x, 30) for x in visited]}, collected {[sem.short(x, 30) for x in inserted]}; "
                  f"expected children {[sem.short(x, 30) for x in kids]}, collected {[sem.short(var, 30)] if var else []}")


def check_support(prog, rep):
    chk = prog.lib_fn("mc_utils::check_hctl_var_support")
    if chk is None:
        rep.unresolved("C07-R4", "check_hctl_var_support", "", "function not found")
        return
    rep.functions.add(chk.qual)
    # (private helpers of the module are inlined)
    helpers = [g.path for g in prog.lib_fns() if g.path.startswith("mc_utils::") and g.vis != "Public" and g is not collect_fn(prog)]
    s = terms.Engine(prog, inline=True, hooks=E.Hooks([], inline_names=helpers)).summary(chk)
    cpn = chk.param_names()
    t = s.ret
    # false iff  #collected variables > #extra variable sets of some network variable:  either an explicit loop with `return false`,
    # or `variables().all(|v| n <= extra(v).len())`
    txt = pt(t)
    uses = "collect_unique_hctl_vars" in txt and "extra_state_variables" in txt and "len(" in txt
    good = False
    for x in [t] + list(subterms(t)):
        if x[0] == "hof" and x[1] == "all":
            b = x[3]
            neg = False
            while b[0] == "not":
                neg, b = not neg, b[1]
            if b[0] == "bin" and "collect_unique_hctl_vars" in pt(b) and "extra_state_variables" in pt(b):
                lhs_is_count = "collect_unique_hctl_vars" in pt(b[2])
                op = b[1]
                holds = (op in ("<=",) and lhs_is_count) or (op in (">=",) and not lhs_is_count)
                fails = (op in (">",) and lhs_is_count) or (op in ("<",) and not lhs_is_count)
                good = (holds and not neg) or (fails and neg)
    import tokspec
    exits = [(r[0], list(q.conds(r[1]))) for r in s.returns]
    exits += [(leaf, list(cs)) for cs, leaf in tokspec.leaves(t)]          # the same exits when the loop lives in an inlined helper
    for val, cnds in exits:
        if val == ("lit", False):
            for cnd, pol in cnds:
                if cnd[0] == "bin" and "collect_unique_hctl_vars" in pt(cnd) and "extra_state_variables" in pt(cnd):
                    lhs_is_count = "collect_unique_hctl_vars" in pt(cnd[2])
                    if pol and ((cnd[1] == ">" and lhs_is_count) or (cnd[1] == "<" and not lhs_is_count)):
                        good = True
                    if not pol and ((cnd[1] == "<=" and lhs_is_count) or (cnd[1] == ">=" and not lhs_is_count)):
                        good = True
    # `n <= min over the variables of extra(v).len()` (true when there is no variable): the same comparison against the smallest count
    nzt = norm.Normalizer()(t)
    for x in [nzt] + list(subterms(nzt)):
        if x[0] == "bin" and x[1] in ("<=", ">=", "<", ">") and "collect_unique_hctl_vars" in pt(x) and "extra_state_variables" in pt(x):
            lhs_is_count = "collect_unique_hctl_vars" in pt(x[2])
            other = x[3] if lhs_is_count else x[2]
            mn = other[1] if other[0] == "proj" else other
            is_min = mn[0] == "call" and isinstance(mn[1], str) and mn[1].rsplit("::", 1)[-1] == "min" and len(mn[2]) == 1 and "extra_state_variables" in pt(mn[2][0])
            if is_min and ((x[1] == "<=" and lhs_is_count) or (x[1] == ">=" and not lhs_is_count)):
                # the value is `no variable || n <= min`
                top = nzt
                ok_none = top[0] == "bin" and top[1] == "||" and any(y[0] == "not" and q.is_some_test(y[1]) == mn for y in (top[2], top[3]))
                good = good or ok_none or top == x
    rep.check(good and uses and terms.mentions_param(t, cpn[1]) if len(cpn) > 1 else False, "C07-R4", "check_hctl_var_support", f"{chk.file}:{chk.line}",
              "false iff #quantifier variables of the tree > #spare variable sets of some network variable",
              f"support check computes {sem.short(t, 200)}: it must compare the number of collected variables with the number of spare variable sets of every network variable")


_RAW = {}


def is_support_check(prog, ep, site):
    """The site calls check_hctl_var_support, or a crate-internal wrapper of it (e.g. a variant that borrows the tree and clones it)."""
    if site.is_call_to("check_hctl_var_support"):
        return True
    if isinstance(site.term, tuple) and site.term[:1] == ("call",) and str(site.term[1]).endswith("check_hctl_var_support"):
        return True
    g = prog.resolve_local(ep.crate, site.callee) if isinstance(site.callee, str) else None
    if g is None or g.vis == "Public" or not g.path.startswith("mc_utils::"):
        return False
    raw = _RAW.setdefault(id(prog), terms.Engine(prog, inline=False))
    r = raw.summary(g).ret
    while isinstance(r, tuple) and r and r[0] == "call" and isinstance(r[1], str) and r[1].rsplit("::", 1)[-1] in ("clone",) and len(r[2]) == 1:
        r = r[2][0]
    pn = g.param_names()
    return isinstance(r, tuple) and r[:1] == ("call",) and str(r[1]).endswith("check_hctl_var_support") and len(r[2]) == 2 and len(pn) == 2 \
        and r[2][0] == ("param", pn[0]) and pm_strip(r[2][1]) == ("param", pn[1])


def pm_strip(t):
    while isinstance(t, tuple) and t and t[0] == "call" and isinstance(t[1], str) and t[1].rsplit("::", 1)[-1] in ("clone", "to_owned", "borrow", "deref") and len(t[2]) == 1:
        t = t[2][0]
    return t


def check_pass_through(prog, rep):
    deng = terms.Engine(prog, inline=True, hooks=E.Hooks(["model_checking::", "preprocessing::parser::parse_and_minimize"]))
    for ep in pipelines.entry_points(prog):
        strs = [t for t in ep.param_tys if "str" in t]
        if not strs:
            continue
        sm = deng.summary(ep)
        evs = pipelines.eval_sites(sm)
        good = bool(evs)
        for ev in evs:
            node = ev.args[0]
            vals = [y for y in [node] + list(subterms(node)) if y[0] == "call" and y[1].endswith("validate_props_and_rename_vars")]
            if not vals or not any(z[0] == "call" and ("parse_hctl_formula" in z[1] or "parse_extended_formula" in z[1]) for z in subterms(vals[0])):
                good = False
        # (a crate-internal borrowed variant of the check is presented through the public function it wraps: see terms.ApiForms)
        sup = [x for x in sm.all_sites() if x.kind == "call" and is_support_check(prog, ep, x)]
        good = good and bool(sup)
        rep.check(good, "C07-R4", f"{ep.name}/validated", f"{ep.file}:{ep.line}", "evaluates validate_props_and_rename_vars(parse(formula)) after the support check",
                  "a tree reaches eval_node without passing validate_props_and_rename_vars / check_hctl_var_support")
    an = prog.lib_fn("analysis::analyse_formulae")
    if an is not None:
        import pipelines as _pl
        sm = _pl.analysis_engine(prog).summary(an)
        evs = pipelines.eval_sites(sm)
        good = bool(evs)
        for ev in evs:
            node = ev.args[0]
            if not any(y[0] == "call" and y[1].endswith("validate_props_and_rename_vars") for y in [node] + list(subterms(node))):
                good = False
        rep.check(good, "C07-R4", "analyse_formulae/validated", f"{an.file}:{an.line}", "the command-line analysis evaluates validated trees",
                  "analyse_formulae evaluates trees that did not pass validate_props_and_rename_vars")
    vp = prog.lib_fn(UTILS + "validate_props_and_rename_vars")
    if vp is not None:
        # (helpers of the module inlined: a constructor of the bundled state is seen through)
        fv = validate_fn(prog)
        VALIDATE = fv.path if fv is not None else UTILS + "validate_and_rename_recursive"
        s = terms.Engine(prog, inline=True, hooks=E.Hooks([UTILS], opaque_names=[VALIDATE])).summary(vp)
        calls = [x for x in s.sites if x.kind == "call" and fv is not None and prog.resolve_local(vp.crate, x.callee) is fv]
        pn = vp.param_names()
        vs = VState(prog, fv) if fv is not None else None
        good = len(calls) == 1 and vs is not None and vs.ok and vs.arity(calls[0].args)
        if good:
            vs.nz = norm.Normalizer()
            a = calls[0].args
            good = vs.child_of(a) == ("param", pn[0]) and terms.is_fresh_collection(vs.scope_of(a)) and terms.is_fresh_collection(vs.name_of(a)) \
                and vs.ctx_of(a) == ("param", pn[1]) and norm.Normalizer()(s.ret) in (
                    norm.Normalizer()(calls[0].term),
                    # `Ok(rec(..)?)`: the same success value (only the error may be converted on the way out)
                    norm.Normalizer()(("ctor", "std::prelude::v1::Ok", (("proj", calls[0].term, "std::prelude::v1::Ok", 0),))))
        rep.check(good, "C07-R4", "validate_props_and_rename_vars/entry", f"{vp.file}:{vp.line}", "starts the validator with an empty scope and an empty name",
                  "the validation entry does not start from an empty scope map and an empty name")
    rep.floor("C07-R4", 26)
