"""Utilities over the resolved HIR facts: program index, re-sugaring of desugared constructs,
generic walkers and a compact pretty-printer (for reports and debugging).

Node kinds after re-sugaring (see driver/src/main.rs for the raw ones):
  for   {pat, iter, body}            (was: match into_iter(..) { mut iter => loop { match next(..) {..} } })
  try   {e}                          (was: match Try::branch(e) { Break(r) => return from_residual(r), Continue(v) => v })
  while {c, body}                    (was: loop { if c { body } else { break } })
Everything else is as emitted by the driver.
"""
import json

LIB = "biodivine_hctl_model_checker"


# ------------------------------------------------------------------------------------------------
# re-sugaring
# ------------------------------------------------------------------------------------------------

def _short(path):
    return path.rsplit("::", 1)[-1] if path else path


def resugar(n):
    """Recursively rewrite desugared `for`, `?`, `while` into dedicated nodes (in place, returns node)."""
    if isinstance(n, list):
        for i, x in enumerate(n):
            n[i] = resugar(x)
        return n
    if not isinstance(n, dict):
        return n
    for k, v in list(n.items()):
        if isinstance(v, (dict, list)):
            n[k] = resugar(v)
    k = n.get("k")
    if k == "match" and n.get("src") == "for":
        # match IntoIterator::into_iter(ITER) { mut iter => loop { match Iterator::next(&mut iter) { None => break, Some(PAT) => BODY } } }
        try:
            it = n["e"]
            assert it["k"] == "call" and it["def"].endswith("IntoIterator::into_iter")
            iter_e = it["args"][0]
            loop = n["arms"][0]["body"]
            assert loop["k"] == "loop"
            inner = loop["stmts"][0]["e"] if loop["stmts"] else loop["expr"]
            assert inner["k"] == "match"
            some_arm = [a for a in inner["arms"] if a["pat"]["k"] in ("pts", "pstruct") and
                        (a["pat"].get("subs") or a["pat"].get("fields"))][0]
            sp = some_arm["pat"]
            pat = sp["subs"][0] if sp["k"] == "pts" else sp["fields"][0]["pat"]
            return {"k": "for", "id": n["id"], "sp": n["sp"], "ty": n.get("ty"), "pat": pat,
                    "iter": iter_e, "body": some_arm["body"], "loop_id": loop["id"]}
        except (AssertionError, KeyError, IndexError):
            n["resugar_failed"] = True
            return n
    if k == "match" and n.get("src") == "try":
        try:
            br = n["e"]
            assert br["k"] == "call" and br["def"].endswith("Try::branch")
            return {"k": "try", "id": n["id"], "sp": n["sp"], "ty": n.get("ty"), "e": br["args"][0]}
        except (AssertionError, KeyError, IndexError):
            n["resugar_failed"] = True
            return n
    if k == "block" and n.get("mac"):
        f = _decode_format(n)
        if f is not None:
            return f
    if k == "call" and n.get("mac") and "fmt::Arguments" in (n.get("def") or "") and n["def"].endswith("::from_str") \
            and n["args"] and n["args"][0].get("k") == "lit":
        return {"k": "fmt", "id": n["id"], "sp": n["sp"], "ty": n.get("ty"), "mac": n.get("mac"),
                "snip": n.get("snip"), "pieces": [n["args"][0]["v"]]}
    if k == "loop" and n.get("src") == "while":
        try:
            iff = n["expr"] if n["expr"] else n["stmts"][0]["e"]
            assert iff["k"] == "if"
            return {"k": "while", "id": n["id"], "sp": n["sp"], "ty": n.get("ty"), "c": iff["c"], "body": iff["t"]}
        except (AssertionError, KeyError, IndexError, TypeError):
            n["resugar_failed"] = True
            return n
    return n


def _decode_format(n):
    """`format_args!` lowering: { let args = (&a0, &a1, ..); let args = [new_display(args.0), ..];
    unsafe { Arguments::new(b"<bytecode>", &args) } }  ->  {k: fmt, pieces: [str | {arg, spec}]}"""
    try:
        stmts = n["stmts"]
        tail = strip_blocks(n["expr"])
        if tail["k"] != "call" or "fmt::Arguments" not in (tail.get("def") or "") or not tail["def"].endswith("::new"):
            return None
        tmpl = tail["args"][0]
        if tmpl.get("lk") != "bytestr":
            return None
        code = tmpl["bytes"]
        tup, arr = [], []
        if len(stmts) == 2:
            tup = [x["e"] if x["k"] == "ref" else x for x in stmts[0]["init"]["es"]]
            for c in stmts[1]["init"]["es"]:
                how = c["def"].rsplit("::", 1)[-1]       # new_display / new_debug / ...
                fld = c["args"][0]
                idx = int(fld["name"])
                arr.append((how, tup[idx]))
        pieces, i, implicit = [], 0, 0
        while i < len(code):
            b = code[i]
            if b == 0:
                break
            if b < 0x80:
                pieces.append(bytes(code[i + 1:i + 1 + b]).decode("utf-8", "replace"))
                i += 1 + b
            elif b == 0x80:
                ln = code[i + 1] | (code[i + 2] << 8)
                pieces.append(bytes(code[i + 3:i + 3 + ln]).decode("utf-8", "replace"))
                i += 3 + ln
            elif b >= 0xC0:
                j = i + 1
                if b & 1:
                    j += 4
                if b & 2:
                    j += 2
                if b & 4:
                    j += 2
                pos = implicit
                if b & 8:
                    pos = code[j] | (code[j + 1] << 8)
                    j += 2
                implicit = pos + 1
                how, e = arr[pos]
                pieces.append({"arg": e, "spec": how.replace("new_", ""), "opts": bool(b & 1)})
                i = j
            else:
                return None
        # merge adjacent literals
        merged = []
        for p in pieces:
            if isinstance(p, str) and merged and isinstance(merged[-1], str):
                merged[-1] += p
            else:
                merged.append(p)
        return {"k": "fmt", "id": n["id"], "sp": n["sp"], "ty": n.get("ty"), "mac": n.get("mac"),
                "snip": n.get("snip"), "pieces": merged}
    except (KeyError, IndexError, ValueError, TypeError):
        return None


def strip_blocks(n):
    while isinstance(n, dict) and n.get("k") == "block" and not n["stmts"] and n.get("expr"):
        n = n["expr"]
    return n


def in_macro(n, name):
    return name in (n.get("mac") or [])


def as_format(n):
    """If `n` is a `format!(..)` / `format_args!` value, return its fmt node."""
    n = strip_blocks(n)
    for _ in range(4):
        if not isinstance(n, dict):
            return None
        if n.get("k") == "fmt":
            return n
        if n.get("k") == "call" and n.get("def") and n["def"].rsplit("::", 1)[-1] in ("must_use", "format") and n["args"]:
            n = strip_blocks(n["args"][0])
            continue
        return None
    return None


# ------------------------------------------------------------------------------------------------
# program index
# ------------------------------------------------------------------------------------------------

class Fn:
    def __init__(self, crate, raw):
        self.crate = crate
        self.raw = raw
        self.path = raw["path"]
        self.name = _short(self.path)
        self.file = raw["file"]
        self.line = raw["line"]
        self.end_line = raw["end_line"]
        self.derived = raw.get("derived", False)
        self.vis = raw.get("vis")
        self.params = raw["params"]
        self.param_tys = raw.get("param_tys", [])
        self.ret = raw.get("ret")
        self.body = raw["body"]
        self.dk = raw.get("dk")

    @property
    def qual(self):
        return f"{self.crate}::{self.path}"

    def param_names(self):
        return [p.get("name") for p in self.params]

    def __repr__(self):
        return f"<Fn {self.qual}>"


class Program:
    def __init__(self, facts):
        self.meta = facts["meta"]
        self.crates = {}
        self.fns = {}          # qualified (crate::path) -> Fn
        self.by_path = {}      # crate-relative def path -> [Fn]
        self.adts = {}
        self.mir = {}
        for c in facts["crates"]:
            cname = c["crate"]
            self.crates[cname] = c
            for raw in c["fns"]:
                raw["body"] = resugar(raw["body"])
                f = Fn(cname, raw)
                self.fns[f.qual] = f
                self.by_path.setdefault(f.path, []).append(f)
            for a in c["adts"]:
                self.adts[a["path"] if cname == LIB else f"{cname}::{a['path']}"] = a
            for m in c["mir"]:
                self.mir[f"{cname}::{m['path']}"] = m

    def adt(self, path):
        """Definition of a struct / enum of the library crate by its (crate-relative) type path, generic arguments ignored."""
        return self.adts.get(str(path).split("<", 1)[0].strip())

    def lib_fn(self, path):
        """Function of the library crate by crate-relative path (None if missing)."""
        return self.fns.get(f"{LIB}::{path}")

    def find(self, suffix, crate=None):
        """All non-derived functions whose path ends with `suffix` (matched on :: boundaries)."""
        out = []
        for q, f in self.fns.items():
            if crate and f.crate != crate:
                continue
            if f.path == suffix or f.path.endswith("::" + suffix):
                out.append(f)
        return out

    def resolve_local(self, crate, def_path):
        """Resolve a callee def path printed from inside `crate` to a local Fn.
        Inside the lib, local paths are crate-relative; from the bins the lib is `biodivine_hctl_model_checker::..`."""
        if def_path is None:
            return None
        f = self.fns.get(f"{crate}::{def_path}")
        if f:
            return f
        if def_path.startswith(LIB + "::"):
            return self.fns.get(def_path)
        return None

    def lib_fns(self, include_derived=False):
        return [f for f in self.fns.values() if f.crate == LIB and (include_derived or not f.derived)]


# ------------------------------------------------------------------------------------------------
# walkers
# ------------------------------------------------------------------------------------------------

CHILD_KEYS = ("callee", "args", "recv", "es", "l", "r", "e", "c", "t", "stmts", "expr", "arms", "body", "init", "els",
              "fields", "base", "iter", "guard", "i", "pat", "params", "sub", "subs")


def children(n):
    """Immediate child *expression/statement* nodes (patterns excluded)."""
    if not isinstance(n, dict):
        return
    k = n.get("k")
    for key in ("callee", "recv", "l", "r", "e", "c", "t", "expr", "body", "init", "els", "base", "iter", "guard", "i"):
        v = n.get(key)
        if isinstance(v, dict) and "k" in v:
            yield v
    for key in ("args", "es", "stmts"):
        v = n.get(key)
        if isinstance(v, list):
            for x in v:
                if isinstance(x, dict):
                    yield x
    if k == "match":
        for a in n["arms"]:
            if a.get("guard"):
                yield a["guard"]
            yield a["body"]
    if k == "struct":
        for f in n["fields"]:
            yield f["e"]
    if k == "fmt":
        for p in n["pieces"]:
            if isinstance(p, dict):
                yield p["arg"]


def walk(n):
    """Pre-order over all expression/statement nodes (including closure bodies)."""
    stack = [n]
    while stack:
        x = stack.pop()
        if not isinstance(x, dict):
            continue
        yield x
        cs = list(children(x))
        stack.extend(reversed(cs))


def walk_with_parents(n, parents=()):
    yield n, parents
    for c in children(n):
        yield from walk_with_parents(c, parents + (n,))


def pat_bindings(p):
    """All (lid, name) bound by a pattern."""
    out = []
    if not isinstance(p, dict):
        return out
    if p.get("k") == "bind":
        out.append((p["lid"], p["name"]))
        if p.get("sub"):
            out.extend(pat_bindings(p["sub"]))
    for key in ("subs", "before", "after"):
        for s in p.get(key, []) or []:
            out.extend(pat_bindings(s))
    for key in ("sub", "mid"):
        if key in p and p.get("k") != "bind" and isinstance(p[key], dict):
            out.extend(pat_bindings(p[key]))
    for f in p.get("fields", []) or []:
        out.extend(pat_bindings(f["pat"]))
    return out


def callee_of(n):
    """Resolved callee path of a call/mcall node (None for indirect calls)."""
    if n.get("k") in ("call", "mcall"):
        return n.get("def")
    return None


def is_call_to(n, *suffixes):
    d = callee_of(n)
    if d is None:
        return False
    return any(d == s or d.endswith("::" + s) for s in suffixes)


def strip(n):
    """Look through borrows, derefs, clones, blocks with only a tail, casts: the *value* carrier."""
    while isinstance(n, dict):
        k = n.get("k")
        if k == "ref" or (k == "un" and n.get("op") == "*") or k == "cast":
            n = n["e"]
        elif k == "mcall" and n.get("name") in ("clone", "to_string", "as_str", "to_owned", "as_ref", "borrow", "into", "unwrap_ref") and not n["args"]:
            n = n["recv"]
        elif k == "block" and not n["stmts"] and n.get("expr"):
            n = n["expr"]
        else:
            break
    return n


def macro_of(n):
    m = n.get("mac")
    return m[-1] if m else None   # outermost macro


def loc(fn, n):
    sp = n.get("sp") if isinstance(n, dict) else None
    if sp:
        return f"{fn.file}:{sp[0]}"
    if isinstance(n, dict) and "ln" in n:
        return f"{fn.file}:{n['ln']}"
    return f"{fn.file}:{fn.line}"


# ------------------------------------------------------------------------------------------------
# pretty-printer
# ------------------------------------------------------------------------------------------------

def pp_pat(p):
    if not isinstance(p, dict):
        return "?"
    k = p.get("k")
    if k == "wild":
        return "_"
    if k == "bind":
        s = p["name"]
        if p.get("sub"):
            s += " @ " + pp_pat(p["sub"])
        return s
    if k == "pts":
        subs = [pp_pat(s) for s in p["subs"]]
        if p.get("dd") is not None:
            subs.insert(p["dd"], "..")
        return f"{_short(p.get('ctor_of') or p.get('def') or '?')}({', '.join(subs)})"
    if k == "ppath":
        return _short(p.get("ctor_of") or p.get("def") or "?")
    if k == "pstruct":
        return f"{_short(p.get('def') or '?')}{{{', '.join(f['name'] + ': ' + pp_pat(f['pat']) for f in p['fields'])}}}"
    if k == "por":
        return " | ".join(pp_pat(s) for s in p["subs"])
    if k == "ptup":
        return "(" + ", ".join(pp_pat(s) for s in p["subs"]) + ")"
    if k in ("pref", "pderef"):
        return "&" + pp_pat(p["sub"])
    if k == "plit":
        return repr(p.get("v"))
    if k == "prange":
        return "range"
    if k == "pguard":
        return pp_pat(p["sub"]) + " if " + pp(p["guard"])
    return k or "?"


def pp(n, ind=0):
    """Compact Rust-like rendering of an expression node (single line for small expressions)."""
    if n is None:
        return ""
    if not isinstance(n, dict):
        return str(n)
    k = n.get("k")
    I = "  " * ind
    if k == "path":
        if n.get("res") == "local":
            return n["name"]
        return _short(n.get("ctor_of") or n.get("def") or n.get("res", "?"))
    if k == "lit":
        return json.dumps(n.get("v")) if n.get("lk") in ("str", "char", "bytestr") else str(n.get("v"))
    if k == "fmt":
        return 'format_args!("' + "".join(p.replace("{", "{{").replace("}", "}}") if isinstance(p, str) else
                                          "{" + pp(p["arg"]) + (":?" if p["spec"] == "debug" else "") + "}" for p in n["pieces"]) + '")'
    if k == "call":
        if n.get("res") == "local":
            f = n["name"]
        else:
            f = _short(n.get("ctor_of") or n.get("def")) if n.get("def") else "(" + pp(n.get("callee")) + ")"
        if n.get("def") and "::" in n["def"]:
            f = "::".join(n["def"].split("::")[-2:]) if not n.get("ctor_of") else _short(n["ctor_of"])
        return f"{f}({', '.join(pp(a) for a in n['args'])})"
    if k == "mcall":
        return f"{pp(n['recv'])}.{n['name']}({', '.join(pp(a) for a in n['args'])})"
    if k == "ref":
        return ("&mut " if n.get("mut") else "&") + pp(n["e"])
    if k == "un":
        return n["op"] + pp(n["e"])
    if k == "bin":
        return f"({pp(n['l'])} {n['op']} {pp(n['r'])})"
    if k == "field":
        return f"{pp(n['e'])}.{n['name']}"
    if k == "index":
        return f"{pp(n['e'])}[{pp(n['i'])}]"
    if k == "tup":
        return "(" + ", ".join(pp(e) for e in n["es"]) + ")"
    if k == "array":
        return "[" + ", ".join(pp(e) for e in n["es"]) + "]"
    if k == "cast":
        return f"({pp(n['e'])} as {n.get('ty')})"
    if k == "struct":
        return f"{_short(n.get('def') or '?')} {{ " + ", ".join(f"{f['name']}: {pp(f['e'])}" for f in n["fields"]) + " }"
    if k == "closure":
        return "|" + ", ".join(pp_pat(p) for p in n["params"]) + "| " + pp(n["body"], ind)
    if k == "letx":
        return f"let {pp_pat(n['pat'])} = {pp(n['e'])}"
    if k == "try":
        return pp(n["e"]) + "?"
    if k == "ret":
        return "return " + pp(n.get("e"), ind)
    if k == "break":
        return "break" + (" " + pp(n["e"]) if n.get("e") else "")
    if k == "continue":
        return "continue"
    if k == "assign":
        return f"{pp(n['l'])} = {pp(n['r'], ind)}"
    if k == "assignop":
        return f"{pp(n['l'])} {n['op']} {pp(n['r'])}"
    if k in ("block", "loop"):
        lines = []
        for s in n["stmts"]:
            lines.append(I + "  " + pp_stmt(s, ind + 1))
        if n.get("expr"):
            lines.append(I + "  " + pp(n["expr"], ind + 1))
        head = "loop " if k == "loop" else ""
        if not lines:
            return head + "{}"
        return head + "{\n" + "\n".join(lines) + "\n" + I + "}"
    if k == "if":
        s = f"if {pp(n['c'])} " + pp(n["t"], ind)
        if n.get("e"):
            s += " else " + pp(n["e"], ind)
        return s
    if k == "while":
        return f"while {pp(n['c'])} " + pp(n["body"], ind)
    if k == "for":
        return f"for {pp_pat(n['pat'])} in {pp(n['iter'])} " + pp(n["body"], ind)
    if k == "match":
        m = macro_of(n)
        arms = []
        for a in n["arms"]:
            g = f" if {pp(a['guard'])}" if a.get("guard") else ""
            arms.append(I + "  " + pp_pat(a["pat"]) + g + " => " + pp(a["body"], ind + 1) + ",")
        return f"match {pp(n['e'])} {{" + (f" /*{m}!*/" if m else "") + "\n" + "\n".join(arms) + "\n" + I + "}"
    return f"<{k}>"


def pp_stmt(s, ind=0):
    k = s.get("k")
    if k == "let":
        r = f"let {pp_pat(s['pat'])}"
        if s.get("init"):
            r += " = " + pp(s["init"], ind)
        if s.get("els"):
            r += " else " + pp(s["els"], ind)
        return r + ";"
    if k in ("semi", "sexpr"):
        return pp(s["e"], ind) + (";" if k == "semi" else "")
    if k == "item":
        return "<item>"
    return pp(s, ind)


def pp_fn(fn):
    ps = ", ".join(f"{pp_pat(p)}: {t.rsplit('::', 1)[-1]}" for p, t in zip(fn.params, fn.param_tys or [""] * len(fn.params)))
    return f"fn {fn.path}({ps}) " + pp(fn.body)


if __name__ == "__main__":
    import sys
    sys.path.insert(0, __file__.rsplit("/", 1)[0])
    import facts
    prog = Program(facts.extract())
    for name in sys.argv[1:]:
        for f in prog.find(name):
            print(f"// {f.qual}  {f.file}:{f.line}")
            print(pp_fn(f))
            print()
