"""Thorough tier: mutant battery (placeholder until the battery is wired in)."""


def run(prop, rep):
    return 0
