"""Thorough tier: the checker tests itself against the stored corpus on scratch copies of the *current* tree.

For property P: every stored seeded change and reverse-fix that breaks P must make `./check P` report a violation, and every stored
behaviour-preserving refactoring must leave it silent (only asserted when P holds on the current tree).  Patches that do not apply
to the current tree are skipped and counted.  Scratch copies live under the system temp directory and are removed after each run.
A failed self-test prints `SELFTEST-FAIL ...` and makes the thorough command exit 3 (the checker is broken, not the property)."""
import concurrent.futures
import glob
import json
import os
import sys

VERIF = os.path.dirname(os.path.dirname(os.path.abspath(__file__)))
sys.path.insert(0, os.path.join(VERIF, "tools"))


def corpus(prop):
    import regress
    work = []
    for d in sorted(glob.glob(os.path.join(VERIF, "seeded", "*"))):
        try:
            meta = json.load(open(os.path.join(d, "meta.json")))
        except OSError:
            continue
        if meta.get("property") == prop:
            work.append((os.path.join(d, "patch.diff"), "detect"))
    for p in sorted(glob.glob(os.path.join(VERIF, "mutants", "*.patch"))):
        exp = regress.REVFIX.get(os.path.basename(p)[:-6], [])
        if exp and exp[0] == prop:
            work.append((p, "detect"))
    for p in sorted(glob.glob(os.path.join(VERIF, "benign", "*.patch"))):
        work.append((p, "silent"))
    return work


def run(prop, rep, base_holds=True, jobs=None):
    import mutant_test
    work = corpus(prop)
    if not base_holds:
        work = [w for w in work if w[1] == "detect"]
    jobs = jobs or min(12, os.cpu_count() or 4)
    res = {"detect": [0, 0], "silent": [0, 0], "skipped": 0, "failures": []}
    # the dependencies of the crate are compiled once for all scratch copies (the crate itself is analysed afresh in each of them; the
    # verdict on /repo itself never uses this)
    import regress
    import shutil
    warm = regress.warm_deps() if not os.environ.get("VERIF_WARM_DEPS") else None
    if warm:
        os.environ["VERIF_WARM_DEPS"] = warm
    try:
        return _run(prop, rep, work, jobs, res)
    finally:
        if warm:
            os.environ.pop("VERIF_WARM_DEPS", None)
            shutil.rmtree(warm, ignore_errors=True)


def _run(prop, rep, work, jobs, res):
    import mutant_test

    def one(w):
        return w, mutant_test.run(w[0], [prop], quiet=True)
    def no_verdict(out):
        # the scratch copy could not be analysed at all (e.g. the compiler was killed on an overloaded machine): that is neither a
        # report nor silence
        return out is not None and (out[prop][0] not in (0, 1) or "CHECKER-ERROR" in (out[prop][2] or ""))
    with concurrent.futures.ThreadPoolExecutor(max_workers=jobs) as ex:
        results = list(ex.map(one, work))
    # such a patch is analysed once more, on its own
    results = [one(w) if no_verdict(out) else (w, out) for w, out in results]
    if True:
        for (patch, want), out in results:
            name = os.path.relpath(patch, VERIF)
            if out is None:
                res["skipped"] += 1
                continue
            rc = out[prop][0]
            res[want][1] += 1
            if (want == "detect" and rc == 1) or (want == "silent" and rc == 0):
                res[want][0] += 1
            else:
                res["failures"].append({"patch": name, "expected": want, "exit": rc, "first": (out[prop][1] or [""])[0][:300]})
    rep.extra["selftest"] = {"seeded_and_reverse_fixes_detected": f"{res['detect'][0]}/{res['detect'][1]}",
                             "benign_refactorings_silent": f"{res['silent'][0]}/{res['silent'][1]}",
                             "patches_not_applicable_to_this_tree": res["skipped"], "failures": res["failures"]}
    print(f"SELFTEST {prop}: breaking changes detected {res['detect'][0]}/{res['detect'][1]}, behaviour-preserving refactorings silent "
          f"{res['silent'][0]}/{res['silent'][1]}, {res['skipped']} patches do not apply to this tree")
    for f in res["failures"]:
        print(f"SELFTEST-FAIL property={prop} patch={f['patch']} expected={f['expected']} exit={f['exit']} {f['first']}")
    return 3 if res["failures"] else 0
