"""C19 - the aeon-to-bnet converter preserves the family of update functions.

Decided here (truth-table equality over all instantiations is value-level and not decided):
  C19-R1  flattened typestate: the value installed by set_update_function is *flattened* - built only from Const, Var,
          Boolean connectives over flattened values and zero-arity Param nodes created by explode_function's base case.
          Structurally: flatten_fn_update has one arm per FnUpdate variant, rebuilds Const / Var / Not / Binary from
          flattened children and sends Param(id, args) to explode_function; explode_function never embeds a raw element of
          `regulators` - every element flows through flatten_fn_update exactly once (callers pass raw arguments, the
          callee flattens) - and its base case builds Param(p, []) with an empty argument list;
  C19-R2  Shannon expansion: for a non-empty argument list the result is (r => E1) & (!r => E0) with r the flattened first
          argument, E1 / E0 the expansions of the *remaining* arguments under the name prefix extended by "1" / "0"
          respectively; the base-case parameter is looked up by exactly the accumulated name and created with arity 0
          if absent;
  C19-R3  naming is injective: the prefix is `<function or variable name>_` (a separator after the name) and each level
          appends exactly one character; the same prefix recipe is used for explicit (`f_`) and implicit (`<var>_`)
          functions;
  C19-R4  coverage: every variable with at least one regulator is converted, variables without regulators are skipped and
          nothing else is touched; the implicit case expands over all regulators as variables, in the network's order."""
import evalnode as E
import semantics as sem
import terms
from terms import subterms, pt

LEVEL = "other"
BIN = "convert_aeon_to_bnet"


def fmt_pieces(t):
    for x in [t] + list(subterms(t)):
        if x[0] == "fmt":
            return x[1]
    return None


def run(prog, rep):
    rep.explanation = __doc__
    rep.assumptions = ["FnUpdate::implies / and / negation build the corresponding Boolean connective", "BooleanNetwork::to_bnet accepts exactly flattened update functions"]
    for r, t in (("C19-R1", "only flattened values reach set_update_function"), ("C19-R2", "Shannon expansion shape"),
                 ("C19-R3", "injective parameter naming"), ("C19-R4", "variable coverage")):
        rep.rule(r, t)
    fns = {f.name: f for f in prog.fns.values() if f.crate == BIN and not f.derived}
    need = ("flatten_update_function", "flatten_fn_update", "explode_function", "main")
    if any(n not in fns for n in need):
        rep.unresolved("C19-R1", "functions", "", f"converter functions not found: {[n for n in need if n not in fns]}")
        return
    eng = terms.Engine(prog, inline=False)
    ff, fu, ex, mn = (fns[n] for n in ("flatten_fn_update", "flatten_update_function", "explode_function", "main"))
    for f in (ff, fu, ex, mn):
        rep.functions.add(f.qual)
    # ---- flatten_fn_update: one arm per variant
    s = eng.summary(ff)
    pn = ff.param_names()
    upd = ("param", pn[1])
    ret = s.ret
    variants = {"Const", "Var", "Not", "Param", "Binary"}
    arms = {}
    if ret[0] == "switch" and ret[1] == upd:
        for (d, g), v in ret[2]:
            if d[0] == "var":
                arms[str(d[1]).rsplit("::", 1)[-1]] = v
            elif d[0] == "wild":
                arms["_"] = v
    rep.check(set(arms) == variants, "C19-R1", "flatten_fn_update/arms", f"{ff.file}:{ff.line}", "one arm per FnUpdate variant, no wildcard",
              f"arms: {sorted(arms)}; expected exactly {sorted(variants)}")
    if set(arms) == variants:
        def proj(v, i):
            return ("proj", upd, f"biodivine_lib_param_bn::FnUpdate::{v}", i)

        def is_rec(t, child):
            return t[0] in ("call", "rec") and t[1].endswith("flatten_fn_update") and t[2][-1] == child
        c_ok = arms["Const"][0] == "ctor" and str(arms["Const"][1]).endswith("Const") and arms["Const"][2] == (proj("Const", 0),)
        v_ok = arms["Var"][0] == "ctor" and str(arms["Var"][1]).endswith("Var") and arms["Var"][2] == (proj("Var", 0),)
        n = arms["Not"]
        n_ok = n[0] == "call" and n[1].endswith("negation") and len(n[2]) == 1 and is_rec(n[2][0], proj("Not", 0))
        b = arms["Binary"]
        b_ok = b[0] == "ctor" and str(b[1]).endswith("Binary") and len(b[2]) == 3 and b[2][0] == proj("Binary", 0) and is_rec(b[2][1], proj("Binary", 1)) and is_rec(b[2][2], proj("Binary", 2))
        p = arms["Param"]
        p_ok = p[0] == "call" and p[1].endswith("explode_function") and p[2][1] == proj("Param", 1)
        rep.check(c_ok and v_ok and n_ok and b_ok, "C19-R1", "flatten_fn_update/rebuild", f"{ff.file}:{ff.line}", "Const / Var copied; Not / Binary rebuilt from flattened children (same operator, same order)",
                  f"Const={c_ok} Var={v_ok} Not={n_ok} Binary={b_ok}")
        rep.check(p_ok, "C19-R1", "flatten_fn_update/param", f"{ff.file}:{ff.line}", "Param(id, args) -> explode_function(raw args, prefix)",
                  f"uninterpreted function is handled by {sem.short(p, 160)}: explode_function must receive the raw argument list (it flattens each argument itself, exactly once)")
        pieces = fmt_pieces(p[2][2]) if p_ok else None
        good = pieces is not None and len(pieces) == 2 and isinstance(pieces[0], tuple) and pieces[1] == "_" and "get_name" in pt(pieces[0][1]) and any(
            y == proj("Param", 0) for y in subterms(pieces[0][1]))
        rep.check(good, "C19-R3", "flatten_fn_update/prefix", f"{ff.file}:{ff.line}", "prefix = `<parameter name>_`",
                  f"name prefix for an explicit function is {pieces}: it must be the parameter's name followed by the separator `_`")
    # ---- explode_function
    s = eng.summary(ex)
    pn = ex.param_names()
    net, regs, prefix = (("param", x) for x in pn)
    ret = s.ret
    good = ret[0] == "ite" and ret[1] == ("call", ret[1][1], (regs,)) and ret[1][1].endswith("is_empty")
    if not good:
        rep.unresolved("C19-R2", "explode_function/shape", f"{ex.file}:{ex.line}", f"result is not `if regulators.is_empty() {{..}} else {{..}}`: {sem.short(ret, 160)}")
    else:
        base, step = ret[2], ret[3]
        # base case
        b_ok = base[0] == "ctor" and str(base[1]).endswith("Param") and len(base[2]) == 2 and base[2][1][0] == "call" and base[2][1][1].endswith("::new") and not base[2][1][2]
        look = base[2][0] if b_ok else None
        l_ok = False
        if b_ok:
            finds = [y for y in [look] + list(subterms(look)) if y[0] == "call" and isinstance(y[1], str) and y[1].endswith("find_parameter") and len(y[2]) == 2]
            adds = [y for y in [look] + list(subterms(look)) if y[0] == "call" and isinstance(y[1], str) and y[1].endswith("add_parameter") and len(y[2]) == 3]
            l_ok = (len(finds) >= 1 and finds[0][2][1] == prefix and len(adds) == 1 and adds[0][2][1] == prefix and adds[0][2][2] == ("lit", 0)
                    and look[0] == "hof" and look[1] == "unwrap_or_else")
        rep.check(b_ok and l_ok, "C19-R2", "explode_function/base", f"{ex.file}:{ex.line}",
                  "base case: Param(find_parameter(prefix) or add_parameter(prefix, 0), [])", f"base case is {sem.short(base, 200)}")
        # step
        r0 = ("index", regs, ("lit", 0))
        rest = ("index", regs, ("struct", "std::ops::RangeFrom", (("start", ("lit", 1)),)))
        flat = [y for y in subterms(step) if y[0] in ("call", "rec") and y[1].endswith("flatten_fn_update") and y[2][-1] == r0]
        raw_uses = 0
        # every occurrence of regulators[0] must be the argument of flatten_fn_update
        def count_raw(t, inside_flat=False):
            nonlocal raw_uses
            if not isinstance(t, tuple) or not t:
                return
            if t == r0 and not inside_flat:
                raw_uses += 1
                return
            if t[0] in ("call", "rec") and isinstance(t[1], str) and t[1].endswith("flatten_fn_update"):
                for a in t[2][:-1]:
                    count_raw(a, False)
                if t[2][-1] != r0:
                    count_raw(t[2][-1], False)
                return
            if t[0] == "mut":
                count_raw(t[1], inside_flat)       # effects on the network handle are not values of the result
                return
            for x in (t[1:] if isinstance(t[0], str) else t):
                if isinstance(x, tuple):
                    count_raw(x, inside_flat)
        count_raw(step)
        rep.check(bool(flat) and raw_uses == 0, "C19-R1", "explode_function/no-raw-argument", f"{ex.file}:{ex.line}",
                  "the first argument enters the result only through flatten_fn_update",
                  f"the raw argument expression regulators[0] is embedded {raw_uses} time(s) without being flattened: a nested uninterpreted call such as f(g(b)) survives and to_bnet panics")
        # Shannon shape: and(implies(R, E1), implies(negation(R), E0))
        sh_ok = False
        why = f"step is {sem.short(step, 220)}"
        if step[0] == "call" and step[1].endswith("::and") and len(step[2]) == 2:
            a, b2 = step[2]
            if a[0] == "call" and a[1].endswith("implies") and b2[0] == "call" and b2[1].endswith("implies"):
                ra, ea = a[2]
                rb, eb = b2[2]

                def is_flat_r(t):
                    return t[0] in ("call", "rec") and t[1].endswith("flatten_fn_update") and t[2][-1] == r0

                def branch(e):
                    if e[0] in ("call", "rec") and e[1].endswith("explode_function") and e[2][1] == rest:
                        pcs = fmt_pieces(e[2][2])
                        if pcs and len(pcs) == 2 and isinstance(pcs[0], tuple) and pcs[0][1] == prefix and isinstance(pcs[1], str):
                            return pcs[1]
                    return None
                pos_first = is_flat_r(ra) and rb[0] == "call" and rb[1].endswith("negation") and is_flat_r(rb[2][0])
                neg_first = is_flat_r(rb) and ra[0] == "call" and ra[1].endswith("negation") and is_flat_r(ra[2][0])
                if pos_first:
                    sh_ok = branch(ea) == "1" and branch(eb) == "0"
                    why = f"true branch extends the prefix by {branch(ea)!r}, false branch by {branch(eb)!r}; expected '1' / '0' over the remaining arguments"
                elif neg_first:
                    sh_ok = branch(ea) == "0" and branch(eb) == "1"
                    why = f"false branch extends the prefix by {branch(ea)!r}, true branch by {branch(eb)!r}"
        rep.check(sh_ok, "C19-R2", "explode_function/shannon", f"{ex.file}:{ex.line}", "(r => explode(rest, prefix+'1')) & (!r => explode(rest, prefix+'0'))", why)
    # ---- flatten_update_function
    s = eng.summary(fu)
    pn = fu.param_names()
    net, var = ("param", pn[0]), ("param", pn[1])
    early = [r for r in s.returns if r[5] == "return"]
    skip_ok = len(early) == 1 and len(early[0][1]) == 1 and early[0][1][0][0] == "if" and early[0][1][0][2] and early[0][1][0][1][0] == "call" and \
        early[0][1][0][1][1].endswith("is_empty") and early[0][1][0][1][2][0][0] == "call" and early[0][1][0][1][2][0][1].endswith("regulators") and early[0][1][0][1][2][0][2][-1] == var
    rep.check(skip_ok, "C19-R4", "flatten_update_function/skip", f"{fu.file}:{fu.line}", "skipped iff the variable has no regulators",
              "the skip condition is not exactly `network.regulators(variable).is_empty()`")
    sets = [x for x in s.sites if x.kind == "mcall" and x.name == "set_update_function"]
    good = len(sets) == 1 and sets[0].args[1] == var
    why = f"{len(sets)} set_update_function calls"
    if good:
        val = sets[0].args[2]
        inner = val[2][0] if val[0] == "ctor" and str(val[1]).endswith("Some") else None
        good = inner is not None and inner[0] == "ite"
        why = f"installed value {sem.short(val, 120)}"
        if good:
            cond, a, b = inner[1], inner[2], inner[3]
            explicit = a[0] in ("call", "rec") and a[1].endswith("flatten_fn_update") and "get_update_function" in pt(a[2][-1])
            implicit = b[0] in ("call", "rec") and b[1].endswith("explode_function")
            good = explicit and implicit and cond[0] == "matches" and "get_update_function" in pt(cond[1])
            why = f"explicit function flattened={explicit}, implicit function exploded={implicit}"
            if good:
                regs_arg = b[2][1]
                hof = [y for y in [regs_arg] + list(subterms(regs_arg)) if y[0] == "hof" and y[1] == "map"]
                mk = hof and hof[0][3][0] == "call" and hof[0][3][1].endswith("mk_var") and "regulators" in pt(hof[0][2]) and terms.mentions_param(hof[0][2], pn[1])
                pcs = fmt_pieces(b[2][2])
                pre = pcs is not None and len(pcs) == 2 and isinstance(pcs[0], tuple) and pcs[1] == "_" and "get_variable_name" in pt(pcs[0][1]) and terms.mentions_param(pcs[0][1], pn[1])
                rep.check(bool(mk), "C19-R4", "flatten_update_function/implicit-arguments", f"{fu.file}:{fu.line}", "implicit function = unknown function of all regulators, as variables",
                          "the implicit update function is not expanded over all regulators of the variable as plain variables")
                rep.check(pre, "C19-R3", "flatten_update_function/prefix", f"{fu.file}:{fu.line}", "prefix = `<variable name>_`",
                          f"name prefix for an implicit function is {pcs}: it must be the variable's name followed by the separator `_`")
    rep.check(good, "C19-R1", "flatten_update_function/installed", sets[0].where() if sets else f"{fu.file}:{fu.line}",
              "installs flatten_fn_update(explicit function) or explode_function(regulators as variables)", why)
    # ---- main: every variable
    s = eng.summary(mn)
    calls = [x for x in s.sites if x.kind == "call" and x.is_call_to("flatten_update_function")]
    fors = [x for x in s.sites if x.kind == "for"]
    good = len(calls) == 1 and len(fors) == 1 and calls[0].args[1] == ("elem", fors[0].args[0]) and fors[0].args[0][0] == "call" and fors[0].args[0][1].endswith("::variables")
    rep.check(good, "C19-R4", "main/all-variables", f"{mn.file}:{mn.line}", "flatten_update_function for every variable of the model",
              "not every variable of the model is converted")
    rep.floor("C19-R1", 5)
    rep.floor("C19-R2", 2)
    rep.floor("C19-R3", 2)
    rep.floor("C19-R4", 3)
