"""C19 - the aeon-to-bnet converter preserves the family of update functions.

Decided here (truth-table equality over all instantiations is value-level and not decided):
  C19-R1  flattened typestate: the value installed by set_update_function is *flattened* - built only from Const, Var,
          Boolean connectives over flattened values and zero-arity Param nodes created by explode_function's base case.
          Structurally: flatten_fn_update has one arm per FnUpdate variant, rebuilds Const / Var / Not / Binary from
          flattened children and sends Param(id, args) to explode_function; explode_function never embeds a raw element of
          `regulators` - every element flows through flatten_fn_update exactly once (callers pass raw arguments, the
          callee flattens) - and its base case builds Param(p, []) with an empty argument list;
  C19-R2  Shannon expansion: for a non-empty argument list the result is (r => E1) & (!r => E0) with r the flattened first
          argument, E1 / E0 the expansions of the *remaining* arguments under the name prefix extended by "1" / "0"
          respectively; the base-case parameter is looked up by exactly the accumulated name and created with arity 0
          if absent;
  C19-R3  naming is injective: the prefix is `<function or variable name>_` (a separator after the name) and each level
          appends exactly one character; the same prefix recipe is used for explicit (`f_`) and implicit (`<var>_`)
          functions;
  C19-R4  coverage: every variable with at least one regulator is converted, variables without regulators are skipped and
          nothing else is touched; the implicit case expands over all regulators as variables, in the network's order."""
import evalnode as E
import norm
import pm
import q
import render
import semantics as sem
import terms
from norm import last
from pm import C, OK, SOME, V, P, ANY, ALT
from terms import subterms, pt

LEVEL = "other"
BIN = "convert_aeon_to_bnet"


def pieces_of(t):
    return render.string_pieces(t)


def is_prefix_recipe(t, name_call, of):
    """t prints `<name>_` where <name> = name_call(.., of)."""
    ps = pieces_of(t)
    if len(ps) != 2 or not isinstance(ps[0], tuple) or ps[1] != "_":
        return False, ps
    n = pm.strip(ps[0][1])
    ok = n[0] == "call" and last(n[1]) == name_call and any(pm.strip(y) == of for y in [n] + list(subterms(n)))
    # the name may be looked up through get_parameter / get_variable
    return ok, ps


def tokspec_leaves(t):
    import tokspec
    return tokspec.leaves(t)


def library_ctors(t, memo=None):
    """FnUpdate::mk_param(id, args) is the node Param(id, args) (library assumption L9, as for mk_not / mk_binary)."""
    if memo is None:
        memo = {}
    if not isinstance(t, tuple) or not t:
        return t
    hit = memo.get(id(t))
    if hit is not None and hit[0] is t:
        return hit[1]
    r = tuple(library_ctors(x, memo) if isinstance(x, tuple) else x for x in t)
    if r[0] == "call" and isinstance(r[1], str) and last(r[1]) == "mk_param" and "FnUpdate" in r[1] and len(r[2]) == 2:
        a = pm.strip(r[2][1])
        r = ("ctor", "biodivine_lib_param_bn::FnUpdate::Param", (r[2][0], ("call", "std::vec::Vec::<T>::new", ()) if a in (("array", ()), ("vec", ())) else r[2][1]))
    elif all(a is b for a, b in zip(r, t)):
        r = t
    memo[id(t)] = (t, r)
    return r


def shared_buffer(t, buf, fpath, memo=None):
    """The value of a `&mut String` buffer with the induction hypothesis applied (a recursive call hands the buffer back unchanged) and
    push / pop pairs cancelled."""
    if memo is None:
        memo = {}
    if not isinstance(t, tuple) or not t:
        return t
    hit = memo.get(id(t))
    if hit is not None and hit[0] is t:
        return hit[1]
    r = tuple(shared_buffer(x, buf, fpath, memo) if isinstance(x, tuple) else x for x in t)

    def root(x):
        while isinstance(x, tuple) and x and x[0] == "mut":
            x = x[1]
        return x
    if r[0] == "mut" and root(r) == buf:
        eff = r[2]
        if eff[0] in ("call", "rec") and isinstance(eff[1], str) and eff[1] == fpath:
            r = r[1]
        elif eff[0] == "call" and isinstance(eff[1], str) and last(eff[1]) == "pop" and not eff[2] and r[1][0] == "mut" \
                and r[1][2][0] == "call" and last(r[1][2][1]) == "push" and len(r[1][2][2]) == 1:
            r = r[1][1]
    if r is not t and all(a is b for a, b in zip(r, t)) and len(r) == len(t):
        r = t
    memo[id(t)] = (t, r)
    return r


def run(prog, rep):
    rep.explanation = __doc__
    rep.assumptions = ["FnUpdate::implies / and / negation build the corresponding Boolean connective", "BooleanNetwork::to_bnet accepts exactly flattened update functions"]
    for r, t in (("C19-R1", "only flattened values reach set_update_function"), ("C19-R2", "Shannon expansion shape"),
                 ("C19-R3", "injective parameter naming"), ("C19-R4", "variable coverage")):
        rep.rule(r, t)
    fns = {f.name: f for f in prog.fns.values() if f.crate == BIN and not f.derived}
    need = ("flatten_update_function", "flatten_fn_update", "explode_function", "main")
    if any(n not in fns for n in need):
        rep.unresolved("C19-R1", "functions", "", f"converter functions not found: {[n for n in need if n not in fns]}")
        return
    opaque = [fns[n].path for n in ("flatten_fn_update", "explode_function", "flatten_update_function")]
    # private helpers of the converter (other than its three recursive functions) are inlined
    helpers = [f.path for f in prog.fns.values() if f.crate == BIN and not f.derived and f.name not in need]
    eng = terms.Engine(prog, inline=True, hooks=E.Hooks([], inline_names=helpers))
    ff, fu, ex, mn = (fns[n] for n in ("flatten_fn_update", "flatten_update_function", "explode_function", "main"))
    for f in (ff, fu, ex, mn):
        rep.functions.add(f.qual)
    is_flatten = lambda child: C("flatten_fn_update", ANY, P(lambda t: t == child))          # noqa: E731
    # ---- flatten_fn_update: specialised for every FnUpdate variant
    pn = ff.param_names()
    FN = "biodivine_lib_param_bn::FnUpdate::"
    a, b, op, idv, args = ("param", "#a"), ("param", "#b"), ("param", "#op"), ("param", "#id"), ("param", "#args")
    shapes = {"Const": ("ctor", FN + "Const", (a,)), "Var": ("ctor", FN + "Var", (a,)), "Not": ("ctor", FN + "Not", (a,)),
              "Binary": ("ctor", FN + "Binary", (op, a, b)), "Param": ("ctor", FN + "Param", (idv, args))}
    nz = norm.Normalizer()
    got = {}
    for v, sh in shapes.items():
        sp = eng.specialise(ff, {pn[1]: sh})
        got[v] = nz(sp.ret) if sp is not None and sp.ret is not None else None
    where = f"{ff.file}:{ff.line}"
    rep.check(all(x is not None and x != terms.NEVER for x in got.values()), "C19-R1", "flatten_fn_update/arms", where, "every FnUpdate variant is handled",
              f"variants without a value: {[v for v, x in got.items() if x is None or x == terms.NEVER]}")
    if all(x is not None for x in got.values()):
        unbox = lambda t: pm.strip(t)          # noqa: E731
        c_ok = pm.match(("ctor", P(lambda x: True), (P(lambda t: t == a),)), got["Const"]) is not None and last(got["Const"][1]) == "Const"
        v_ok = pm.match(("ctor", P(lambda x: True), (P(lambda t: t == a),)), got["Var"]) is not None and last(got["Var"][1]) == "Var"
        n_ok = pm.match(C("negation", is_flatten(a)), got["Not"]) is not None or pm.match(C("mk_not", is_flatten(a)), got["Not"]) is not None or \
            (got["Not"][0] == "ctor" and last(got["Not"][1]) == "Not" and pm.match(is_flatten(a), got["Not"][2][0]) is not None)
        bt = got["Binary"]
        # the node literal, or the library constructor FnUpdate::mk_binary(op, left, right)
        if bt[0] == "call" and isinstance(bt[1], str) and last(bt[1]) == "mk_binary" and "FnUpdate" in bt[1] and len(bt[2]) == 3:
            bt = ("ctor", FN + "Binary", bt[2])
        b_ok = bt[0] == "ctor" and last(bt[1]) == "Binary" and len(bt[2]) == 3 and pm.strip(bt[2][0]) == op and pm.match(is_flatten(a), bt[2][1]) is not None \
            and pm.match(is_flatten(b), bt[2][2]) is not None
        rep.check(c_ok and v_ok and n_ok and b_ok, "C19-R1", "flatten_fn_update/rebuild", where, "Const / Var copied; Not / Binary rebuilt from flattened children (same operator, same order)",
                  f"Const={c_ok} Var={v_ok} Not={n_ok} Binary={b_ok}: {sem.short(got['Binary'], 160)}")
        e = pm.match(C("explode_function", ANY, P(lambda t: t == args), V("prefix")), got["Param"])
        rep.check(e is not None, "C19-R1", "flatten_fn_update/param", where, "Param(id, args) -> explode_function(raw args, prefix)",
                  f"uninterpreted function is handled by {sem.short(got['Param'], 160)}: explode_function must receive the raw argument list (it flattens each argument itself, exactly once)")
        if e is not None:
            good, ps = is_prefix_recipe(e["prefix"], "get_name", idv)
            rep.check(good, "C19-R3", "flatten_fn_update/prefix", where, "prefix = `<parameter name>_`",
                      f"name prefix for an explicit function is {render.shape(ps)}: it must be the parameter's name followed by the separator `_`")
    # ---- explode_function
    s = eng.summary(ex)
    pn = ex.param_names()
    net, regs, prefix = (("param", x) for x in pn)
    ret = s.ret
    where = f"{ex.file}:{ex.line}"
    if str(ex.param_tys[2]).startswith("&mut"):
        # the name is a buffer shared with the callers: by induction over the argument list a recursive call leaves it as it found it
        # (checked right here: on return the buffer is the one that was passed in), so what a later call sees is what this level pushed
        out = shared_buffer(getattr(s, "mut_out", {}).get(pn[2], prefix), prefix, ex.path)
        restored = all(leaf == prefix for _, leaf in tokspec_leaves(out))
        rep.check(restored, "C19-R3", "explode_function/buffer-restored", where,
                  "the shared name buffer is handed back as it was received (every push is popped)",
                  f"the shared name buffer is left as {sem.short(out, 160)}: the names of the sibling branches are built on top of what this call left behind")
        ret = shared_buffer(ret, prefix, ex.path) if restored else ret
    ret = nz(library_ctors(ret))
    EMPTY = ("call", norm.EMPTY, (regs,))
    if not (ret[0] == "ite" and ret[1] == EMPTY):
        rep.unresolved("C19-R2", "explode_function/shape", where, f"result is not a case split on `regulators is empty`: {sem.short(ret, 160)}")
    else:
        base, step = ret[2], ret[3]
        find = C("find_parameter", ANY, P(lambda t: t == prefix))
        add = OK(C("add_parameter", ANY, P(lambda t: t == prefix), P(lambda t: t == ("lit", 0))))
        look = ("ite", ("matches", find, norm.SOME_DESC), SOME(find), add)
        b_ok = base[0] == "ctor" and last(base[1]) == "Param" and len(base[2]) == 2 and terms.is_fresh_collection(pm.strip(base[2][1])) and pm.match(look, base[2][0]) is not None
        rep.check(b_ok, "C19-R2", "explode_function/base", where,
                  "base case: Param(find_parameter(prefix) or add_parameter(prefix, 0), [])", f"base case is {sem.short(base, 200)}")
        r0 = ("index", regs, ("lit", 0))
        rest = ("index", regs, ("struct", "std::ops::RangeFrom", (("start", ("lit", 1)),)))
        flat = [y for y in subterms(step) if pm.match(is_flatten(r0), y) is not None]
        raw_uses = 0

        def count_raw(t):
            nonlocal raw_uses
            if not isinstance(t, tuple) or not t:
                return
            if t == r0:
                raw_uses += 1
                return
            if t[0] in ("call", "rec") and isinstance(t[1], str) and t[1].endswith("flatten_fn_update"):
                for x in t[2][:-1]:
                    count_raw(x)
                if pm.strip(t[2][-1]) != r0:
                    count_raw(t[2][-1])
                return
            if t[0] == "mut":
                count_raw(t[1])       # effects on the network handle are not values of the result
                return
            for x in (t[1:] if isinstance(t[0], str) else t):
                if isinstance(x, tuple):
                    count_raw(x)
        count_raw(step)
        rep.check(bool(flat) and raw_uses == 0, "C19-R1", "explode_function/no-raw-argument", where,
                  "the first argument enters the result only through flatten_fn_update",
                  f"the raw argument expression regulators[0] is embedded {raw_uses} time(s) without being flattened: a nested uninterpreted call such as f(g(b)) survives and to_bnet panics")
        R = is_flatten(r0)

        def branch(e_):
            m = pm.match(C("explode_function", ANY, P(lambda t: t == rest), V("p")), e_)
            if m is None:
                return None
            ps = pieces_of(m["p"])
            if len(ps) == 2 and isinstance(ps[0], tuple) and pm.strip(ps[0][1]) == prefix and isinstance(ps[1], str):
                return ps[1]
            return None
        sh_ok = False
        why = f"step is {sem.short(step, 220)}"
        m1 = pm.match(C("and", C("implies", R, V("e1")), C("implies", C("negation", R), V("e0"))), step)
        m2 = pm.match(C("and", C("implies", C("negation", R), V("e0")), C("implies", R, V("e1"))), step)
        m = m1 or m2
        if m is not None:
            sh_ok = branch(m["e1"]) == "1" and branch(m["e0"]) == "0"
            why = f"true branch extends the prefix by {branch(m['e1'])!r}, false branch by {branch(m['e0'])!r}; expected '1' / '0' over the remaining arguments"
        rep.check(sh_ok, "C19-R2", "explode_function/shannon", where, "(r => explode(rest, prefix+'1')) & (!r => explode(rest, prefix+'0'))", why)
    # ---- flatten_update_function
    s = eng.summary(fu)
    pn = fu.param_names()
    net, var = ("param", pn[0]), ("param", pn[1])
    where = f"{fu.file}:{fu.line}"
    sets = [x for x in s.all_sites() if x.kind == "mcall" and x.name == "set_update_function"]
    good = len(sets) == 1 and pm.strip(sets[0].args[1]) == var
    why = f"{len(sets)} set_update_function calls"
    if good:
        REGS = C("regulators", ANY, P(lambda t: t == var))
        conds = [(t, pol) for t, pol in q.conds(sets[0].pc) if not (q.is_ok_test(t) is not None)]
        skip_ok = len(conds) == 1 and conds[0][1] is False and pm.match(("call", norm.EMPTY, (REGS,)), conds[0][0]) is not None
        rep.check(skip_ok, "C19-R4", "flatten_update_function/skip", where, "converted iff the variable has at least one regulator",
                  f"the function is installed under {[(sem.short(t, 60), p_) for t, p_ in conds]}: it must be installed exactly when `network.regulators(variable)` is not empty")
        val = nz(sets[0].args[2])
        inner = val[2][0] if val[0] == "ctor" and last(val[1]) == "Some" else None
        UPD = C("get_update_function", ANY, P(lambda t: t == var))
        m = pm.match(("ite", ("matches", UPD, norm.SOME_DESC), C("flatten_fn_update", ANY, SOME(UPD)), C("explode_function", ANY, V("regs"), V("prefix"))), inner) if inner else None
        good = m is not None
        why = f"installed value {sem.short(val, 200)}: expected flatten_fn_update(explicit function) if there is one, explode_function(regulators as variables) otherwise"
        if good:
            ra = m["regs"]
            mk = ra[0] == "collect" and pm.match(REGS, ra[1]) is not None and pm.match(C("mk_var", P(lambda t: t == ("elem", ra[1]))), ra[2]) is not None
            rep.check(bool(mk), "C19-R4", "flatten_update_function/implicit-arguments", where, "implicit function = unknown function of all regulators, as variables",
                      f"the implicit update function is expanded over {sem.short(ra, 120)}: expected all regulators of the variable as plain variables, in the network's order")
            pre, ps = is_prefix_recipe(m["prefix"], "get_variable_name", var)
            rep.check(pre, "C19-R3", "flatten_update_function/prefix", where, "prefix = `<variable name>_`",
                      f"name prefix for an implicit function is {render.shape(ps)}: it must be the variable's name followed by the separator `_`")
    rep.check(good, "C19-R1", "flatten_update_function/installed", sets[0].where() if sets else where,
              "installs flatten_fn_update(explicit function) or explode_function(regulators as variables)", why)
    # ---- main: every variable
    s = eng.summary(mn)
    calls = [x for x in s.all_sites() if x.kind == "call" and x.is_call_to("flatten_update_function")]
    varg = nz(calls[0].args[1]) if len(calls) == 1 else None         # the variables may be collected into a list first
    good = len(calls) == 1 and varg[0] == "elem" and pm.match(C("variables", ANY), norm.strip_adapters(varg[1])) is not None \
        and not [1 for t, pol in q.conds(calls[0].pc) if q.is_ok_test(t) is None]
    rep.check(good, "C19-R4", "main/all-variables", f"{mn.file}:{mn.line}", "flatten_update_function for every variable of the model",
              "not every variable of the model is converted")
    rep.floor("C19-R1", 5)
    rep.floor("C19-R2", 2)
    rep.floor("C19-R3", 2)
    rep.floor("C19-R4", 3)
