"""Defining equations of the HCTL operators, written as Herbrand terms in the same vocabulary that
terms.py extracts from the code (so both sides go through the same Boolean normalisation).

Source of every equation: the property statements (C01, C11, C13) and the standard CTL fixed-point
characterisations they name.  `g` is the graph term, `sl` the self-loop (steady state) set.
Every function returns a LIST of accepted alternative terms (e.g. EU may be computed by the
saturation scheme or by the classical iteration)."""

SET = "biodivine_lib_param_bn::biodivine_std::traits::Set::"
GRAPH = "spec::SymbolicAsyncGraph::"
X = ("loopvar", "spec", "X")


def AND(a, b):
    return ("call", SET + "intersect", (a, b))


def OR(a, b):
    return ("call", SET + "union", (a, b))


def MINUS(a, b):
    return ("call", SET + "minus", (a, b))


def UNIT(g):
    return ("call", GRAPH + "mk_unit_colored_vertices", (g,))


def EMPTY(g):
    return ("call", GRAPH + "mk_empty_colored_vertices", (g,))


def PRE(g, x):
    return ("call", GRAPH + "pre", (g, x))


def VARPRE(g, x):
    # pre-image through one (arbitrary) network variable of g
    return ("call", GRAPH + "var_pre", (g, ("elem", ("call", GRAPH + "variables", (g,))), x))


def MU(init, step):
    return ("mu", "spec", "X", init, step)


def NOT(g, x):
    return MINUS(UNIT(g), x)


def IMP(g, a, b):
    return OR(NOT(g, a), b)


def IFF(g, a, b):
    return OR(AND(a, b), AND(NOT(g, a), NOT(g, b)))


def XOR(g, a, b):
    return NOT(g, IFF(g, a, b))


def EX(g, x, sl):
    return OR(PRE(g, x), AND(x, sl))


def AX(g, x, sl):
    return NOT(g, EX(g, NOT(g, x), sl))


def EU_sat(g, a, b):
    return MU(b, OR(X, AND(a, VARPRE(g, X))))


def EU_classic(g, a, b, sl):
    return MU(b, OR(X, AND(a, EX(g, X, sl))))


def EU_alts(g, a, b, sl=None):
    out = [EU_sat(g, a, b)]
    if sl is not None:
        out.append(EU_classic(g, a, b, sl))
    return out


def EF_alts(g, x, sl=None):
    out = [EU_sat(g, UNIT(g), x)]
    if sl is not None:
        out.append(MU(x, OR(X, EX(g, X, sl))))
        out.append(EU_classic(g, UNIT(g), x, sl))
    return out


def EG(g, x, sl):
    return MU(x, AND(X, EX(g, X, sl)))


def AU(g, a, b, sl):
    return MU(b, OR(X, AND(a, AX(g, X, sl))))


def AF(g, x, sl):
    return NOT(g, EG(g, NOT(g, x), sl))


def AG_alts(g, x, sl=None):
    return [NOT(g, e) for e in EF_alts(g, NOT(g, x), sl)]


def EW_alts(g, a, b, sl):
    na, nb = NOT(g, a), NOT(g, b)
    out = [NOT(g, AU(g, nb, AND(na, nb), sl))]
    for eu in EU_alts(g, a, b, sl):
        out.append(OR(eu, EG(g, a, sl)))
    return out


def AW_alts(g, a, b, sl=None):
    na, nb = NOT(g, a), NOT(g, b)
    return [NOT(g, eu) for eu in EU_alts(g, nb, AND(na, nb), sl)]
