"""C10 - pre-computed results can be substituted for closed sub-formulae.

Decided here:
  C10-R1  key format agreement: extend_context_with_wild_cards stores the set of label L under the text that the
          wild-card terminal prints as (Display of Atomic::WildCardProp, which mk_atom copies into formula_str and
          eval_node canonises), with an empty domain map and renaming; canonize_subform leaves `%` and name
          characters untouched: on its summary (helpers / methods inlined), with the current character replaced by a
          representative of a label character, the only effect that stays feasible is `push(ch)` onto the canonical string;
  C10-R2  wild-card protocol: a wild-card terminal is served by the cache-hit path and by nothing else (its arm is
          unreachable!()), so (a) set and counter are installed together, (b) wild-card entries are never evicted and a
          hit for them is always admitted (`WC |..` in the admission guard), (c) no scope entry can leak and change
          the key (C04-R1), (d) the hit is intersected with the current unit set only (no other modification);
  C10-R3  plain = extended with an empty context: the plain and the extended batch drivers are the same pipeline up to
          parser flavour, validate_and_divide_wild_cards and extend_context_with_wild_cards (whose loops run over the
          empty maps); with several formulae the maps handed to extend_context_with_wild_cards accumulate the validated
          context of every formula (shared with C02-R4).
Not decided: equality of results under substitution (value level); relies on C03 (results are closed and bounded)."""
import cacheproto
import evalnode as E
import pipelines
import semantics as sem
import setalg
import spec as S
import terms
import wildcards
from terms import subterms, pt

LEVEL = "other"


def run(prog, rep):
    rep.explanation = __doc__
    rep.assumptions = ["L1", "C03 (results of closed sub-formulae do not depend on auxiliary variables)"]
    rep.rule("C10-R1", "cache key of a wild-card == Display text of the terminal; canoniser leaves it untouched")
    rep.rule("C10-R2", "wild-card terminals are served from the cache only; never evicted; always admitted; value = set & unit")
    rep.rule("C10-R3", "plain pipeline == extended pipeline minus wild-card handling")
    en = E.EvalNode(prog)
    if not en.ok():
        rep.unresolved("C10-R2", "eval_node", "", "eval_node not found")
        return
    rep.functions.add(en.fn.qual)
    wildcards.check_wildcard_binding(prog, rep, "C10-R1", en)
    check_canonizer_passthrough(prog, rep, "C10-R1")
    rep.floor("C10-R1", 5)
    # R2
    cacheproto.check_eviction_and_counter(prog, rep, "C10-R2", en)
    cacheproto.check_scope_pairing(prog, rep, "C10-R2", en)
    cacheproto.check_read_guard(prog, rep, "C10-R2", en)
    shape = E.shape_atom("WildCardProp", E.lit("p"))
    rs = [r for r in en.specialise(shape) if r["term"] != terms.NEVER]
    for i, r in enumerate(rs):
        t = r["term"]
        # value = (cached set, possibly renamed by an empty renaming) & unit(graph)
        alg = E.NodeAlg()
        e = alg.interp(t)
        u = alg.interp(S.UNIT(E.G))
        atoms = [a for a in alg.atoms_of(e) if a != u[1]]
        good = len(atoms) == 1 and alg.equivalent(e, ("and", ("atom", atoms[0]), u)) and "cache" in repr(atoms[0])
        rep.check(good, "C10-R2", f"wild-card/value{i}", f"{en.fn.file}:{r['node'].get('sp', [0])[0]}",
                  "value of a wild-card terminal = cached set & unit(graph)", f"value is {sem.short(t, 200)}")
    rep.floor("C10-R2", 12)
    # R3
    deng = pipelines.driver_engine(prog)
    plain = prog.lib_fn("model_checking::_model_check_multiple_formulae_dirty")
    ext = prog.lib_fn("model_checking::_model_check_multiple_extended_formulae_dirty")
    if plain is None or ext is None:
        rep.unresolved("C10-R3", "drivers", "", "batch drivers not found")
        return
    sp, se = deng.summary(plain), deng.summary(ext)
    rep.functions.add(plain.qual)
    rep.functions.add(ext.qual)

    def profile(summ, fn):
        pn = fn.param_names()
        ev = pipelines.eval_sites(summ)
        calls = sorted({x.short() for x in summ.all_sites() if x.kind in ("call", "mcall") and x.fn.path.startswith("model_checking::")
                        and isinstance(x.callee, str) and prog.resolve_local(x.fn.crate, x.callee) is not None
                        and not prog.resolve_local(x.fn.crate, x.callee).path.startswith("model_checking::")})
        return ev, calls, pn

    evp, cp, pnp = profile(sp, plain)
    eve, ce, pne = profile(se, ext)
    allowed_extra = {"parse_and_minimize_extended_formula", "validate_and_divide_wild_cards", "extend_context_with_wild_cards"}
    allowed_missing = {"parse_and_minimize_hctl_formula"}
    extra = set(ce) - set(cp)
    missing = set(cp) - set(ce)
    rep.check(extra <= allowed_extra and missing <= allowed_missing, "C10-R3", "pipeline/stages", f"{ext.file}:{ext.line}",
              f"stages differ only by parser flavour and wild-card handling (plain: {cp})",
              f"extended pipeline has extra stages {sorted(extra - allowed_extra)} / lacks {sorted(missing - allowed_missing)}")
    good = len(evp) == 1 and len(eve) == 1
    why = f"{len(evp)} / {len(eve)} eval_node sites"
    if good:
        a, b = evp[0].args, eve[0].args
        ga, gb = ("param", pnp[1]), ("param", pne[1])
        if not (a[1] == ga and b[1] == gb and pipelines.is_steady_of(a[3], ga) and pipelines.is_steady_of(b[3], gb)):
            good, why = False, "graph / steady-state arguments differ between the pipelines"
        pa = [y for y in subterms(a[0]) if y[0] == "call" and "parse_and_minimize" in y[1]]
        pb = [y for y in subterms(b[0]) if y[0] == "call" and "parse_and_minimize" in y[1]]
        if good and not (pa and pb and pa[0][2][1:] == (("elem", ("param", pnp[0])),) and pb[0][2][1:] == (("elem", ("param", pne[0])),)):
            good, why = False, "the evaluated trees are not the parsed input formulae in order"
    rep.check(good, "C10-R3", "pipeline/eval", f"{ext.file}:{ext.line}", "both pipelines evaluate parse(formula_i) on the caller's graph with its steady states", why)
    # extend_context_with_wild_cards is two loops over its arguments and nothing else
    f = prog.lib_fn("evaluation::eval_context::EvalContext::extend_context_with_wild_cards")
    if f is not None:
        import effects
        s = terms.Engine(prog, inline=True, hooks=E.eval_hooks()).summary(f)
        pn = f.param_names()
        srcs = [("param", x) for x in pn[1:]]

        def rooted(t):
            for _ in range(8):
                t = terms.strip_iter_adapters(t) if t is not None else None
                if isinstance(t, tuple) and t and t[0] == "call" and len(t[2]) == 1 and t[1].rsplit("::", 1)[-1] in ("iter", "into_iter", "clone", "keys", "values"):
                    t = t[2][0]
                elif isinstance(t, tuple) and t and t[0] == "hof" and t[1] in ("map", "filter", "inspect", "filter_map"):
                    t = t[2]          # one item per element of the underlying map
                else:
                    break
            return t in srcs
        outside = []
        out = s.mut_out.get(pn[0])
        for it in (effects.trace(out, s)[1:] if out is not None else []):
            if it[0] == "loop" and rooted(it[2]):
                continue
            if it[0] == "op" and it[1] == "extend" and it[2]:
                pr = effects.as_pairs(it[2][0])
                if pr is not None and rooted(pr[0]):
                    continue
            outside.append(it)
        rep.check(not outside, "C10-R3", "extend/only-loops", f"{f.file}:{f.line}", "every effect on the context is per element of one of the two argument maps (empty context => no change)",
                  f"the context is also changed by `{outside[0][1] if outside and outside[0][0] == 'op' else (outside[0][0] if outside else '')}` independently of the argument maps")
    # several formulae, several replacements: the context handed to the evaluation holds the validated sets of *every* formula
    # (shared with C02-R4)
    sub = type(rep)("C10c")
    wildcards.check_context_presence(prog, sub, "X")
    for i in sub.instances:
        k_ = i.key.split(":", 1)[1] if ":" in i.key else i.key
        if k_.endswith("/validated"):
            (rep.ok if i.verdict == "ok" else rep.violation if i.verdict == "violation" else rep.unresolved)("C10-R3", "context/" + k_, i.where, i.detail)
    rep.floor("C10-R3", 6)


PASS_SAMPLE = ("%", "_", "a", "q", "Z", "E", "x", "0", "7")


def check_canonizer_passthrough(prog, rep, rule):
    """A character of a wild-card label (`%`, `_`, letters, digits - `3` and `V` excepted, which are quantifier symbols when a `{`
    follows) has exactly one effect in the canoniser: it is appended to the canonical string.  Decided on the summary of
    canonize_subform (helpers and methods of the layer inlined): the conditions of every effect inside the character loop are
    evaluated with the current character replaced by a representative; the only effect that may remain feasible is `push(ch)`.
    Whether the dispatch is a `match`, an if-chain, a helper or a method does not matter."""
    import norm
    import partial
    f = prog.lib_fn("evaluation::canonization::canonize_subform")
    if f is None:
        rep.unresolved(rule, "canonize_subform", "", "function not found")
        return
    rep.functions.add(f.qual)
    where = f"{f.file}:{f.line}"
    s = terms.Engine(prog, inline=True, hooks=E.eval_hooks()).summary(f)
    sites = s.all_sites()
    # the current character: what the literal-character tests of the path conditions test
    votes = {}

    def char_desc(d):
        if d[0] == "lit" and isinstance(d[1], str) and len(d[1]) == 1:
            return True
        if d[0] == "or":
            return all(char_desc(x) for x in d[1])
        return False
    for st in sites:
        for c in st.pc:
            if c[0] == "match" and char_desc(c[2]):
                votes[c[1]] = votes.get(c[1], 0) + 1
            elif c[0] == "if":
                for y in [c[1]] + list(subterms(c[1])):
                    if y[0] == "bin" and y[1] in ("==", "!="):
                        for a, b in ((y[2], y[3]), (y[3], y[2])):
                            if b[0] == "lit" and isinstance(b[1], str) and len(b[1]) == 1 and a[0] != "lit":
                                votes[a] = votes.get(a, 0) + 1
                    if y[0] == "matches" and char_desc(y[2]):
                        votes[y[1]] = votes.get(y[1], 0) + 1
    if not votes:
        rep.unresolved(rule, "canonize_subform/passthrough", where, "no test of the current character against a literal was found")
        return
    ch = max(votes, key=lambda k: votes[k])
    # the loop that reads it
    loop_ids = set()
    for st in sites:
        last_loop = None
        for c in st.pc:
            if c[0] == "loop":
                last_loop = c[1]
            elif c[0] in ("if", "match") and (c[1] == ch or terms.contains(c[1], lambda z: z == ch)):
                if last_loop is not None:
                    loop_ids.add(last_loop)
                break
    EFFECTS = ("push", "push_str", "insert", "insert_str", "extend", "clear", "remove", "pop", "truncate", "entry", "get_mut", "retain", "drain")
    nz = norm.Normalizer()
    problems = []
    n_push = 0
    specials = sorted({d_ for st in sites for c in st.pc if c[0] == "match" and c[1] == ch and char_desc(c[2])
                       for d_ in ([c[2][1]] if c[2][0] == "lit" else [x[1] for x in c[2][1] if x[0] == "lit"])})
    for r in PASS_SAMPLE:
        lit = ("lit", r)
        pushes = 0
        for st in sites:
            if not any(c[0] == "loop" and c[1] in loop_ids for c in st.pc):
                continue
            is_eff = (st.kind == "mcall" and st.name in EFFECTS) or st.kind in ("assign", "assignop")
            if not is_eff:
                continue
            pc2 = []
            for c in st.pc:
                if c[0] == "if":
                    pc2.append(("if", nz(partial.simplify(terms.replace(c[1], ch, lit)))) + tuple(c[2:]))
                elif c[0] == "match":
                    pc2.append(("match", nz(partial.simplify(terms.replace(c[1], ch, lit)))) + tuple(c[2:]))
                else:
                    pc2.append(c)
            verdict, _res = partial.eval_pc(pc2)
            if verdict is False:
                continue
            if st.kind == "mcall" and st.name == "push" and len(st.args) == 2 and terms.replace(st.args[1], ch, lit) == lit:
                pushes += 1
                continue
            what = st.name if st.kind == "mcall" else f"assignment to {st.name}"
            problems.append(f"for the character {r!r} the canoniser can also perform `{what}` (line {st.line()})")
        if pushes == 0:
            problems.append(f"the character {r!r} is not copied to the canonical string")
        n_push += pushes
    rep.check(not problems and bool(loop_ids), rule, "canonize_subform/passthrough", where,
              f"characters of wild-card labels ({', '.join(PASS_SAMPLE)}) are only ever copied; literal tests exist for {specials}",
              "; ".join(problems[:3]) if problems else "the loop over the characters was not found")


def walk_nodes(n):
    import hir
    return hir.walk(n)


def pat_chars(p):
    k = p.get("k")
    if k == "plit" and p.get("lk") == "char":
        return [p["v"]]
    if k == "por":
        out = []
        for s in p["subs"]:
            c = pat_chars(s)
            if c is None:
                return None
            out += c
        return out
    return None
