"""Symbolic lengths of collections ("one result per input").

`lenof(t)` gives a canonical length term for a collection-valued (normalised) term:
    vec![a, b]                          -> ("lit", 2)
    collect(R, body)   (map / push-loop) -> lenof(R)          a filtered source has an opaque length
    F(.., xs, ..)[~Ok.0][.k]             -> lenof(xs)         if the local function F preserves the length of that parameter
    anything else                        -> ("len", t)        opaque: equal terms have equal lengths
A local function preserves the length of parameter i (in result component k) if every success leaf of its return value
has the length of that parameter.  Decided from the summaries; recursion is cut pessimistically."""
import norm
import terms
from norm import last

CLONES = ("clone", "to_vec", "to_owned", "into", "iter", "into_iter", "cloned", "copied", "as_slice", "as_ref", "borrow", "deref", "rev", "into_boxed_slice",
          "by_ref", "as_mut")


class Lengths:
    def __init__(self, prog, engine):
        self.prog = prog
        self.engine = engine
        self.memo = {}
        self.stack = set()

    # ------------------------------------------------------------------ terms
    def lenof(self, t, depth=0):
        if not isinstance(t, tuple) or not t or depth > 40:
            return ("len", t)
        k = t[0]
        if k == "field" and t[1][0] == "struct":
            for f_, v_ in t[1][2]:
                if f_ == t[2]:
                    return self.lenof(v_, depth + 1)
        if k in ("vec", "array"):
            return ("lit", terms.Int(len(t[1])))
        if k == "collect":
            return self.lenof(t[1], depth + 1)
        if k == "hof" and t[1] in ("map", "inspect", "enumerate"):
            return self.lenof(t[2], depth + 1)
        if k == "call" and isinstance(t[1], str) and last(t[1]) in CLONES and len(t[2]) == 1:
            return self.lenof(t[2][0], depth + 1)
        if k == "mut" and t[2][0] == "call" and last(t[2][1]) in ("sort", "sort_by", "sort_unstable", "reverse", "sort_by_key", "iter_mut"):
            return self.lenof(t[1], depth + 1)
        # result of a local function, possibly behind `?` and a tuple component
        comp = None
        x = t
        if x[0] == "tproj" or x[0] == "field":
            comp, x = str(x[2]), x[1]          # a tuple component or a named field of a struct-valued result
        if x[0] == "proj" and last(x[2]) in ("Ok", "Some") and x[3] == 0:
            x = x[1]
        if x[0] in ("call", "rec") and isinstance(x[1], str):
            f = self.prog.resolve_local("biodivine_hctl_model_checker", x[1]) if hasattr(self.prog, "resolve_local") else None
            if f is not None:
                pres = self.preserved(f)
                i = pres.get(comp)
                if i is not None and i < len(x[2]):
                    return self.lenof(x[2][i], depth + 1)
        return ("len", t)

    # ------------------------------------------------------------------ functions
    def module_engine(self, f):
        import evalnode as E
        mod = f.path.rsplit("::", 1)[0] + "::" if "::" in f.path else ""
        if not hasattr(self, "_engines"):
            self._engines = {}
        if mod not in self._engines:
            pub = [g.path for g in self.prog.lib_fns() if g.path.startswith(mod) and g.vis == "Public"] if mod else []
            self._engines[mod] = terms.Engine(self.prog, inline=True, hooks=E.Hooks([mod] if mod else [], opaque_names=pub))
        return self._engines[mod]

    def preserved(self, f):
        """{result component (None = whole value) -> index of the parameter whose length it has}"""
        if f.qual in self.memo:
            return self.memo[f.qual]
        if f.qual in self.stack:
            return {}
        self.stack.add(f.qual)
        out = {}
        try:
            # private helpers of the function's own module are seen through (a lazy `impl Iterator` helper, a shared evaluation loop)
            s = self.module_engine(f).summary(f)
            if s is not None and s.ret is not None:
                pn = f.param_names()
                leaves = self.success_leaves(s.ret)
                if leaves:
                    comps = None
                    for leaf in leaves:
                        m = self.leaf_lengths(leaf)
                        comps = m if comps is None else {c: l for c, l in comps.items() if m.get(c) == l}
                    for c, l in (comps or {}).items():
                        if l[0] == "len" and l[1][0] == "param" and l[1][1] in pn:
                            out[c] = pn.index(l[1][1])
        finally:
            self.stack.discard(f.qual)
        self.memo[f.qual] = out
        return out

    def success_leaves(self, t):
        if t[0] == "ite":
            return self.success_leaves(t[2]) + self.success_leaves(t[3])
        if t[0] == "join":
            out = []
            for x in t[1]:
                out += self.success_leaves(x)
            return out
        if t[0] == "switch":
            out = []
            for _, v in t[2]:
                out += self.success_leaves(v)
            return out
        if t[0] == "ctor" and last(t[1]) == "Err":
            return []
        if t[0] == "never":
            return []
        return [t]

    def leaf_lengths(self, leaf):
        if leaf[0] == "ctor" and last(leaf[1]) == "Ok" and len(leaf[2]) == 1:
            v = leaf[2][0]
        elif leaf[0] in ("call", "rec") and isinstance(leaf[1], str) and self.returns_result(leaf[1]):
            v = ("proj", leaf, norm.OK, 0)
        else:
            v = leaf
        out = {None: self.lenof(v)}
        if v[0] == "tuple":
            for i, x in enumerate(v[1]):
                out[str(i)] = self.lenof(x)
        elif v[0] == "struct":
            for fname, x in v[2]:
                out[str(fname)] = self.lenof(x)
        else:
            # components of a tuple-valued call result
            for i in range(3):
                probe = ("field", v, str(i))
                l = self.lenof(probe)
                if l != ("len", probe):
                    out[str(i)] = l
        return out

    def returns_result(self, path):
        f = self.prog.resolve_local("biodivine_hctl_model_checker", path)
        return f is not None and str(f.ret).startswith(("std::result::Result", "Result", "core::result::Result"))
