"""Defining shapes of the primitives in evaluation/low_level_operations.rs (used by C01, C03, C08, C15, C20)."""
import evalnode as E
import setalg
import spec as S
import terms
from semantics import P, short, same
from terms import pt, subterms

LOW = E.LOW


def _fn(prog, name):
    return prog.lib_fn(LOW + name)


def calls(t, last):
    return [s for s in subterms(t) if s and s[0] == "call" and isinstance(s[1], str) and s[1].rsplit("::", 1)[-1] == last]


def name_index_ok(t, name_param):
    """`t` is `<name>.len() - 1` of the given name parameter."""
    if t[0] != "bin" or t[1] != "-" or t[3] != ("lit", 1):
        return False
    l = t[2]
    return l[0] == "call" and isinstance(l[1], str) and l[1].endswith("::len") and l[2] and l[2][0] == P(name_param)


ANCHORS = ["create_equalizer", "project_out_hctl_var", "project_out_bn_vars", "substitute_hctl_var", "compute_valid_domain_for_var", "restrict_stg_unit_bdd"]
WRAPPERS = ["create_comparator_var_state", "create_comparator_two_vars"]


def leaves(t, conds=()):
    """(conditions, leaf) pairs of an ite tree."""
    if isinstance(t, tuple) and t and t[0] == "ite":
        return leaves(t[2], conds + ((t[1], True),)) + leaves(t[3], conds + ((t[1], False),))
    if isinstance(t, tuple) and t and t[0] == "join":
        out = []
        for x in t[1]:
            out += leaves(x, conds)
        return out
    return [(conds, t)]


def iter_src(t):
    while isinstance(t, tuple) and t and t[0] == "call" and isinstance(t[1], str) and t[1].rsplit("::", 1)[-1] in \
            ("iter", "into_iter", "rev", "cloned", "copied", "by_ref", "enumerate") and len(t[2]) == 1:
        t = t[2][0]
    return t


def elems_range_over(t, alg, want):
    """Every element variable in t ranges over `want` (the network variables), whatever loop / iterator idiom is used."""
    es = [x for x in subterms(t) if x[0] == "elem"]
    return bool(es) and all(alg.canon(iter_src(x[1])) == want for x in es)


def eq_names(t, a, b):
    """t is `a == b` / `!(a != b)` ... returns True for equality, False for inequality, None otherwise."""
    neg = False
    while t[0] == "not":
        neg = not neg
        t = t[1]
    if t[0] == "bin" and t[1] in ("==", "!=") and {t[2], t[3]} == {a, b}:
        return (t[1] == "==") != neg
    return None


def comparator_fns(prog):
    """The functions that build a comparator: the shared private builder if there is one, else the public constructors."""
    out = []
    f = _fn(prog, "create_equalizer")
    if f is not None:
        out.append((f, "both"))
    else:
        for name, mode in (("create_comparator_var_state", "state"), ("create_comparator_two_vars", "two")):
            f = _fn(prog, name)
            if f is not None:
                out.append((f, mode))
    return out


def canon_cmp(t):
    """Both public constructors denote one comparator symbol: create_equalizer(g, name, None | Some(other))."""
    if not isinstance(t, tuple) or not t:
        return t
    r = tuple(canon_cmp(x) if isinstance(x, tuple) else x for x in t)
    if r[0] in ("call", "rec") and isinstance(r[1], str):
        l = r[1].rsplit("::", 1)[-1]
        if l == "create_comparator_var_state" and len(r[2]) == 2:
            return ("call", LOW + "create_equalizer", (r[2][0], r[2][1], ("ctor", E.NONE, ())))
        if l == "create_comparator_two_vars" and len(r[2]) == 3:
            return ("call", LOW + "create_equalizer", (r[2][0], r[2][1], ("ctor", E.SOME, (r[2][2],))))
        if l == "create_equalizer" and len(r[2]) == 3 and r[2][2][0] == "ctor" and str(r[2][2][1]).rsplit("::", 1)[-1] not in ("Some", "None"):
            # the other side given by a private two-variant enum (check_comparator verifies both variants): field-less = the state
            m = r[2][2]
            if len(m[2]) == 0:
                return ("call", LOW + "create_equalizer", (r[2][0], r[2][1], ("ctor", E.NONE, ())))
            if len(m[2]) == 1:
                return ("call", LOW + "create_equalizer", (r[2][0], r[2][1], ("ctor", E.SOME, (m[2][0],))))
    return r


def engine(prog):
    """Helpers of the module are inlined; the primitives themselves stay opaque when they call each other."""
    names = [LOW + a for a in ANCHORS]
    if _fn(prog, "create_equalizer") is None:
        names += [LOW + w for w in WRAPPERS]
    return terms.Engine(prog, inline=True, hooks=E.Hooks([LOW], opaque_names=names))


def all_state_variables(vars_, g):
    """`ctx.state_variables()`, or the same list spelled out: the state variable of every network variable of the graph, in order
    (library assumption L10: SymbolicContext::state_variables()[i] == get_state_variable(VariableId i), one per network variable)."""
    while vars_[0] == "call" and isinstance(vars_[1], str) and vars_[1].rsplit("::", 1)[-1] in ("clone", "as_slice", "borrow", "as_ref", "deref", "to_vec") and len(vars_[2]) == 1:
        vars_ = vars_[2][0]
    if vars_[0] == "call" and isinstance(vars_[1], str) and vars_[1].endswith("::state_variables"):
        return True
    import norm
    v = norm.Normalizer()(vars_)
    if v[0] == "collect" and len(v) == 3:
        src, body = v[1], v[2]
        if src[0] == "call" and isinstance(src[1], str) and src[1].endswith("::variables") and src[2] == (g,) and "SymbolicAsyncGraph" in src[1] \
                and body[0] == "call" and isinstance(body[1], str) and body[1].endswith("::get_state_variable") and len(body[2]) == 2 \
                and body[2][1] == ("elem", src) and body[2][0][0] == "call" and str(body[2][0][1]).endswith("::symbolic_context") and body[2][0][2] == (g,):
            return True
    return False


def check_comparator(rep, rule, eng, f, mode):
    rep.functions.add(f.qual)
    pn = f.param_names()
    if mode == "both" and len(pn) >= 3:
        # the shared builder is partially evaluated for its two uses: state comparator (None) and two-variable comparator (Some)
        ok = True
        cases = (("state", ("ctor", E.NONE, ())), ("two", ("ctor", E.SOME, (("param", "#other"),))))
        # the "other side" may be an Option<&str> or a private two-variant enum (one field-less variant = the state, one carrying the name)
        pty = str(f.param_tys[2]).lstrip("&").split("<", 1)[0].strip()
        adt = eng.prog.adts.get(pty)
        if adt and adt.get("kind") == "enum" and len(adt.get("variants", [])) == 2:
            bare = [v for v in adt["variants"] if not v.get("fields")]
            named = [v for v in adt["variants"] if len(v.get("fields") or []) == 1]
            if len(bare) == 1 and len(named) == 1:
                cases = (("state", ("ctor", f"{pty}::{bare[0]['name']}", ())), ("two", ("ctor", f"{pty}::{named[0]['name']}", (("param", "#other"),))))
        for sub_mode, val in cases:
            try:
                sp = eng.specialise(f, {pn[2]: val})
            except Exception:
                sp = None
            if sp is None:
                ok = False
                break
            check_comparator_summary(rep, rule, f, sp, sub_mode, key=f"{f.name}[{sub_mode}]", other=("param", "#other"))
        if ok:
            return
    s = eng.summary(f)
    check_comparator_summary(rep, rule, f, s, mode, key=f.name)


def check_comparator_summary(rep, rule, f, s, mode, key, other=None):
    where = f"{f.file}:{f.line}"
    pn = f.param_names()
    g = P(pn[0])
    problems = []
    alg = setalg.Alg()
    need = 2 if mode == "both" else 1
    if other is not None:
        need = 1
    if not alg.equivalent(alg.interp(s.ret), ("and", alg.interp(s.ret), alg.interp(S.UNIT(g)))):
        problems.append("the comparator is not intersected with the unit set")
    iffs = calls(s.ret, "iff")
    if len(iffs) < need:
        problems.append("expected one bitwise equivalence per variable (state / other variable)")
    for c in iffs:
        names = []
        for side in c[2]:
            mk = calls(side, "mk_var_by_name")
            if not mk:
                problems.append("equivalence operand is not a BDD variable looked up by name")
                continue
            names.append(mk[0][2][-1])
        fm = []
        for n in names:
            fm += [x for x in [n] + list(subterms(n)) if x[0] == "fmt"][:1]
        own = False
        others = 0
        for n in fm:
            pieces = n[1]
            args = [p_ for p_ in pieces if isinstance(p_, tuple)]
            lits = [p_ for p_ in pieces if isinstance(p_, str)]
            if lits == ["_extra_"] and len(args) == 2 and name_index_ok(args[1][1], pn[1]):
                own = True
            elif lits == ["_extra_"] and len(args) == 2 and len(pn) > 2 and (name_index_ok(args[1][1], pn[2]) or name_index_of_payload(args[1][1], pn[2])
                                                               or (other is not None and name_index_of_term(args[1][1], other))):
                others += 1
            if len(args) == 2 and not (args[1][1][0] == "bin" and args[1][1][1] == "-" and args[1][1][3] == ("lit", 1)
                                       and args[1][1][2][0] == "call" and args[1][1][2][1].endswith("::len")):
                problems.append("symbolic copy index is not `name.len() - 1`")
        if not own:
            problems.append("no operand is the `<var>_extra_<len(name)-1>` copy of the variable being compared")
    want = alg.canon(("call", S.GRAPH + "variables", (g,)))
    if not elems_range_over(s.ret, alg, want):
        problems.append("a loop does not range over all network variables")
    # the conjunction is accumulated with `and` over the loop (for-loop or fold), starting from the unit BDD
    acc = [x for x in subterms(s.ret) if x[0] == "mu" and x[4][0] == "call" and x[4][1].endswith("::and") and ("loopvar", x[1], x[2]) in x[4][2]]
    if len(acc) < need:
        problems.append("conjuncts are not accumulated with `and`")
    rep.check(not problems, rule, key, where,
              "comparator = unit & AND_v (copy(name)_v <=> other_v), copy index = name.len() - 1", "; ".join(sorted(set(problems))))


def name_index_of_term(t, name_term):
    if t[0] != "bin" or t[1] != "-" or t[3] != ("lit", 1):
        return False
    l = t[2]
    return l[0] == "call" and isinstance(l[1], str) and l[1].rsplit("::", 1)[-1] in ("len", "#len") and l[2] and l[2][0] == name_term


def name_index_of_payload(t, name_param):
    """`<other>.len() - 1` where other is the payload of an Option parameter."""
    if t[0] != "bin" or t[1] != "-" or t[3] != ("lit", 1):
        return False
    l = t[2]
    return l[0] == "call" and isinstance(l[1], str) and l[1].endswith("::len") and l[2] and l[2][0][0] == "proj" and l[2][0][1] == P(name_param)


def check_primitives(prog, rep, rule):
    eng = engine(prog)
    # --- comparator constructors -----------------------------------------------------------------------
    cfs = comparator_fns(prog)
    if not cfs:
        rep.unresolved(rule, "create_equalizer", "", "no comparator constructor found")
    for f, mode in cfs:
        check_comparator(rep, rule, eng, f, mode)
    if len(cfs) == 2:
        rep.ok(rule, "comparator/constructors", "", "both public comparator constructors are verified separately")
    # --- project_out_hctl_var ----------------------------------------------------------------------
    f = _fn(prog, "project_out_hctl_var")
    if f is None:
        rep.unresolved(rule, "project_out_hctl_var", "", "function not found")
    else:
        rep.functions.add(f.qual)
        s = eng.summary(f)
        pn = f.param_names()
        g = P(pn[0])
        problems = []
        ex = calls(s.ret, "exists")
        if len(ex) != 1:
            problems.append("result is not exactly one existential projection")
        else:
            bdd, vars_ = ex[0][2][0], ex[0][2][1]
            if not terms.mentions_param(bdd, pn[1]):
                problems.append("projection is not applied to the set argument")
            gets = [c for c in subterms(vars_) if c[0] == "call" and isinstance(c[1], str) and c[1].rsplit("::", 1)[-1] == "get" and len(c[2]) == 2] + \
                   [("call", "index", (c[1], c[2])) for c in subterms(vars_) if c[0] == "index"]
            extra = calls(vars_, "extra_state_variables")
            if not extra or not gets:
                problems.append("projected variables are not taken from extra_state_variables(v).get(index)")
            else:
                if not any(name_index_ok(c[2][-1], pn[2]) for c in gets):
                    problems.append("index of the projected copy is not `name.len() - 1` of the variable name parameter")
                alg = setalg.Alg()
                want = alg.canon(("call", S.GRAPH + "variables", (g,)))
                if not elems_range_over(vars_, alg, want):
                    problems.append("loop does not range over all network variables")
            if calls(vars_, "state_variables") or calls(vars_, "parameter_variables"):
                problems.append("state or parameter variables are projected")
        rep.check(not problems, rule, "project_out_hctl_var", f"{f.file}:{f.line}",
                  "exists over { extra_state_variables(v)[name.len()-1] : v in variables } only", "; ".join(problems))
    # --- project_out_bn_vars -----------------------------------------------------------------------
    f = _fn(prog, "project_out_bn_vars")
    if f is None:
        rep.unresolved(rule, "project_out_bn_vars", "", "function not found")
    else:
        rep.functions.add(f.qual)
        s = eng.summary(f)
        pn = f.param_names()
        ex = calls(s.ret, "exists")
        problems = []
        if len(ex) != 1:
            problems.append("result is not exactly one existential projection")
        else:
            bdd, vars_ = ex[0][2][0], ex[0][2][1]
            if not terms.mentions_param(bdd, pn[1]):
                problems.append("projection is not applied to the set argument")
            if not all_state_variables(vars_, P(pn[0])):
                problems.append(f"projected variable set is {short(vars_, 80)}, not exactly symbolic_context().state_variables()")
        rep.check(not problems, rule, "project_out_bn_vars", f"{f.file}:{f.line}",
                  "exists over exactly the state variables", "; ".join(problems))
    # --- compound primitives: compared as equations over the three primitives above ------------------
    f = _fn(prog, "substitute_hctl_var")
    if f is not None:
        rep.functions.add(f.qual)
        s = eng.summary(f)
        pn = f.param_names()
        g, st, b, a = (P(x) for x in pn[:4])
        cmp2 = ("call", LOW + "create_equalizer", (g, b, ("ctor", E.SOME, (a,))))
        want = E.PROJ_VAR(g, S.AND(st, cmp2), b)
        good = True
        why = []
        lv = leaves(s.ret)
        for conds, t in lv:
            if same(setalg.Alg(), canon_cmp(t), want):
                continue
            if t == st:
                # identity is only correct when both names are equal
                if any(eq_names(c, a, b) is not None and eq_names(c, a, b) == pol for c, pol in conds):
                    continue
                why.append("returns the input unchanged without the names being equal")
            else:
                why.append(f"returns {short(t, 160)}")
            good = False
        if not any(same(setalg.Alg(), canon_cmp(t), want) for _, t in lv):
            good = False
            why.append("never renames")
        rep.check(good, rule, "substitute_hctl_var", f"{f.file}:{f.line}",
                  "renaming = project_out(before)(set & equalizer(before, after)); identity iff the names are equal", "; ".join(why))
    else:
        rep.unresolved(rule, "substitute_hctl_var", "", "function not found")
    f = _fn(prog, "compute_valid_domain_for_var")
    if f is not None:
        rep.functions.add(f.qual)
        s = eng.summary(f)
        pn = f.param_names()
        g, d, v = (P(x) for x in pn[:3])
        cmp1 = ("call", LOW + "create_equalizer", (g, v, ("ctor", E.NONE, ())))
        want = E.PROJ_BN(g, S.AND(d, cmp1))
        rep.check(same(setalg.Alg(), canon_cmp(s.ret), want), rule, "compute_valid_domain_for_var", f"{f.file}:{f.line}",
                  "domain translated to the variable's copy: project_out_bn_vars(domain & comparator(var))",
                  f"computes {short(s.ret, 200)}")
    else:
        rep.unresolved(rule, "compute_valid_domain_for_var", "", "function not found")
