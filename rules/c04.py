"""C04 - sub-formula caching and batch evaluation are observationally transparent.

Decided here (necessary conditions of history independence, each on every path):
  C04-R1  scope pairing: after free_var_domains.insert(var, ..) every exit of eval_node (return, `?`, end) is reached
          only after free_var_domains.remove(&var)  (may-token analysis over the structured control flow);
  C04-R2  key recipe agreement: the writer (mark_duplicates_canonized_multiple) and the reader (eval_node) build the
          key (canonical text, canonical domains of the occurring free variables) by the same recipe, every cache /
          duplicates operation in eval_node uses that one key, and duplicates are recorded only for <= 1 variable;
  C04-R3  key completeness: a store or a hit happens only when the key names every restriction in force
          (`wild-card | all restricted variables of the scope occur in the key`), and a hit is intersected with the
          current unit set;
  C04-R4  renaming discipline on a hit: substitute_hctl_var(graph, set, stored name, current name of the same
          canonical variable); the renaming primitive itself must rename
          (substitute_hctl_var = project_out(before)(set & equalizer(before, after)), identity only for equal names; shared with C03-R3);
  C04-R5  protocol: only look-up / store of the fresh result / eviction touch the cache; eviction only at counter zero
          and never for wild-cards; the counter is decremented exactly once per admitted hit;
  C04-R6  batch threading: every batch driver creates one context from the very list it then evaluates in order,
          outside the loop, and pushes results in iteration order; nothing reorders either vector;
  C04-R7  determinism: iteration over HashMap / HashSet in the evaluation path only feeds order-insensitive uses.
Not decided: equality of the sets between batch and single evaluation (value level)."""
import cacheproto
import evalnode as E
import pipelines
import semantics as sem
import terms
from terms import subterms, pt, place_path

LEVEL = "other"

ORDER_SENSITIVE = ("push", "push_str", "push_back", "write", "write_fmt", "start_file", "print", "_print", "extend_from_slice")
REORDER = ("sort", "sort_by", "sort_by_key", "sort_unstable", "reverse", "dedup", "swap", "retain", "rotate_left", "rotate_right",
           "swap_remove", "truncate", "drain", "sort_unstable_by", "sort_unstable_by_key", "dedup_by_key", "shuffle")


def run(prog, rep):
    rep.explanation = __doc__
    rep.assumptions = ["L1", "canonize_subform yields equal text for sub-formulae equal up to renaming (C09, not decided)"]
    for r, t in (("C04-R1", "scope entry removed on every exit"), ("C04-R2", "writer/reader key recipe agreement, one key, <=1 variable"),
                 ("C04-R3", "store / hit only when the key names all restrictions in force; hits intersected with unit"),
                 ("C04-R4", "renaming on a hit: stored name -> current name of the same canonical variable"),
                 ("C04-R5", "cache protocol: fresh stores, eviction at zero and never for wild-cards, one decrement per hit"),
                 ("C04-R6", "batch drivers: one context from the evaluated list, results in order"),
                 ("C04-R7", "hash-order independent evaluation")):
        rep.rule(r, t)
    en = E.EvalNode(prog)
    if not en.ok():
        rep.unresolved("C04-R1", "eval_node", "", "eval_node not found")
        return
    rep.functions.add(en.fn.qual)
    rep.call_sites += len(en.summ.sites)
    cacheproto.check_scope_pairing(prog, rep, "C04-R1", en)
    rep.floor("C04-R1", 4)
    key = cacheproto.check_eviction_and_counter(prog, rep, "C04-R5", en)
    rep.floor("C04-R5", 6)
    cacheproto.check_key_recipe(prog, rep, "C04-R2", en, key)
    rep.floor("C04-R2", 2)
    cacheproto.check_store_guard(prog, rep, "C04-R3", en)
    cacheproto.check_read_guard(prog, rep, "C04-R3", en)
    rep.floor("C04-R3", 4)
    cacheproto.check_renaming_on_hit(prog, rep, "C04-R4", en)
    # the renaming of a cached set is done by substitute_hctl_var: that primitive must rename (shared with C03-R3 / C08-R4)
    import lowlevel
    sub = type(rep)("C04s")
    lowlevel.check_primitives(prog, sub, "C04-R4")
    for i in sub.instances:
        if i.key.split(":", 1)[-1] == "substitute_hctl_var":
            (rep.ok if i.verdict == "ok" else rep.violation if i.verdict == "violation" else rep.unresolved)("C04-R4", i.key.split(":", 1)[1], i.where, i.detail)
    rep.functions |= sub.functions
    rep.floor("C04-R4", 2)
    check_batch_threading(prog, rep, "C04-R6")
    rep.floor("C04-R6", 6)
    check_hash_iteration(prog, rep, "C04-R7")
    rep.floor("C04-R7", 5)


def iter_sources(it):
    """All collections an iterator expression ranges over in lock-step (both sides of every zip)."""
    t = it
    out = []
    while isinstance(t, tuple) and t and t[0] == "call" and isinstance(t[1], str):
        l = t[1].rsplit("::", 1)[-1]
        if l in ("iter", "into_iter", "enumerate", "by_ref", "cloned", "copied", "peekable") and len(t[2]) == 1:
            t = t[2][0]
        elif l == "zip" and len(t[2]) == 2:
            out += iter_sources(t[2][1])
            t = t[2][0]
        else:
            break
    return [t] + out


def iter_source(it):
    """Collection an iterator expression ranges over, looking through order-preserving adapters."""
    t = it
    while isinstance(t, tuple) and t and t[0] == "call" and isinstance(t[1], str):
        l = t[1].rsplit("::", 1)[-1]
        if l in ("iter", "into_iter", "enumerate", "by_ref", "cloned", "copied", "peekable") and len(t[2]) == 1:
            t = t[2][0]
        elif l == "zip" and len(t[2]) == 2:
            t = t[2][0]
        else:
            break
    return t


BAD_ADAPTERS = ("rev", "skip", "step_by", "filter", "take", "chain", "skip_while", "take_while", "filter_map", "flat_map")


def check_batch_threading(prog, rep, rule):
    drivers = ["model_checking::_model_check_multiple_trees_dirty", "model_checking::_model_check_multiple_extended_formulae_dirty",
               "analysis::analyse_formulae"]
    eng = terms.Engine(prog, inline=True, hooks=E.Hooks(["model_checking::", "analysis::"]))
    for path in drivers:
        f = prog.lib_fn(path)
        if f is None:
            rep.unresolved(rule, path, "", "batch driver not found")
            continue
        rep.functions.add(f.qual)
        s = eng.summary(f)
        sites = s.all_sites()
        evs = [x for x in sites if x.kind == "call" and x.is_call_to("eval_node")]
        ctxs = [x for x in sites if x.kind == "call" and x.is_call_to("from_multiple_trees")]
        where = f"{f.file}:{f.line}"
        if len(evs) != 1 or len(ctxs) != 1:
            rep.unresolved(rule, f"{f.name}/shape", where, f"{len(evs)} eval_node and {len(ctxs)} from_multiple_trees calls (expected 1 and 1)")
            continue
        ev, cx = evs[0], ctxs[0]
        trees = cx.args[0]
        rep.check(not cx.loops, rule, f"{f.name}/one-context", cx.where(), "one context per batch (created outside the loop)",
                  "EvalContext is created inside a loop: sub-formula sharing across the batch is lost or rebuilt per formula")
        fors = [x for x in sites if x.kind == "for" and (x.node.get("loop_id") in ev.loops or x.node["id"] in ev.loops)]
        node_arg = ev.args[0]
        it_ok = False
        why = f"eval_node is applied to {sem.short(node_arg, 100)} while the context was built from {sem.short(trees, 100)}"
        for fs in fors:
            it = fs.args[0]
            src = iter_source(it)
            import norm
            rx = norm.index_range_of(norm.strip_adapters(norm.Normalizer()(src)))
            if rx is not None:
                src = iter_source(rx)       # `for i in 0..trees.len()`: the loop visits the indices of `trees` in order (trees[i] is its element)
            bad = [y[1].rsplit("::", 1)[-1] for y in [it] + list(subterms(it)) if y[0] == "call" and isinstance(y[1], str) and y[1].rsplit("::", 1)[-1] in BAD_ADAPTERS]
            elems = [y for y in [node_arg] + list(subterms(node_arg)) if y[0] == "elem" and iter_source(y[1]) == src]
            import norm
            expected_elem = norm.Normalizer()(("elem", src))        # elem(collect(R, B)) is B
            if expected_elem[0] != "elem" and any(y == expected_elem for y in [node_arg] + list(subterms(node_arg))):
                elems.append(expected_elem)
            if src == trees and elems and not bad:
                it_ok = True
            # `formulae.iter().zip(&trees)`: any side of a zip may be the list of trees (zip visits both in order, in lock-step)
            for alt in iter_sources(it)[1:]:
                ee = norm.Normalizer()(("elem", alt))
                if alt == trees and not bad and (any(y == ee for y in [node_arg] + list(subterms(node_arg))) or
                                                 any(y[0] == "elem" and iter_source(y[1]) == alt for y in [node_arg] + list(subterms(node_arg)))):
                    it_ok = True
            if bad:
                why = f"the evaluation loop iterates through `{bad[0]}`: not every tree is evaluated, or not in order"
        rep.check(it_ok, rule, f"{f.name}/same-list", ev.where(), "the evaluated list is the list the context was built from, in order", why)
        ctx_arg = ev.args[2]
        rep.check(any(x == cx.term for x in [ctx_arg] + list(subterms(ctx_arg))) or terms.contains(ctx_arg, lambda t: t[0] == "loopvar"), rule,
                  f"{f.name}/ctx-threaded", ev.where(), "the same context object is threaded through all evaluations", f"context argument is {sem.short(ctx_arg, 120)}")
        for x in sites:
            if x.kind == "mcall" and x.name in REORDER:
                rep.violation(rule, f"{f.name}/{x.name}@{x.ordinal}", x.where(), f"`{x.name}` reorders a vector in a batch driver")
        stores = [x for x in sites if x.kind == "mcall" and x.name in ("push", "insert") and any(y == ev.term for a in x.args[1:] for y in [a] + list(subterms(a)))]
        collected = [y for r in s.returns for y in [r[0]] + list(subterms(r[0])) if y[0] == "collect" and any(z == ev.term for z in [y[2]] + list(subterms(y[2])))]
        ok_store = (bool(stores) and all(ev.loops == st.loops for st in stores)) or bool(collected)
        rep.check(ok_store, rule, f"{f.name}/results-in-order", ev.where(), "each result is stored in the iteration in which it was computed",
                  "result of eval_node is not pushed / inserted / collected in the same loop iteration")


def check_hash_iteration(prog, rep, rule):
    """Iterations over HashMap / HashSet in functions of the evaluation path: body must be order-insensitive."""
    eng = terms.Engine(prog, inline=False)
    for f in prog.lib_fns():
        if not f.path.startswith(("evaluation::", "model_checking::", "preprocessing::utils", "mc_utils::")):
            continue
        s = eng.summary(f)
        for st in s.sites:
            if st.kind != "for":
                continue
            ty = str(st.ty or "")
            if not ("HashMap" in ty or "HashSet" in ty or "hash_map" in ty or "hash_set" in ty or "hash::" in ty):
                continue
            lid = st.node["id"]
            body_sites = [x for x in s.sites if lid in x.loops and x is not st]
            bad = [x for x in body_sites if x.kind == "mcall" and x.name in ORDER_SENSITIVE]
            subs = [x for x in body_sites if x.kind == "call" and x.is_call_to("substitute_hctl_var")]
            key = f"{f.name}/for@{st.ordinal}"
            if subs:
                # the substitution loop on a cache hit: at most one element, because duplicates are only recorded for
                # sub-formulae with at most one variable (C04-R2 len-guard)
                rep.ok(rule, key, st.where(), "renaming loop over the stored renaming: at most one element (C04-R2 len-guard)")
                continue
            rep.check(not bad, rule, key, st.where(), "iteration over a hash container only feeds order-insensitive operations",
                      f"iteration over a hash container feeds the order-sensitive operation `{bad[0].name}` at line {bad[0].line()}" if bad else "")
