"""C17 - the command-line tool computes the same sets as the library.

Decided here (equality of printed numbers / archived sets with the library's is value-level and not decided):
  C17-R1  pipeline agreement, as equations between normalised terms at the eval_node call of analyse_formulae (helpers of the
          module inlined): the tree is validate_props_and_rename_vars(parse(formula i)) with the extended parser iff a context
          archive is given; the graph is get_extended_symbolic_graph(bn, m) with m an accumulator starting at 0 whose update is
          max(m, number of quantifier variables of the validated tree); the steady states are compute_steady_states of that
          graph; the context is EvalContext::from_multiple_trees(list of the validated trees, one per input formula, in input
          order), extended by extend_context_with_wild_cards exactly when an archive is given, with the two maps accumulated
          from validate_and_divide_wild_cards(tree, load_bdd_bundle(archive, symbolic context of that graph)) for every tree;
  C17-R2  loader: load_formulae returns the filtered list { trim(line) | line in lines(file), trim(line) non-empty and not
          starting with `#` } in file order (the filter condition is compared as a Boolean function); read errors are Err;
  C17-R3  option table: the PossibleValuesParser list, the match on the option string in main and the README list are
          the same four strings, mapped to four distinct PrintOptions;
  C17-R4  error discipline: on the paths of main, analyse_formulae, load_* and build_* no unwrap / expect is applied to a
          Result whose error is an I/O, zip or parser / validator error unless the error case was excluded on the path;
          reviewed exceptions: terminal colour writes, SystemTime::elapsed, SymbolicContext::new(bn) (fails only
          beyond 65535 symbolic variables);
  C17-R5  the numbers printed by summarize_results derive from its `results` argument, which at each call site is the
          value just returned by eval_node for that formula; the archived set is the same value: for every formula and every
          print option, result i is stored under `formula-<i>` in the map that the archive writer receives (shared with C16-R3)."""
import os
import re

import c14
import c16
import effects
import evalnode as E
import norm
import pm
import q
from norm import last
from pm import C, OK, SOME, V, P, ANY
import hir
import pipelines
import semantics as sem
import terms
import wildcards
from terms import subterms, pt, ppc, place_path

LEVEL = "other"
README = os.path.join(os.environ.get("HCTL_REPO", "/repo"), "README.md")
BIN = "hctl_model_checker"
ALLOWED_UNWRAP = ("elapsed", "set_color", "write_fmt", "new")


def run(prog, rep):
    rep.explanation = __doc__
    rep.assumptions = ["clap rejects option values outside PossibleValuesParser before main's match runs"]
    for r, t in (("C17-R1", "analyse_formulae == library pipeline stage by stage"), ("C17-R2", "formula file loader filter"),
                 ("C17-R3", "print option tables agree"), ("C17-R4", "no unwrap on fallible I/O / parse results"),
                 ("C17-R5", "printed and archived values are the evaluated set")):
        rep.rule(r, t)
    eng = terms.Engine(prog, inline=False)
    an = prog.lib_fn("analysis::analyse_formulae")
    if an is None:
        rep.unresolved("C17-R1", "analyse_formulae", "", "function not found")
        return
    rep.functions.add(an.qual)
    import pipelines
    s = pipelines.analysis_engine(prog).summary(an)
    pn = an.param_names()
    bn, formulae, ctxpath = ("param", pn[0]), ("param", pn[1]), ("param", pn[4])
    where = f"{an.file}:{an.line}"
    HASCTX = ("matches", ctxpath, norm.SOME_DESC)
    is_formula = lambda t: t[0] == "elem" and c16.source_root(t[1]) == formulae          # noqa: E731
    evs = [x for x in s.all_sites() if x.kind == "call" and x.is_call_to("eval_node")]
    if len(evs) != 1:
        rep.unresolved("C17-R1", "evaluation", where, f"{len(evs)} eval_node call sites in analyse_formulae")
        return
    ev = evs[0]
    tree = ev.args[0]
    # (1) the evaluated tree: validate_props_and_rename_vars(parse_<flavour>(formula i))
    e = pm.match(OK(C("validate_props_and_rename_vars", V("parsed"), P(lambda t: terms.mentions_param(t, pn[0])))), tree)
    rep.check(e is not None, "C17-R1", "validate", ev.where(), "every evaluated tree went through validate_props_and_rename_vars on a context of the given network",
              f"the evaluated tree is {sem.short(tree, 140)}: not the validated / renamed form of the parsed formula")
    good, why = False, "the parsed tree could not be recovered"
    if e is not None:
        parsed = e["parsed"]
        alts = (("ite", HASCTX, OK(C("parse_extended_formula", V("f"))), OK(C("parse_hctl_formula", V("f")))),
                OK(("ite", HASCTX, C("parse_extended_formula", V("f")), C("parse_hctl_formula", V("f")))))
        e2 = None
        for a_ in alts:
            e2 = e2 or pm.match(a_, parsed)
        good = e2 is not None and is_formula(e2["f"])
        why = (f"the tree is parsed as {sem.short(parsed, 160)}: expected the extended parser iff a context archive is given, the plain parser otherwise, "
               "applied to each input formula")
    rep.check(good, "C17-R1", "parser-flavour", ev.where(), "extended parser iff a context archive is given; every input formula parsed in order", why)
    # (2) the graph: sized by the maximum number of quantifier variables
    eg = pm.match(OK(C("get_extended_symbolic_graph", V("bn"), V("m"))), ev.args[1])
    good = eg is not None and eg["bn"] == bn
    why = f"eval_node runs on {sem.short(ev.args[1], 100)}, not on get_extended_symbolic_graph(bn, ..)"
    if good:
        m = eg["m"]
        good = m[0] == "mu" and m[3] == ("lit", 0)
        why = f"the variable count passed to the graph is {sem.short(m, 100)}, not a maximum accumulated from 0"
        # `trees.iter().map(count).max().unwrap_or(0)`: the same maximum as an iterator pipeline
        nzm = norm.Normalizer()(m)
        if not good and nzm[0] == "ite" and nzm[3] == ("lit", 0) and q.is_some_test(nzm[1]) is not None:
            mx = q.is_some_test(nzm[1])
            if mx[0] == "call" and last(mx[1]) == "max" and len(mx[2]) == 1 and nzm[2] == ("proj", mx, norm.SOME, 0):
                src = mx[2][0]
                body = None
                if src[0] == "hof" and src[1] == "map":
                    body = norm.Normalizer()(src[3])
                elif src[0] == "collect":
                    body = norm.Normalizer()(src[2])
                count = C("len", C("collect_unique_hctl_vars", P(lambda t: pm.strip(t) == pm.strip(tree))))
                good = body is not None and pm.match(count, body) is not None
                why = f"the maximum is taken over {sem.short(body, 120)}: it must be the number of quantifier variables of every validated tree"
                m = None
        if good and m is not None:
            lv, step = ("loopvar", m[1], m[2]), m[4]
            count = C("len", C("collect_unique_hctl_vars", P(lambda t: pm.strip(t) == pm.strip(tree))))
            is_n = lambda t: pm.match(count, t) is not None      # noqa: E731
            ok_step = False
            if step[0] == "ite" and step[1][0] == "bin":
                op, x, y = step[1][1], step[1][2], step[1][3]
                if op in (">", ">=") and is_n(x) and y == lv:
                    ok_step = is_n(step[2]) and step[3] == lv
                elif op in ("<", "<=") and x == lv and is_n(y):
                    ok_step = is_n(step[2]) and step[3] == lv
                elif op in ("<", "<=") and is_n(x) and y == lv:
                    ok_step = step[2] == lv and is_n(step[3])
                elif op in (">", ">=") and x == lv and is_n(y):
                    ok_step = step[2] == lv and is_n(step[3])
            elif step[0] == "call" and last(step[1]) == "max" and len(step[2]) == 2:
                ok_step = (step[2][0] == lv and is_n(step[2][1])) or (step[2][1] == lv and is_n(step[2][0]))
            good = ok_step
            why = f"accumulator update is {sem.short(step, 200)}: it must be max(accumulator, number of quantifier variables of the validated tree)"
    rep.check(good, "C17-R1", "graph/max-variables", ev.where(), "graph sized by the maximum number of quantifier variables over all validated trees", why)
    graph_t = pm.strip(ev.args[1])
    rep.check(pm.match(C("compute_steady_states", P(lambda t: t == graph_t)), ev.args[3]) is not None, "C17-R1", "steady-states", ev.where(),
              "eval_node receives compute_steady_states of the graph it evaluates on", f"the steady-state argument is {sem.short(ev.args[3], 100)}")
    # (3) the context: one EvalContext from all validated trees, in input order
    ctx = ev.args[2]
    init = None
    if ctx[0] == "loopvar":
        info = s.loops.get(ctx[1], {})
        nm = [k for k in info.get("vars", {}) if k == ctx[2]]
        init = info["vars"][nm[0]][0] if nm else None
    elif ctx[0] == "mu":
        init = ctx[3]
    else:
        init = ctx
    items = effects.trace(init, s) if init is not None else []
    good = bool(items) and items[0][0] == "init"
    why = "the evaluation context could not be traced"
    if good:
        ef = pm.match(C("from_multiple_trees", V("trees")), items[0][1])
        good = ef is not None
        why = f"the context starts as {sem.short(items[0][1], 100)}, not EvalContext::from_multiple_trees(all trees)"
        if good:
            trees = ef["trees"]
            good = trees[0] == "collect" and c16.source_root(trees[1]) == formulae and pm.strip(trees[2]) == pm.strip(tree)
            why = f"the context is built from {sem.short(trees, 140)}: not the list of validated trees, one per input formula, in input order"
    rep.check(good, "C17-R1", "evaluation", ev.where(), "one context from all validated trees; eval_node per tree, in input order", why)
    # (4) extended mode
    flat = []
    for it in items[1:]:
        if it[0] == "cond":
            flat += [(x, it[1], True) for x in it[2]] + [(x, it[1], False) for x in it[3]]
        else:
            flat.append((it, None, None))
    ops = [(x, c, pol) for x, c, pol in flat if x[0] == "op"]
    other = [x for x, c, pol in flat if x[0] != "op" or x[1] != "extend_context_with_wild_cards"]
    ex = [x for x in s.all_sites() if x.kind == "mcall" and x.name == "extend_context_with_wild_cards"]
    good = len(ex) == 1 and len(ops) == 1 and not other
    why = f"the context receives {[x[1] if x[0] == 'op' else x[0] for x, _, _ in flat]} before evaluation; expected one extend_context_with_wild_cards"
    if good:
        st = ex[0]
        good = any(pol and t == HASCTX for t, pol in q.conds(st.pc))
        why = "the wild-card context is not installed exactly when a context archive is given"
        loaded = OK(C("load_bdd_bundle", SOME(P(lambda t: t == ctxpath)), C("symbolic_context", P(lambda t: t == graph_t))))
        vd = OK(C("validate_and_divide_wild_cards", P(lambda t: pm.strip(t) == pm.strip(tree)), loaded))
        if good:
            for i, a_ in ((0, st.args[1]), (1, st.args[2])):
                hits = [x for x in [a_] + list(subterms(a_)) if x[0] in ("tproj", "field") and str(x[2]) == str(i) and pm.match(vd, x[1]) is not None]
                calls = [x for x in [a_] + list(subterms(a_)) if x[0] == "call" and isinstance(x[1], str) and last(x[1]) == "validate_and_divide_wild_cards"]
                if not hits or len({pm.strip(c) for c in calls}) != 1:
                    good = False
                    why = (f"argument {i + 1} of extend_context_with_wild_cards is {sem.short(a_, 160)}: expected component {i} of "
                           "validate_and_divide_wild_cards(validated tree, load_bdd_bundle(archive, symbolic context of the sized graph)) for every tree")
    rep.check(good, "C17-R1", "extended-context", ex[0].where() if ex else where,
              "with a context archive: every tree validated against the archived sets, validated maps installed in the context", why)
    rep.floor("C17-R1", 6)
    # ---- R2
    lf = prog.lib_fn("load_inputs::load_formulae")
    if lf is None:
        rep.unresolved("C17-R2", "load_formulae", "", "function not found")
    else:
        rep.functions.add(lf.qual)
        ls = terms.Engine(prog, inline=True, hooks=E.Hooks(["load_inputs::"])).summary(lf)
        lpn = lf.param_names()
        t = ls.ret
        if t[0] == "ite" and q.is_ok_test(t[1]) is not None and t[2][0] == "ctor" and last(t[2][1]) == "Ok" and t[3][0] == "ctor" and last(t[3][1]) == "Err":
            t = t[2]            # `match read { Ok(s) => s, Err(e) => return Err(..) }` instead of `?`: the success value
        el = pm.match(("ctor", P(lambda x: last(x) == "Ok") if False else ANY, (V("list"),)), t) if t[0] == "ctor" and last(t[1]) == "Ok" else None
        good = el is not None
        why = f"load_formulae returns {sem.short(t, 160)}"
        if good:
            lst = el["list"]
            good = lst[0] == "collect" and lst[1][0] == "hof" and lst[1][1] == "filter"
            why = f"the list is {sem.short(lst, 200)}: not a filtered list of lines"
            if good:
                src, cond, val = lst[1][2], lst[1][3], lst[2]
                esrc = pm.match(C("lines", OK(C("read_to_string", V("path")))), src)
                line = ("elem", src)
                trimmed = C("trim", P(lambda x: x == line))
                good = esrc is not None and esrc["path"] == ("param", lpn[0]) and pm.match(trimmed, val) is not None
                why = f"kept value {sem.short(val, 80)} over {sem.short(src, 80)}: expected the trimmed line of the file's lines()"
                if good:
                    import setalg
                    alg = setalg.Alg()

                    def conv(x):
                        if x[0] == "not":
                            return ("not", conv(x[1]))
                        if x[0] == "bin" and x[1] in ("&&", "||"):
                            return ("and" if x[1] == "&&" else "or", conv(x[2]), conv(x[3]))
                        if pm.match(C("#is_empty", trimmed), x) is not None:
                            return ("atom", "EMPTY")
                        if pm.match(C("starts_with", trimmed, P(lambda y: y == ("lit", "#"))), x) is not None:
                            return ("atom", "COMMENT")
                        return ("atom", ("other", repr(x)))
                    want = ("and", ("not", ("atom", "EMPTY")), ("not", ("atom", "COMMENT")))
                    good = alg.equivalent(conv(cond), want)
                    why = f"a line is kept under [{sem.short(cond, 220)}]; it must be kept iff its trimmed form is non-empty and does not start with `#`"
        rep.check(good, "C17-R2", "load_formulae/filter", f"{lf.file}:{lf.line}", "keeps trim(line) iff trim(line) is non-empty and not a comment, in order", why)
        errs = [r for r in ls.returns if r[5] == "try"] + [r for r in ls.returns if r[5] != "try" and any(y[0] == "ctor" and last(y[1]) == "Err" for y in [r[0]] + list(subterms(r[0])))]
        rep.check(bool(errs) and any("read_to_string" in pt(r[0]) or any("read_to_string" in pt(c[1]) for c in r[1] if c[0] in ("if", "match")) for r in errs),
                  "C17-R2", "load_formulae/errors", f"{lf.file}:{lf.line}", "read errors are propagated as Err", "a read error of the formula file is not propagated")
    rep.floor("C17-R2", 2)
    check_options(prog, rep, eng)
    check_error_discipline(prog, rep, eng)
    # ---- R5
    sr = prog.lib_fn("result_print::summarize_results")
    if sr is not None and evs:
        rep.functions.add(sr.qual)
        ss = eng.summary(sr)
        spn = sr.param_names()
        prints = [x for x in ss.sites if x.kind == "call" and x.short() == "_print"]
        card = [x for x in prints if "cardinality" in pt(x.args[0])]
        good = len(card) == 3 and all(terms.mentions_param(x.args[0], spn[1]) for x in card)
        kinds = sorted(("colors" if "colors(" in pt(x.args[0]) else "vertices" if "vertices(" in pt(x.args[0]) else "all") for x in card)
        rep.check(good and kinds == ["all", "colors", "vertices"], "C17-R5", "summarize_results/numbers", f"{sr.file}:{sr.line}",
                  "prints |results|, |results.colors()|, |results.vertices()|", f"printed cardinalities: {kinds}")
        calls = [x for x in s.all_sites() if x.kind == "call" and x.is_call_to("summarize_results", "print_results_full")]
        ok = bool(calls)
        for c in calls:
            res = c.args[1] if c.is_call_to("summarize_results") else c.args[2]
            if res != evs[0].term:
                ok = False
        rep.check(ok, "C17-R5", "analyse_formulae/printed-value", calls[0].where() if calls else where, "the printed set is the value just returned by eval_node",
                  "the set handed to the printers is not the result of eval_node for that formula")
        pf = prog.lib_fn("result_print::print_results_full")
        if pf is not None:
            ps = eng.summary(pf)
            ppn = pf.param_names()
            inner = [x for x in ps.sites if x.kind == "call" and x.is_call_to("summarize_results")]
            mat = [x for x in ps.sites if x.kind == "mcall" and x.name == "materialize"]
            good = len(inner) == 1 and inner[0].args[1] == ("param", ppn[2]) and len(mat) == 1 and terms.mentions_param(mat[0].args[0], ppn[2]) and "vertices(" in pt(mat[0].args[0])
            rep.check(good, "C17-R5", "print_results_full/states", f"{pf.file}:{pf.line}", "exhaustive mode lists results.vertices()",
                      "exhaustive mode does not list the vertices of the evaluated set")
            # the summary block is printed for every result (an empty one included): the call is not under any condition
            uncond = len(inner) == 1 and not any(c[0] in ("if", "match") for c in inner[0].pc)
            rep.check(uncond, "C17-R5", "print_results_full/summary-always", inner[0].where() if inner else f"{pf.file}:{pf.line}",
                      "the summary (formula, counts) is printed unconditionally before the states",
                      "the summary block of the exhaustive mode is only printed under a condition on the result: for some results the formula and its counts are missing")
        # the printers are reached for every evaluated formula: the calls in the evaluation loop are conditioned on the print option only
        for c in calls:
            idx = max([i for i, e_ in enumerate(c.pc) if e_[0] == "loop"] + [-1])
            bad = [pt(t)[:80] for t, pol in q.conds(c.pc[idx + 1:]) if not terms.mentions_param(t, pn[2]) and not (pol and q.is_ok_test(t) is not None)]
            rep.check(not bad, "C17-R5", f"analyse_formulae/printer-reached@{c.ordinal}", c.where(), "the printer call depends on the print option only",
                      f"the printer is only called under {bad}: some results are not reported")
    # the archived sets: result i goes into the result map under `formula-<i>` for every formula and every print option, and the
    # map is what the archive writer receives (shared with C16-R3)
    sub = type(rep)("C17a")
    c16.run(prog, sub)
    for i in sub.instances:
        if i.rule == "C16-R3":
            k_ = i.key.split(":", 1)[1] if ":" in i.key else i.key
            (rep.ok if i.verdict == "ok" else rep.violation if i.verdict == "violation" else rep.unresolved)("C17-R5", "archived/" + k_, i.where, i.detail)
    rep.floor("C17-R5", 5)


def check_options(prog, rep, eng):
    mains = [f for f in prog.fns.values() if f.crate == BIN and f.name == "main"]
    if not mains:
        rep.unresolved("C17-R3", "main", "", "main not found")
        return
    m = mains[0]
    rep.functions.add(m.qual)
    # private helpers of the binary are inlined (the option may be parsed by a helper)
    helpers = [f.path for f in prog.fns.values() if f.crate == BIN and f is not m and not f.derived]
    s = terms.Engine(prog, inline=True, hooks=E.Hooks([], inline_names=helpers)).summary(m)
    calls = [x for x in s.all_sites() if x.kind == "call" and x.is_call_to("analyse_formulae")]
    table = {}
    if calls:
        opt = calls[0].args[2]
        for y in [opt] + list(subterms(opt)):
            if y[0] == "switch":
                for (d, g), v in y[2]:
                    ds = d[1] if d[0] == "or" else (d,)
                    for d1 in ds:
                        if d1[0] == "lit" and isinstance(d1[1], str) and v[0] == "ctor":
                            table[d1[1]] = str(v[1]).rsplit("::", 1)[-1]
            if y[0] == "ite":
                # if-chain on string comparisons
                for z in [y[1]] + list(subterms(y[1])):
                    if z[0] == "bin" and z[1] == "==" and y[2][0] == "ctor":
                        for side in (z[2], z[3]):
                            if side[0] == "lit" and isinstance(side[1], str):
                                table.setdefault(side[1], str(y[2][1]).rsplit("::", 1)[-1])
    # PossibleValuesParser list: string literals of the derive-generated parser (source snippet of the attribute)
    poss = set()
    for c in prog.crates.values():
        pass
    src = os.path.join(os.environ.get("HCTL_REPO", "/repo"), m.file)
    try:
        txt = open(src).read()
        mm = re.search(r"PossibleValuesParser::new\(\[(.*?)\]\)", txt, re.S)
        if mm:
            poss = set(re.findall(r'"([^"]+)"', mm.group(1)))
    except OSError:
        pass
    readme = set()
    try:
        rt = open(README).read()
        mm = re.search(r"PRINT_OPTION>`.*?one of (.*)", rt)
        if mm:
            readme = set(re.findall(r"`([a-z\-]+)`", mm.group(1))) or set(x.strip("`. ") for x in mm.group(1).split("/"))
    except OSError:
        pass
    good = len(table) == 4 and set(table) == poss == readme and len(set(table.values())) == 4
    rep.check(good, "C17-R3", "print-options", f"{m.file}:{m.line}", f"{sorted(table.items())}",
              f"main maps {sorted(table.items())}; clap accepts {sorted(poss)}; README documents {sorted(readme)}")
    if calls:
        a = calls[0].args
        good = "try_from_file" in pt(a[0]) and "load_formulae" in pt(a[1]) and "output_bundle" in pt(a[3]) and "extended_context" in pt(a[4])
        rep.check(good, "C17-R3", "main/arguments", calls[0].where(), "model, formulae, print option, output bundle and context archive are the parsed CLI arguments",
                  f"analyse_formulae receives {[sem.short(x, 50) for x in a]}")
    rep.floor("C17-R3", 2)


def check_error_discipline(prog, rep, eng):
    fns = [f for f in prog.fns.values() if not f.derived and ((f.crate == BIN) or f.path.startswith(("analysis::", "load_inputs::", "generate_output::", "result_print::")))]
    n = 0
    for f in fns:
        s = eng.summary(f)
        rep.functions.add(f.qual)
        # one instance per analysed function (so that replacing unwraps by matches never makes the rule vacuous)
        rep.ok("C17-R4", f"{f.name}/analysed", f"{f.file}:{f.line}", "every unwrap / expect of the function is examined (those that can fail are reported separately)")
        for x in s.sites:
            if x.kind != "mcall" or x.name not in ("unwrap", "expect"):
                continue
            recv = x.args[0]
            ty = str(x.argnodes[0].get("ty")) if x.argnodes and x.argnodes[0] else ""
            tested = c14.known_some(x.pc, recv) or (recv[0] == "ctor" and last(recv[1]) in ("Some", "Ok"))
            if "Result<" not in ty and "result::Result" not in ty:
                # Option: `r.err().unwrap()` / `r.ok().unwrap()` after the Result was tested; Options tested before use
                if recv[0] == "call" and isinstance(recv[1], str) and last(recv[1]) in ("err", "ok") and len(recv[2]) == 1:
                    want_ok = last(recv[1]) == "ok"
                    if any(q.is_ok_test(t) == recv[2][0] and pol == want_ok for t, pol in q.conds(x.pc)):
                        n += 1
                        rep.ok("C17-R4", f"{f.name}/unwrap@{x.ordinal}", x.where(), "err()/ok() of a Result tested with is_err / is_ok")
                    continue
                if tested:
                    n += 1
                    rep.ok("C17-R4", f"{f.name}/unwrap@{x.ordinal}", x.where(), "Option tested before unwrap")
                continue
            n += 1
            inner = c14.origin(recv)
            allowed = inner in ALLOWED_UNWRAP and (inner != "new" or (recv[0] == "call" and "SymbolicContext" in str(recv[1])))
            rep.check(tested or allowed, "C17-R4", f"{f.name}/unwrap:{inner}@{x.ordinal}", x.where(),
                      "Result unwrapped only after the error case was excluded (or reviewed exception)",
                      f"`{x.name}` on the fallible result of `{inner}` in {f.path}: an unreadable input / invalid formula / missing label crashes instead of being reported")
    rep.floor("C17-R4", 8)
