"""C17 - the command-line tool computes the same sets as the library.

Decided here (equality of printed numbers / archived sets with the library's is value-level and not decided):
  C17-R1  pipeline agreement: analyse_formulae runs the library's stages with corresponding arguments - parser flavour
          chosen by the presence of the context archive, validate_props_and_rename_vars per formula, the graph from
          get_extended_symbolic_graph(bn, m) with m the maximum over the formulae of the number of quantifier variables
          (an accumulator only ever replaced by a larger value), EvalContext::from_multiple_trees(all trees) once,
          extend_context_with_wild_cards iff extended and fed by validate_and_divide_wild_cards(tree, <sets loaded from the
          archive with the graph's symbolic context>) for every tree, compute_steady_states of that graph, eval_node
          per tree in file order with exactly these values;
  C17-R2  loader: load_formulae pushes a line iff its trimmed form is non-empty and does not start with `#`, pushes the
          trimmed form, in file order; read errors are returned as Err;
  C17-R3  option table: the PossibleValuesParser list, the match on the option string in main and the README list are
          the same four strings, mapped to four distinct PrintOptions;
  C17-R4  error discipline: on the paths of main, analyse_formulae, load_* and build_* no unwrap / expect is applied to a
          Result whose error is an I/O, zip or parser / validator error unless the same value was tested with is_err
          first; reviewed exceptions: terminal colour writes, SystemTime::elapsed, SymbolicContext::new(bn) (fails only
          beyond 65535 symbolic variables);
  C17-R5  the numbers printed by summarize_results derive from its `results` argument, which at each call site is the
          value just returned by eval_node for that formula; the archived set is the same value."""
import os
import re

import evalnode as E
import hir
import pipelines
import semantics as sem
import terms
import wildcards
from terms import subterms, pt, ppc, place_path

LEVEL = "other"
README = os.path.join(os.environ.get("HCTL_REPO", "/repo"), "README.md")
BIN = "hctl_model_checker"
ALLOWED_UNWRAP = ("elapsed", "set_color", "write_fmt", "new")


def run(prog, rep):
    rep.explanation = __doc__
    rep.assumptions = ["clap rejects option values outside PossibleValuesParser before main's match runs"]
    for r, t in (("C17-R1", "analyse_formulae == library pipeline stage by stage"), ("C17-R2", "formula file loader filter"),
                 ("C17-R3", "print option tables agree"), ("C17-R4", "no unwrap on fallible I/O / parse results"),
                 ("C17-R5", "printed and archived values are the evaluated set")):
        rep.rule(r, t)
    eng = terms.Engine(prog, inline=False)
    an = prog.lib_fn("analysis::analyse_formulae")
    if an is None:
        rep.unresolved("C17-R1", "analyse_formulae", "", "function not found")
        return
    rep.functions.add(an.qual)
    s = eng.summary(an)
    pn = an.param_names()
    bn, formulae, ctxpath = ("param", pn[0]), ("param", pn[1]), ("param", pn[4])
    ext_cond = ("call", None)

    def one(name, kind="call"):
        xs = [x for x in s.sites if x.kind == kind and (x.is_call_to(name) if kind == "call" else x.name == name)]
        return xs

    where = f"{an.file}:{an.line}"
    pe, ph = one("parse_extended_formula"), one("parse_hctl_formula")
    good = len(pe) == 1 and len(ph) == 1
    why = "expected one call of each parser flavour"
    if good:
        def flag(site):
            out = []
            for c in site.pc:
                if c[0] == "if" and terms.mentions_param(c[1], pn[4]):
                    t, neg = c[1], False
                    while t[0] == "not":
                        neg = not neg
                        t = t[1]
                    out.append((t, c[2] != neg))
            return out
        fe, fh = flag(pe[0]), flag(ph[0])
        good = (len(fe) == 1 and len(fh) == 1 and fe[0][0] == fh[0][0] and fe[0][1] and not fh[0][1]
                and fe[0][0][0] == "call" and fe[0][0][1].endswith("is_some") and fe[0][0][2] == (ctxpath,))
        why = "the parser flavour is not selected by `context archive given`"
        loop = [x for x in s.sites if x.kind == "for" and x.node["id"] in pe[0].loops]
        if good:
            good = len(loop) == 1 and pe[0].args[0] == ph[0].args[0] and any(y == ("elem", loop[0].args[0]) for y in subterms(pe[0].args[0]))
            base = loop[0].args[0] if loop else None
            while base is not None and base[0] == "call" and base[1].rsplit("::", 1)[-1] in ("iter", "into_iter", "enumerate") and len(base[2]) == 1:
                base = base[2][0]
            good = good and base == formulae
            why = "the parsed strings are not the input formulae in order"
    rep.check(good, "C17-R1", "parser-flavour", pe[0].where() if pe else where, "extended parser iff a context archive is given; every input formula parsed in order", why)
    val = one("validate_props_and_rename_vars")
    good = len(val) == 1 and pe and ph and all(any(y == p[0].term for y in subterms(val[0].args[0])) for p in (pe, ph))
    rep.check(good, "C17-R1", "validate", val[0].where() if val else where, "every parsed tree goes through validate_props_and_rename_vars",
              "the parsed tree is not validated / renamed before evaluation")
    # maximum number of variables
    gsite = one("get_extended_symbolic_graph")
    good = len(gsite) == 1 and gsite[0].args[0] == bn
    why = "graph is not built for the given network"
    if good:
        m = gsite[0].args[1]
        mus = [y for y in [m] + list(subterms(m)) if y[0] == "mu"]
        good = len(mus) >= 1
        why = f"the variable count passed to the graph is {sem.short(m, 100)}, not an accumulated maximum"
        if good:
            mu = mus[0]
            init, step = mu[3], mu[4]
            lv = ("loopvar", mu[1], mu[2])
            # step = ite(n > X ? n : X) with n = number of quantifier variables of the validated tree
            good = (init == ("lit", 0) and step[0] == "ite" and step[1][0] == "bin" and step[1][1] in (">", ">=") and step[1][3] == lv and step[2] == step[1][2]
                    and step[3] == lv and "collect_unique_hctl_vars" in pt(step[2]) and val and any(y == val[0].term for y in subterms(step[2])))
            if not good and step[0] == "call" and step[1].rsplit("::", 1)[-1] == "max":
                good = init == ("lit", 0) and lv in step[2] and any("collect_unique_hctl_vars" in pt(a) for a in step[2])
            why = f"accumulator update is {sem.short(step, 160)}: it must only ever be replaced by a larger count"
    rep.check(good, "C17-R1", "graph/max-variables", gsite[0].where() if gsite else where, "graph sized by the maximum number of quantifier variables", why)
    graph_t = terms.mk_proj(gsite[0].term, "std::result::Result::Ok", 0) if gsite else None      # `get_extended_symbolic_graph(..)?`
    # context
    fm = one("from_multiple_trees")
    evs = one("eval_node")
    good = len(fm) == 1 and len(evs) == 1 and not fm[0].loops
    why = f"{len(fm)} contexts, {len(evs)} eval_node sites"
    trees = fm[0].args[0] if fm else None
    if good:
        ev = evs[0]
        loop = [x for x in s.sites if x.kind == "for" and x.node["id"] in ev.loops]
        it = loop[0].args[0] if loop else None
        base = it
        while base is not None and base[0] == "call" and base[1].rsplit("::", 1)[-1] in ("iter", "into_iter", "enumerate") and len(base[2]) == 1:
            base = base[2][0]
        good = base == trees and any(y == ("elem", it) for y in subterms(ev.args[0]))
        why = "the evaluated trees are not the list the context was built from, in order"
        if good:
            pushes = [x for x in s.sites if x.kind == "mcall" and x.name == "push" and val and any(y == val[0].term for a in x.args[1:] for y in [a] + list(subterms(a)))]
            good = len(pushes) == 1 and trees[0] == "mu"
            why = "the tree list is not the list of validated trees"
        if good:
            good = ev.args[1] == graph_t and pipelines.is_steady_of(ev.args[3], graph_t)
            why = "eval_node is not called on the sized graph with that graph's steady states"
    rep.check(good, "C17-R1", "evaluation", evs[0].where() if evs else where, "one context from all validated trees; eval_node per tree in order on the sized graph", why)
    # extended context
    ld = one("load_bdd_bundle")
    vd = one("validate_and_divide_wild_cards")
    ex = [x for x in s.sites if x.kind == "mcall" and x.name == "extend_context_with_wild_cards"]
    good = len(ld) == 1 and len(vd) == 1 and len(ex) == 1
    why = f"{len(ld)} load_bdd_bundle, {len(vd)} validate_and_divide_wild_cards, {len(ex)} extend_context_with_wild_cards"
    if good:
        sc = ld[0].args[1]
        good = sc[0] == "call" and sc[1].endswith("symbolic_context") and sc[2] == (graph_t,) and terms.mentions_param(ld[0].args[0], pn[4])
        why = "context sets are not loaded from the given archive with the sized graph's symbolic context"
        if good:
            loop = [x for x in s.sites if x.kind == "for" and x.node["id"] in vd[0].loops]
            base = loop[0].args[0] if loop else None
            while base is not None and base[0] == "call" and base[1].rsplit("::", 1)[-1] in ("iter", "into_iter") and len(base[2]) == 1:
                base = base[2][0]
            good = len(loop) == 1 and base == trees and vd[0].args[0] == ("elem", loop[0].args[0]) and vd[0].args[1] == terms.mk_proj(ld[0].term, "std::result::Result::Ok", 0)
            why = "not every evaluated tree is validated against the loaded context"
        if good:
            good = all(any(y == vd[0].term for y in subterms(a)) for a in ex[0].args[1:3]) and any(y == fm[0].term for y in [ex[0].args[0]] + list(subterms(ex[0].args[0])))
            why = "the maps handed to the context do not derive from validate_and_divide_wild_cards"
        if good:
            def under_ext(site):
                return any(c[0] == "if" and c[2] and c[1][0] == "call" and c[1][1].endswith("is_some") and c[1][2] == (ctxpath,) for c in site.pc)
            good = under_ext(ld[0]) and under_ext(ex[0])
            why = "wild-card handling is not conditioned on the context archive being given"
    rep.check(good, "C17-R1", "extended-context", vd[0].where() if vd else where,
              "with a context archive: every tree validated against the archived sets, validated maps installed in the context", why)
    rep.floor("C17-R1", 5)
    # ---- R2
    lf = prog.lib_fn("load_inputs::load_formulae")
    if lf is None:
        rep.unresolved("C17-R2", "load_formulae", "", "function not found")
    else:
        rep.functions.add(lf.qual)
        ls = eng.summary(lf)
        pushes = [x for x in ls.sites if x.kind == "mcall" and x.name == "push"]
        fors = [x for x in ls.sites if x.kind == "for"]
        good = len(pushes) == 1 and len(fors) == 1
        why = f"{len(pushes)} pushes, {len(fors)} loops"
        if good:
            it = fors[0].args[0]
            line = ("elem", it)
            lines_ok = it[0] == "call" and it[1].endswith("::lines")
            trimmed = None
            for y in [pushes[0].args[1]] + list(subterms(pushes[0].args[1])):
                if y[0] == "call" and y[1].endswith("::trim") and y[2] == (line,):
                    trimmed = y
            good = lines_ok and trimmed is not None
            why = "the pushed value is not the trimmed line of a `lines()` iteration"
            if good:
                conds = []
                for c in pushes[0].pc:
                    if c[0] == "if":
                        conds.append((c[1], c[2]))
                import setalg
                alg = setalg.Alg()

                def conv(t):
                    if t[0] == "not":
                        return ("not", conv(t[1]))
                    if t[0] == "bin" and t[1] in ("&&", "||"):
                        return ("and" if t[1] == "&&" else "or", conv(t[2]), conv(t[3]))
                    if t[0] == "call" and t[1].endswith("::is_empty") and t[2] == (trimmed,):
                        return ("atom", "EMPTY")
                    if t[0] == "call" and t[1].endswith("::starts_with") and t[2] == (trimmed, ("lit", "#")):
                        return ("atom", "COMMENT")
                    return ("atom", ("other", repr(t)))
                e = setalg.TRUE
                for t, pol in conds:
                    x = conv(t)
                    e = ("and", e, x if pol else ("not", x))
                want = ("and", ("not", ("atom", "EMPTY")), ("not", ("atom", "COMMENT")))
                good = alg.equivalent(e, want)
                why = f"a line is kept under [{ppc(pushes[0].pc)[-220:]}]; it must be kept iff its trimmed form is non-empty and does not start with `#`"
        rep.check(good, "C17-R2", "load_formulae/filter", f"{lf.file}:{lf.line}", "keeps trim(line) iff trim(line) is non-empty and not a comment, in order", why)
        errs = [r for r in ls.returns if r[5] == "try"]
        rep.check(bool(errs) and "read_to_string" in pt(errs[0][0]), "C17-R2", "load_formulae/errors", f"{lf.file}:{lf.line}", "read errors are propagated as Err",
                  "a read error of the formula file is not propagated")
    rep.floor("C17-R2", 2)
    check_options(prog, rep, eng)
    check_error_discipline(prog, rep, eng)
    # ---- R5
    sr = prog.lib_fn("result_print::summarize_results")
    if sr is not None and evs:
        rep.functions.add(sr.qual)
        ss = eng.summary(sr)
        spn = sr.param_names()
        prints = [x for x in ss.sites if x.kind == "call" and x.short() == "_print"]
        card = [x for x in prints if "cardinality" in pt(x.args[0])]
        good = len(card) == 3 and all(terms.mentions_param(x.args[0], spn[1]) for x in card)
        kinds = sorted(("colors" if "colors(" in pt(x.args[0]) else "vertices" if "vertices(" in pt(x.args[0]) else "all") for x in card)
        rep.check(good and kinds == ["all", "colors", "vertices"], "C17-R5", "summarize_results/numbers", f"{sr.file}:{sr.line}",
                  "prints |results|, |results.colors()|, |results.vertices()|", f"printed cardinalities: {kinds}")
        calls = [x for x in s.sites if x.kind == "call" and x.is_call_to("summarize_results", "print_results_full")]
        ok = bool(calls)
        for c in calls:
            res = c.args[1] if c.is_call_to("summarize_results") else c.args[2]
            if res != evs[0].term:
                ok = False
        rep.check(ok, "C17-R5", "analyse_formulae/printed-value", calls[0].where() if calls else where, "the printed set is the value just returned by eval_node",
                  "the set handed to the printers is not the result of eval_node for that formula")
        pf = prog.lib_fn("result_print::print_results_full")
        if pf is not None:
            ps = eng.summary(pf)
            ppn = pf.param_names()
            inner = [x for x in ps.sites if x.kind == "call" and x.is_call_to("summarize_results")]
            mat = [x for x in ps.sites if x.kind == "mcall" and x.name == "materialize"]
            good = len(inner) == 1 and inner[0].args[1] == ("param", ppn[2]) and len(mat) == 1 and terms.mentions_param(mat[0].args[0], ppn[2]) and "vertices(" in pt(mat[0].args[0])
            rep.check(good, "C17-R5", "print_results_full/states", f"{pf.file}:{pf.line}", "exhaustive mode lists results.vertices()",
                      "exhaustive mode does not list the vertices of the evaluated set")
    rep.floor("C17-R5", 3)


def check_options(prog, rep, eng):
    mains = [f for f in prog.fns.values() if f.crate == BIN and f.name == "main"]
    if not mains:
        rep.unresolved("C17-R3", "main", "", "main not found")
        return
    m = mains[0]
    rep.functions.add(m.qual)
    s = eng.summary(m)
    calls = [x for x in s.sites if x.kind == "call" and x.is_call_to("analyse_formulae")]
    table = {}
    if calls:
        opt = calls[0].args[2]
        if opt[0] == "switch":
            for (d, g), v in opt[2]:
                if d[0] == "lit" and v[0] == "ctor":
                    table[d[1]] = str(v[1]).rsplit("::", 1)[-1]
    # PossibleValuesParser list: string literals of the derive-generated parser (source snippet of the attribute)
    poss = set()
    for c in prog.crates.values():
        pass
    src = os.path.join(os.environ.get("HCTL_REPO", "/repo"), m.file)
    try:
        txt = open(src).read()
        mm = re.search(r"PossibleValuesParser::new\(\[(.*?)\]\)", txt, re.S)
        if mm:
            poss = set(re.findall(r'"([^"]+)"', mm.group(1)))
    except OSError:
        pass
    readme = set()
    try:
        rt = open(README).read()
        mm = re.search(r"PRINT_OPTION>`.*?one of (.*)", rt)
        if mm:
            readme = set(re.findall(r"`([a-z\-]+)`", mm.group(1))) or set(x.strip("`. ") for x in mm.group(1).split("/"))
    except OSError:
        pass
    good = len(table) == 4 and set(table) == poss == readme and len(set(table.values())) == 4
    rep.check(good, "C17-R3", "print-options", f"{m.file}:{m.line}", f"{sorted(table.items())}",
              f"main maps {sorted(table.items())}; clap accepts {sorted(poss)}; README documents {sorted(readme)}")
    if calls:
        a = calls[0].args
        good = "try_from_file" in pt(a[0]) and "load_formulae" in pt(a[1]) and "output_bundle" in pt(a[3]) and "extended_context" in pt(a[4])
        rep.check(good, "C17-R3", "main/arguments", calls[0].where(), "model, formulae, print option, output bundle and context archive are the parsed CLI arguments",
                  f"analyse_formulae receives {[sem.short(x, 50) for x in a]}")
    rep.floor("C17-R3", 2)


def check_error_discipline(prog, rep, eng):
    fns = [f for f in prog.fns.values() if not f.derived and ((f.crate == BIN) or f.path.startswith(("analysis::", "load_inputs::", "generate_output::", "result_print::")))]
    n = 0
    for f in fns:
        s = eng.summary(f)
        rep.functions.add(f.qual)
        for x in s.sites:
            if x.kind != "mcall" or x.name not in ("unwrap", "expect"):
                continue
            recv = x.args[0]
            ty = str(x.argnodes[0].get("ty")) if x.argnodes and x.argnodes[0] else ""
            if "Result<" not in ty and "result::Result" not in ty:
                # Option: only flag Options that come from user data
                if recv == ("param", "context_archive_path") or any(c[0] == "if" and c[2] and c[1][0] == "call" and c[1][1].endswith("is_some") and c[1][2] == (recv,) for c in x.pc):
                    n += 1
                    rep.ok("C17-R4", f"{f.name}/unwrap@{x.ordinal}", x.where(), "Option tested with is_some before unwrap")
                    continue
                if recv[0] == "call" and recv[1].rsplit("::", 1)[-1] in ("err", "ok") and any(
                        c[0] == "if" and c[1][0] == "call" and c[1][1].rsplit("::", 1)[-1] in ("is_err", "is_ok") and c[1][2] == recv[2] for c in x.pc):
                    n += 1
                    rep.ok("C17-R4", f"{f.name}/unwrap@{x.ordinal}", x.where(), "err()/ok() of a Result tested with is_err / is_ok")
                    continue
                continue
            n += 1
            tested = any(c[0] == "if" and c[1][0] == "call" and c[1][1].rsplit("::", 1)[-1] == "is_err" and c[1][2] == (recv,) and not c[2] for c in x.pc) or \
                any(c[0] == "if" and c[1][0] == "call" and c[1][1].rsplit("::", 1)[-1] == "is_ok" and c[1][2] == (recv,) and c[2] for c in x.pc)
            inner = recv[1].rsplit("::", 1)[-1] if recv[0] == "call" and isinstance(recv[1], str) else ""
            allowed = inner in ALLOWED_UNWRAP and (inner != "new" or "SymbolicContext" in recv[1])
            rep.check(tested or allowed, "C17-R4", f"{f.name}/unwrap:{inner}@{x.ordinal}", x.where(),
                      "Result unwrapped only after is_err was excluded (or reviewed exception)",
                      f"`{x.name}` on the fallible result of `{inner}` in {f.path}: an unreadable input / invalid formula / missing label crashes instead of being reported")
    rep.floor("C17-R4", 8)
