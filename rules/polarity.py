"""Polarity inference on Herbrand terms: how does the value depend on a parameter?
  '+' monotone, '-' antitone, '±' both, '0' not at all.
Transfer: intersect/union join, minus flips its right operand, the pre-image family and projections are monotone
(L2, L6), loop iterates (mu) are the join of init and step with the loop variable itself counted as '+',
control-flow alternatives (ite / join / switch) join their branches; any other dependence is '±'."""
from setalg import is_trait_call, _last

MONOTONE_FNS = ("pre", "post", "var_pre", "var_post", "var_can_pre", "var_can_post", "exists", "project_out_hctl_var",
                "project_out_bn_vars", "as_bdd", "into_bdd", "copy", "new", "clone", "intersect_colors")


def flip(p):
    return {"+": "-", "-": "+"}.get(p, p)


def join(a, b):
    if a == "0":
        return b
    if b == "0":
        return a
    if a == b:
        return a
    return "±"


def polarity(t, param, memo=None):
    if memo is None:
        memo = {}
    if not isinstance(t, tuple) or not t:
        return "0"
    if t in memo:
        return memo[t]
    memo[t] = "0"       # cycles cannot occur (terms are trees), placeholder only
    k = t[0]
    r = "0"
    if k == "param":
        r = "+" if t[1] == param else "0"
    elif k == "call":
        path, args = t[1], t[2]
        if is_trait_call(path, "Set", "minus") or is_trait_call(path, "Bdd", "and_not"):
            r = join(polarity(args[0], param, memo), flip(polarity(args[1], param, memo)))
        elif is_trait_call(path, "Bdd", "not"):
            r = flip(polarity(args[0], param, memo))
        elif (is_trait_call(path, "Set", "intersect") or is_trait_call(path, "Set", "union") or is_trait_call(path, "Bdd", "and")
              or is_trait_call(path, "Bdd", "or") or _last(path) in MONOTONE_FNS):
            for a in args:
                r = join(r, polarity(a, param, memo))
        else:
            for a in args:
                p = polarity(a, param, memo)
                if p != "0":
                    r = "±"
    elif k == "mu":
        r = join(polarity(t[3], param, memo), polarity(t[4], param, memo))
    elif k == "ite":
        # the condition only selects between alternatives of a chaotic iteration / shortcut
        r = join(polarity(t[2], param, memo), polarity(t[3], param, memo))
    elif k == "join":
        for a in t[1]:
            r = join(r, polarity(a, param, memo))
    elif k == "switch":
        for _, v in t[2]:
            r = join(r, polarity(v, param, memo))
    elif k in ("loopvar", "lit", "def", "unit", "never", "unk"):
        r = "0"
    else:
        for a in t[1:]:
            if isinstance(a, tuple):
                p = polarity(a, param, memo)
                if p != "0":
                    r = "±"
    memo[t] = r
    return r
