"""Normal forms for idiom variants (applied to every summary before any rule looks at it), so that the rules
depend on what the code computes and not on which of several equivalent idioms it is written in:

  Option / Result tests      x.is_some(), matches!(x, Some(_)), `if let Some(_) = x`, !x.is_none()      ->  matches(x, SOME)
                             x.is_ok() / is_err() / Ok(_) / Err(_) patterns                              ->  matches(x, OK)
  payload                    x.unwrap(), x.expect(..), the binding of `if let Some(v) = x`               ->  proj(x, Some, 0)
  map look-ups               m.contains_key(k), m.get(k).is_some(), `if let Some(v) = m.get(k)`, m[k]    ->  over `#get(m, k)`
  two-armed option matches   match x { Some(v) => A, None => B }                                         ->  ite(matches(x, SOME), A, B)
  negated conditions         ite(!c, a, b) -> ite(c, b, a);  !!c -> c
  iterator algebra           any(P) -> !all(!P);  elem(map(R, B)) -> B;  elem(rev / iter / filter (R)) -> elem(R);
                             find(R, P).unwrap() -> elem(R);  collect(map(R, B)) -> collect(R, B);  comparisons are ordered."""

SOME = "std::prelude::v1::Some"
OK = "std::prelude::v1::Ok"
SOME_DESC = ("var", SOME, (("wild",),), None)
OK_DESC = ("var", OK, (("wild",),), None)
GET = "#map::get"
EMPTY = "#is_empty"
CLONES = ("clone", "to_owned", "as_ref", "as_deref", "cloned", "copied", "borrow")

ADAPTERS = ("iter", "into_iter", "rev", "cloned", "copied", "by_ref", "iter_mut", "peekable", "keys_unused")
MAP_TYPES = ("HashMap", "BTreeMap", "hash::map", "btree::map", "collections")


def okey(t, depth=4):
    """Bounded-depth ordering key (terms are DAGs: a full repr can be exponentially large)."""
    if not isinstance(t, tuple):
        return (0, repr(t))
    if not t:
        return (0, "()")
    head = t[0] if isinstance(t[0], str) else "#"
    if depth == 0:
        return (1, head, len(t))
    rest = t[1:] if isinstance(t[0], str) else t
    return (0 if head == "lit" else 1, head, tuple(okey(x, depth - 1) for x in rest))


def _int(v):
    import terms
    return terms.Int(v)


def last(p):
    return p.rsplit("::", 1)[-1] if isinstance(p, str) else ""


def is_map_path(path):
    return isinstance(path, str) and any(m in path for m in MAP_TYPES) and "Set" not in path.split("::")[-2:-1][0:1]


def wildish(d):
    """Irrefutable sub-pattern: `_`, a binding, or a tuple of irrefutable patterns."""
    return d[0] == "wild" or (d[0] == "tuple" and all(wildish(x) for x in d[1]))


def desc_kind(d):
    """'some' / 'none' / 'ok' / 'err' for descriptors that only test the variant (payload patterns are wildcards)."""
    if d[0] != "var" or not isinstance(d[1], str):
        return None
    l = last(d[1])
    subs = d[2]
    if d[3] == "struct":
        payload_ok = all(wildish(x[1]) for x in subs)
    else:
        payload_ok = all(wildish(x) for x in subs)
    if not payload_ok:
        return None
    return {"Some": "some", "None": "none", "Ok": "ok", "Err": "err"}.get(l)


def M(x, which):
    return ("matches", x, SOME_DESC if which == "some" else OK_DESC)


_THROUGH = None


def neg(t):
    if t[0] == "not":
        return t[1]
    if t == ("lit", True):
        return ("lit", False)
    if t == ("lit", False):
        return ("lit", True)
    return ("not", t)


def strip_adapters(t):
    while isinstance(t, tuple) and t and t[0] == "call" and last(t[1]) in ADAPTERS and len(t[2]) == 1:
        t = t[2][0]
    return t


def _sub(t):
    """All tuples inside t (terms and containers).  Terms are DAGs with heavy sharing: every shared object is visited once."""
    stack, seen = [t], set()
    while stack:
        x = stack.pop()
        if not isinstance(x, tuple) or not x or id(x) in seen:
            continue
        seen.add(id(x))
        yield x
        for y in reversed(x):
            if isinstance(y, tuple):
                stack.append(y)


def index_range_of(t):
    """x if t is the range `0..x.len()`."""
    if isinstance(t, tuple) and t and t[0] == "struct" and last(t[1]) == "Range":
        f = dict(t[2])
        a, b = f.get("start"), f.get("end")
        if a is not None and b is not None and a[0] == "lit" and not isinstance(a[1], bool) and a[1] == 0 and b[0] == "call" and isinstance(b[1], str) \
                and (b[1] == "#len" or last(b[1]) == "len") and len(b[2]) == 1:
            return strip_adapters(b[2][0])
    return None


def fallible_leaves(t, which, depth=0):
    """The value is a case split whose leaves are Ok(..)/Err(..) (which == "ok") or Some(..)/None constructors."""
    names = ("Ok", "Err") if which == "ok" else ("Some", "None")
    if not isinstance(t, tuple) or not t or depth > 12:
        return False
    if t[0] == "ctor":
        return last(t[1]) in names
    if t[0] == "ite":
        return fallible_leaves(t[2], which, depth + 1) and fallible_leaves(t[3], which, depth + 1)
    if t[0] == "switch":
        return bool(t[2]) and all(fallible_leaves(v, which, depth + 1) for _, v in t[2])
    return False


class Normalizer:
    def __init__(self):
        self.memo = {}

    def __call__(self, t):
        return self.norm(t)

    def norm(self, t):
        if not isinstance(t, tuple) or not t:
            return t
        # memo by identity: terms are DAGs with heavy sharing, and hashing a nested tuple walks it as a tree every time
        hit = self.memo.get(id(t))
        if hit is not None and hit[0] is t:
            return hit[1]
        r = self._norm(t)
        self.memo[id(t)] = (t, r)
        if r is not t:
            self.memo[id(r)] = (r, r)
        return r

    def _norm(self, t):
        if not isinstance(t[0], str):
            r = tuple(self.norm(x) if isinstance(x, tuple) else x for x in t)
            return r
        k = t[0]
        if k in ("var", "wild", "lit", "param", "def", "loopvar", "or", "range", "other") and k != "or":
            # pattern descriptors and leaves are left alone (descriptors never contain terms)
            if k in ("var", "wild", "range", "other"):
                return t
        r = tuple(self.norm(x) if isinstance(x, tuple) else x for x in t)
        if all(a is b for a, b in zip(r, t)):
            r = t                 # unchanged children: keep the shared object
        r2 = self.rewrite(r)
        return r2

    def rewrite(self, t):
        k = t[0]
        if k == "call" and isinstance(t[1], str):
            path, args = t[1], t[2]
            l = last(path)
            if l in ("as_const", "as_var", "as_not", "as_binary", "as_param") and "FnUpdate" in path and len(args) == 1:
                # library accessors of biodivine_lib_param_bn::FnUpdate on a known variant (assumption L9): the fields of the matching
                # variant, None for every other variant
                x = args[0]
                while x[0] == "call" and isinstance(x[1], str) and last(x[1]) in CLONES and len(x[2]) == 1:
                    x = x[2][0]
                if x[0] == "ctor" and "FnUpdate::" in str(x[1]):
                    want = {"as_const": "Const", "as_var": "Var", "as_not": "Not", "as_binary": "Binary", "as_param": "Param"}[l]
                    if last(x[1]) != want:
                        return ("ctor", "std::prelude::v1::None", ())
                    f_ = x[2]
                    if want == "Binary" and len(f_) == 3:
                        return ("ctor", SOME, (("tuple", (f_[1], f_[0], f_[2])),))          # (left, op, right)
                    if want == "Param" and len(f_) == 2:
                        return ("ctor", SOME, (("tuple", (f_[0], f_[1])),))
                    if len(f_) == 1:
                        return ("ctor", SOME, (f_[0],))
            if l == "next" and len(args) == 1:
                # the two pieces of `x.splitn(2, P)`: x[..i] and x[i+1..] with i the first position of P (the whole of x when there is none)
                a0 = args[0]
                second = a0[0] == "mut" and a0[2][0] == "call" and last(a0[2][1]) == "next" and not a0[2][2]
                h = a0[1] if second else a0
                if h[0] == "hof" and h[1] == "splitn" and len(h) > 4 and tuple(h[4]) == (("lit", _int(2)),):
                    x = strip_adapters(h[2])
                    pos = ("hof", "position", ("call", "core::slice::<impl [T]>::iter", (x,)), h[3], ())
                    found, i = M(pos, "some"), ("proj", pos, SOME, 0)
                    if not second:
                        return ("ctor", SOME, (("ite", found, ("index", x, ("struct", "std::ops::RangeTo", (("end", i),))), x),))
                    return ("ite", found, ("ctor", SOME, (("index", x, ("struct", "std::ops::RangeFrom", (("start", self.rewrite(("bin", "+", i, ("lit", _int(1))))),))),)),
                            ("ctor", "std::prelude::v1::None", ()))
            if l == "is_some" and len(args) == 1:
                return M(args[0], "some")
            if l == "is_none" and len(args) == 1:
                return neg(M(args[0], "some"))
            if l == "is_ok" and len(args) == 1:
                return M(args[0], "ok")
            if l == "is_err" and len(args) == 1:
                return neg(M(args[0], "ok"))
            if l in ("unwrap", "expect") and args and ("Option" in path or "Result" in path):
                return self.proj(args[0], SOME if "Option" in path else OK)
            if l in ("unwrap_err", "expect_err") and args:
                return ("proj", args[0], "std::prelude::v1::Err", 0)
            if l in ("err",) and len(args) == 1 and "Result" in path:
                return ("ctor?", "err-of", args[0]) if False else t
            if l == "contains" and len(args) == 2:
                coll = strip_adapters(args[0])
                while coll[0] == "call" and isinstance(coll[1], str) and last(coll[1]) in ("as_slice", "as_ref", "to_vec", "clone") and len(coll[2]) == 1:
                    coll = coll[2][0]
                unit = lambda x: x[0] == "ctor" and not x[2] and isinstance(x[1], str)           # noqa: E731
                needle = args[1]
                while needle[0] == "call" and isinstance(needle[1], str) and last(needle[1]) in CLONES and len(needle[2]) == 1:
                    needle = needle[2][0]
                if coll[0] in ("array", "vec") and coll[1] and all(unit(x) for x in coll[1]) and len(coll[1]) <= 16:
                    # membership in a table of field-less variants: decided for a known variant, a pattern test otherwise
                    if unit(needle):
                        return ("lit", any(x[1].split("::")[-2:] == needle[1].split("::")[-2:] for x in coll[1]))
                    return self.rewrite(("matches", needle, ("or", tuple(("var", x[1], (), None) for x in coll[1]))))
                if coll[0] in ("array", "vec") and coll[1] and all(x[0] == "lit" for x in coll[1]) and len(coll[1]) <= 12:
                    # membership in a table of literals is a disjunction of equalities
                    acc = None
                    for x in coll[1]:
                        e = self.rewrite(("bin", "==", x, args[1]))
                        acc = e if acc is None else ("bin", "||", acc, e)
                    return acc
            if l == "len" and len(args) == 1 and path != "#len" and any(c in path for c in ("slice", "Vec", "vec::", "[T]")):
                return ("call", "#len", (strip_adapters(args[0]),))
            if l == "ok_or" and len(args) == 2 and "Option" in path:
                return self.rewrite(("ite", self.rewrite(M(args[0], "some")), ("ctor", OK, (self.proj(args[0], SOME, 0),)), ("ctor", "std::prelude::v1::Err", (args[1],))))
            if l == "unwrap_or" and len(args) == 2 and ("Option" in path or "Result" in path):
                which = "some" if "Option" in path else "ok"
                return self.rewrite(("ite", self.rewrite(M(args[0], which)), self.proj(args[0], SOME if which == "some" else OK, 0), args[1]))
            if l == "is_empty" and len(args) == 1 and path != EMPTY and any(c in path for c in ("slice", "Vec", "vec::", "str", "String", "collections", "HashMap", "HashSet", "BTree", "[T]")):
                return self.rewrite(("call", EMPTY, (strip_adapters(args[0]),)))
            if path == EMPTY and len(args) == 1 and args[0][0] == "index" and args[0][2][0] == "struct" and last(args[0][2][1]) == "RangeTo":
                # x[..i] is empty iff i == 0
                e_ = dict(args[0][2][2]).get("end")
                if e_ is not None:
                    return self.rewrite(("bin", "==", e_, ("lit", _int(0))))
            if l in ("swap_remove", "remove") and len(args) == 2 and any(c in path for c in ("vec::Vec", "Vec<", "VecDeque")) and not is_map_path(path):
                # the value returned by `v.swap_remove(i)` / `v.remove(i)` is the element v[i] (what is left in v is an effect on v)
                return self.rewrite(("index", args[0], args[1]))
            if l in ("get", "get_mut", "remove", "remove_entry") and len(args) == 2 and is_map_path(path):
                # the value returned by `m.remove(k)` is the value `m.get(k)` had (the removal itself is an effect on m)
                return self.get(args[0], args[1])
            if path == GET and len(args) == 2:
                return self.get(args[0], args[1])
            if l == "mk_constant" and len(args) == 1 and args[0][0] in ("bin", "not", "ite", "matches") and "HctlTreeNode" in path:
                # a node built from a truth value that is computed: the node of each case
                return self.rewrite(("ite", args[0], ("call", path, (("lit", True),)), ("call", path, (("lit", False),))))
            if l == "transpose" and len(args) == 1 and "Option" in path and args[0][0] == "hof" and args[0][1] == "map" and self.is_option_hof(args[0]):
                # opt.map(f).transpose() for a fallible f:  Some(x) -> f(x).map(Some),  None -> Ok(None)
                o, body = args[0][2], args[0][3]
                inner = ("ite", M(body, "ok"), ("ctor", OK, (("ctor", SOME, (self.proj(body, OK, 0),)),)),
                         ("ctor", "std::prelude::v1::Err", (("proj", body, "std::prelude::v1::Err", 0),)))
                return self.rewrite(("ite", self.rewrite(M(o, "some")), inner, ("ctor", OK, (("ctor", "std::prelude::v1::None", ()),))))
            if l == "then_some" and len(args) == 2 and "bool" in path:
                # c.then_some(v)  ==  if c { Some(v) } else { None }
                return self.rewrite(("ite", args[0], ("ctor", SOME, (args[1],)), ("ctor", "std::prelude::v1::None", ())))
            if l == "contains_key" and len(args) == 2:
                return self.rewrite(M(self.get(args[0], args[1]), "some"))
            if l == "collect" and len(args) == 1:
                a = args[0]
                if a[0] == "hof" and a[1] == "map":
                    return self.rewrite(("collect", strip_adapters(a[2]), a[3]))
                if a[0] == "call" and last(a[1]) == "zip" and len(a[2]) == 2:
                    # collecting a zip collects the pairs of its elements
                    return self.rewrite(("collect", a, self.rewrite(("elem", a))))
                if a[0] == "hof" and a[1] == "filter_map":
                    body = a[3]
                    # filter_map(|x| O.map(|p| (K, V))) collected into a map  ==  { K -> V | x, O is Some }
                    if body[0] == "hof" and body[1] == "map" and body[3][0] == "tuple" and len(body[3][1]) == 2:
                        return ("collectmap", strip_adapters(a[2]), M(body[2], "some"), body[3][1][0], body[3][1][1])
                    if body[0] == "ite" and body[2][0] == "ctor" and last(body[2][1]) == "Some" and body[2][2] and body[2][2][0][0] == "tuple" \
                            and len(body[2][2][0][1]) == 2 and body[3][0] == "ctor" and last(body[3][1]) == "None":
                        kv = body[2][2][0][1]
                        return ("collectmap", strip_adapters(a[2]), body[1], kv[0], kv[1])
                    return ("collect", ("hof", "filter", strip_adapters(a[2]), M(a[3], "some"), ()), ("proj", a[3], SOME, 0))
            return t
        if k == "matches" and t[2][0] == "slice" and t[2][3] and t[2][2] and all(wildish(y) for y in t[2][1]) and all(wildish(y) for y in t[2][3]):
            # `[a, .., z]` with plain bindings: only the length matters
            x, d = strip_adapters(t[1]), t[2]
            n = len(d[1]) + len(d[3])
            return neg(("call", EMPTY, (x,))) if n == 1 else ("bin", ">=", ("call", "#len", (x,)), ("lit", _int(n)))
        if k == "matches" and t[2][0] == "slice":
            x, d = strip_adapters(t[1]), t[2]
            before, rest, after = d[1], d[2], d[3]
            if not after:
                n = len(before)
                ln = ("call", "#len", (x,))
                if n == 0 and not rest:
                    cond = ("call", EMPTY, (x,))
                elif n == 0 and rest:
                    cond = ("lit", True)
                elif rest:
                    cond = neg(("call", EMPTY, (x,))) if n == 1 else ("bin", ">=", ln, ("lit", _int(n)))
                else:
                    cond = ("bin", "==", ln, ("lit", _int(n)))
                for i, sd in enumerate(before):
                    if not wildish(sd):
                        cond = ("bin", "&&", cond, self.rewrite(("matches", ("index", x, ("lit", _int(i))), sd)))
                return cond
            return t
        if k == "matches" and t[2][0] == "var" and isinstance(t[2][1], str) and last(t[2][1]) in ("Some", "Ok") and t[2][3] != "struct" and len(t[2][2]) == 1 \
                and t[2][2][0][0] == "lit" and t[1][0] not in ("ctor", "ite"):
            # `Some(0)`: the value is Some and its payload equals the literal
            which = "some" if last(t[2][1]) == "Some" else "ok"
            payload = self.proj(t[1], SOME if which == "some" else OK, 0)
            return self.rewrite(("bin", "&&", self.rewrite(M(t[1], which)), self.rewrite(("matches", payload, t[2][2][0]))))
        if k == "matches" and t[2][0] == "var" and isinstance(t[2][1], str) and desc_kind(t[2]) is None:
            x, d = t[1], t[2]
            irrefutable = all(wildish(y[1] if d[3] == "struct" else y) for y in d[2])
            if irrefutable and x[0] == "ctor" and isinstance(x[1], str) and "::" in x[1] and "::" in d[1]:
                if x[1].split("::")[-2:] == d[1].split("::")[-2:]:
                    return ("lit", True)
                if x[1].split("::")[-2] == d[1].split("::")[-2]:
                    return ("lit", False)          # another variant of the same enum
            if not irrefutable and x[0] == "ctor" and isinstance(x[1], str) and "::" in x[1] and "::" in d[1] and d[3] != "struct":
                # a known constructor against a pattern with sub-patterns: same variant and every argument matches its sub-pattern
                if x[1].split("::")[-2:] == d[1].split("::")[-2:] and len(x[2]) == len(d[2]):
                    acc = ("lit", True)
                    for a_, d_ in zip(x[2], d[2]):
                        c_ = ("lit", True) if wildish(d_) else self.rewrite(("matches", a_, d_))
                        if c_ == ("lit", False):
                            return ("lit", False)
                        if c_ != ("lit", True):
                            acc = c_ if acc == ("lit", True) else self.rewrite(("bin", "&&", acc, c_))
                    return acc
                if x[1].split("::")[-2] == d[1].split("::")[-2] and x[1].split("::")[-1] != d[1].split("::")[-1]:
                    return ("lit", False)
            if not irrefutable and x[0] == "ite" and self.is_variant_tree(x):
                # a pattern with sub-patterns against a case split over constructors: the test of each case
                a, b = self.rewrite(("matches", x[2], d)), self.rewrite(("matches", x[3], d))
                if not (a[0] == "matches" and a[1] == x[2]) and not (b[0] == "matches" and b[1] == x[3]):
                    return self.bool_ite(x[1], a, b)
            if irrefutable and x[0] == "ite":
                a, b = self.rewrite(("matches", x[2], d)), self.rewrite(("matches", x[3], d))
                T_, F_ = ("lit", True), ("lit", False)
                if a == T_ and b == F_:
                    return x[1]
                if a == F_ and b == T_:
                    return neg(x[1])
                if a == b and a in (T_, F_):
                    return a
                if b == F_:
                    return self.rewrite(("bin", "&&", x[1], a))
                if a == F_:
                    return self.rewrite(("bin", "&&", neg(x[1]), b))
            return t
        if k == "matches" and t[1][0] == "lit" and t[2][0] == "lit" and type(t[1][1]) is type(t[2][1]):
            return ("lit", t[1][1] == t[2][1])            # a literal against a literal pattern
        if k == "matches" and t[2][0] == "lit" and not isinstance(t[2][1], bool) and t[1][0] != "lit":
            x = t[1]
            while x[0] == "call" and isinstance(x[1], str) and last(x[1]) in ("as_str", "as_ref", "deref", "borrow") and len(x[2]) == 1:
                x = x[2][0]
            return self.rewrite(("bin", "==", x, t[2]))     # a value against a literal pattern is an equality test
        if k == "matches" and t[2][0] == "or" and t[1][0] not in ("ctor", "lit") and all(d_[0] == "lit" and not isinstance(d_[1], bool) for d_ in t[2][1]):
            acc = None
            for d_ in t[2][1]:
                c_ = self.rewrite(("matches", t[1], d_))
                acc = c_ if acc is None else self.rewrite(("bin", "||", acc, c_))
            return acc
        if k == "matches" and t[2][0] == "or" and t[1][0] in ("ctor", "lit"):
            # a known variant against an or-pattern: one of the alternatives matches
            alts = [self.rewrite(("matches", t[1], d_)) for d_ in t[2][1]]
            if any(a == ("lit", True) for a in alts):
                return ("lit", True)
            if all(a == ("lit", False) for a in alts):
                return ("lit", False)
            return t
        if k == "matches" and t[2][0] == "lit" and isinstance(t[2][1], bool):
            return t[1] if t[2][1] else neg(t[1])           # `match b { true => .., false => .. }`
        if k == "matches" and t[1][0] == "tuple" and t[2][0] == "tuple" and len(t[1][1]) == len(t[2][1]):
            # a tuple matches a tuple pattern component-wise
            acc = None
            for a_, d_ in zip(t[1][1], t[2][1]):
                c_ = ("lit", True) if wildish(d_) else self.rewrite(("matches", a_, d_))
                if c_ == ("lit", True):
                    continue
                acc = c_ if acc is None else self.rewrite(("bin", "&&", acc, c_))
            return acc if acc is not None else ("lit", True)
        if k == "matches":
            x, d = t[1], t[2]
            dk = desc_kind(d)
            while x[0] == "call" and isinstance(x[1], str) and last(x[1]) in CLONES and len(x[2]) == 1 and dk:
                x = x[2][0]
                t = ("matches", x, d)
            if dk in ("some", "none") and x[0] == "call" and isinstance(x[1], str) and last(x[1]) in ("split_first", "first", "last", "split_last") and len(x[2]) == 1:
                e = self.rewrite(("call", EMPTY, (strip_adapters(x[2][0]),)))
                return neg(e) if dk == "some" else e
            if x[0] == "ctor" and last(x[1]) in ("Some", "None", "Ok", "Err") and dk:
                return ("lit", {"Some": "some", "None": "none", "Ok": "ok", "Err": "err"}[last(x[1])] == dk)
            if x[0] == "ite" and dk and any(y[0] == "ctor" and last(y[1]) in ("Some", "None", "Ok", "Err") for y in (x[2], x[3])):
                # matches(if c { Ok(..) } else { Err(..) }, Ok(_))  ==  c;   matches(if c { x } else { None }, Some(_))  ==  c && x is Some
                a, b = (self.rewrite(("matches", y, d)) for y in (x[2], x[3]))
                T_, F_ = ("lit", True), ("lit", False)
                if a == T_ and b == F_:
                    return x[1]
                if a == F_ and b == T_:
                    return neg(x[1])
                if a == b:
                    return a
                if b == F_:
                    return self.rewrite(("bin", "&&", x[1], a))
                if b == T_:
                    return self.rewrite(("bin", "||", neg(x[1]), a))
                if a == F_:
                    return self.rewrite(("bin", "&&", neg(x[1]), b))
                if a == T_:
                    return self.rewrite(("bin", "||", x[1], b))
            if dk in ("some", "none", "ok", "err") and x[0] == "collect" and fallible_leaves(x[2], "ok" if dk in ("ok", "err") else "some"):
                # collect::<Result<C, E>>() of fallible items is Ok  <=>  every item is Ok (same for Option)
                pos = "ok" if dk in ("ok", "err") else "some"
                r = ("hof", "all", x[1], self.rewrite(M(x[2], pos)), ())
                return r if dk == pos else neg(r)
            if dk in ("some", "none", "ok", "err") and x[0] == "hof" and x[1] == "map" and self.is_option_hof(x):
                r = self.rewrite(("matches", x[2], d))           # opt.map(f) is Some  <=>  opt is Some
                return r
            if dk in ("some", "none") and x[0] == "hof" and x[1] == "filter" and self.is_option_hof(x):
                # opt.filter(|v| c) is Some  <=>  opt is Some && c(v)
                r = self.rewrite(("bin", "&&", self.rewrite(M(x[2], "some")), x[3]))
                return r if dk == "some" else neg(r)
            if dk in ("some", "none", "ok", "err"):
                which = "some" if dk in ("some", "none") else "ok"
                x2, w2 = self.through(x, which)
                if x2 is not x:
                    r = self.rewrite(M(x2, w2))
                    return r if dk in ("some", "ok") else neg(r)
            if dk == "some":
                return M(x, "some")
            if dk == "none":
                return neg(M(x, "some"))
            if dk == "ok":
                return M(x, "ok")
            if dk == "err":
                return neg(M(x, "ok"))
            return t
        if k == "bin" and t[1] in ("&&", "||") and (t[2][0] == "lit" or t[3][0] == "lit"):
            # Boolean connectives with a known operand
            a, b = t[2], t[3]
            for x, y in ((a, b), (b, a)):
                if x[0] == "lit" and isinstance(x[1], bool):
                    if t[1] == "&&":
                        return y if x[1] else ("lit", False)
                    return ("lit", True) if x[1] else y
        if k == "not":
            x = t[1]
            if x[0] == "not":
                return x[1]
            if x == ("lit", True):
                return ("lit", False)
            if x == ("lit", False):
                return ("lit", True)
            return t
        if k == "ite":
            c, a, b = t[1], t[2], t[3]
            if c[0] == "not":
                c, a, b = c[1], b, a
            if a == b:
                return a
            if c == ("lit", True):
                return a
            if c == ("lit", False):
                return b
            if a[0] == "lit" and b[0] == "lit" and a[1] is True and b[1] is False:
                return c                    # if c { true } else { false }
            if a[0] == "lit" and b[0] == "lit" and a[1] is False and b[1] is True:
                return neg(c)
            return ("ite", c, a, b)
        if k == "switch" and t[1][0] == "ite" and self.is_variant_tree(t[1]) and \
                (any(g is not None for (d, g), v in t[2]) or any(d[0] == "var" and desc_kind(d) is None and last(d[1]) in ("Some", "Ok", "Err") for (d, g), v in t[2])):
            # a `match` with guards on a value that is itself a case split over constructors: the match of each case
            a = self.rewrite(("switch", t[1][2]) + tuple(t[2:]))
            b = self.rewrite(("switch", t[1][3]) + tuple(t[2:]))
            if a[0] != "switch" and b[0] != "switch":
                return self.rewrite(("ite", t[1][1], a, b))
        if k == "switch" and t[1][0] in ("ctor", "lit") and \
                (any(g is not None for (d, g), v in t[2]) or any(d[0] == "var" and desc_kind(d) is None and last(d[1]) in ("Some", "Ok", "Err") for (d, g), v in t[2])):
            # a `match` with guards on a known constructor: arms are tried in order; an arm is taken when its pattern matches (a plain
            # condition once the constructor is known) and its guard holds, otherwise the search goes on; the last arm of the
            # exhaustive match is the default
            scrut, arms = t[1], t[2]
            chain = []
            ok_ = True
            for (d, g), v in arms:
                c = ("lit", True) if d[0] == "wild" else self.rewrite(("matches", scrut, d))
                if c == ("lit", False):
                    continue
                if c[0] == "matches" and c[1] == scrut:
                    ok_ = False             # a pattern that is not understood
                    break
                cond = c if g is None else (g if c == ("lit", True) else self.rewrite(("bin", "&&", c, g)))
                chain.append((cond, v))
                if cond == ("lit", True):
                    break
            if ok_ and chain:
                partial_ = len(t) > 3 and t[3] == "partial"
                if partial_ and chain[-1][0] != ("lit", True):
                    chain.append((("lit", True), ("never",)))         # no listed arm matches: the arm that does has left the function
                acc = chain[-1][1]
                for cond, v in reversed(chain[:-1]):
                    acc = self.rewrite(("ite", cond, v, acc))
                return acc
            if ok_ and not chain and len(t) > 3 and t[3] == "partial":
                return ("never",)
        if k == "switch" and t[1][0] in ("ite", "ctor", "lit") and all(g is None for (d, g), v in t[2]):
            # a `match` on a value that is itself a case split over constructors: select the arm(s)
            scrut, arms = t[1], t[2]
            acc = None
            decided = True
            for (d, g), v in reversed(arms):
                c = ("lit", True) if d[0] == "wild" else self.rewrite(("matches", scrut, d))
                if c[0] == "matches":
                    decided = False
                    break
                acc = v if (acc is None or c == ("lit", True)) else self.rewrite(("ite", c, v, acc))
            if decided and acc is not None:
                return acc
        if k == "switch" and t[2] and all(g is None for (d, g), v in t[2]) and any(v[0] == "lit" and isinstance(v[1], bool) for _, v in t[2]) \
                and all(d[0] in ("var", "wild", "lit", "or") for (d, g), v in t[2]):
            # a `match` that yields a truth value is the predicate "the first arm that matches says true"
            scrut, arms = t[1], t[2]
            acc = arms[-1][1]
            for (d, g), v in reversed(arms[:-1]):
                c = ("lit", True) if d[0] == "wild" else self.rewrite(("matches", scrut, d))
                acc = self.bool_ite(c, v, acc)
            return acc
        if k == "switch" and t[1][0] == "tuple" and len(t[2]) == 2 and all(g is None for (d, g), v in t[2]) and t[2][0][0][0][0] == "tuple" \
                and wildish(t[2][1][0][0]):
            # `match (a, b) { (P, Q) => x, _ => y }`
            c = self.rewrite(("matches", t[1], t[2][0][0][0]))
            if not (c[0] == "matches" and c[1] == t[1]):
                return self.rewrite(("ite", c, t[2][0][1], t[2][1][1]))
        if k == "switch" and len(t[2]) >= 2 and t[2][-1][0][1] is None and all(d[0] in ("var", "wild", "lit", "or") for (d, g), v in t[2]) \
                and (((wildish(t[2][-1][0][0]) or len(t) == 3) and self.is_variant_tree_or_none(t[2])) or self.decidable_switch(t[2])):
            # (a match that lists all its arms - none left the function - is exhaustive: its last arm is the default)
            # a `match` with guards that yields Some(..) / None: arms are tried in order, an arm is taken when its pattern matches and its
            # guard holds (patterns bind nothing here: bound names are projections of the scrutinee)
            scrut, arms = t[1], t[2]
            if len(t) > 3 and t[3] == "partial" and not (wildish(arms[-1][0][0]) and arms[-1][0][1] is None):
                arms = tuple(arms) + (((("wild",), None), ("never",)),)       # the remaining cases left the function
            acc = arms[-1][1]
            for (d, g), v in reversed(arms[:-1]):
                c = ("lit", True) if d[0] == "wild" else self.rewrite(("matches", scrut, d))
                if g is not None:
                    c = self.rewrite(("bin", "&&", c, g))
                acc = self.rewrite(("ite", c, v, acc))
            return acc
        if k == "switch" and len(t[2]) >= 2 and all(g is None and d[0] in ("slice", "wild") for (d, g), v in t[2]) and any(d[0] == "slice" for (d, g), v in t[2]):
            # a `match` on the shape of a slice (`[] => .., [first, rest @ ..] => ..`) is a case split on its length; the last arm of an
            # exhaustive match is taken when no earlier one is
            scrut, arms = t[1], t[2]
            if len(t) > 3 and t[3] == "partial" and not wildish(arms[-1][0][0]):
                arms = tuple(arms) + (((("wild",), None), ("never",)),)       # the remaining cases left the function
            acc = arms[-1][1]
            for (d, g), v in reversed(arms[:-1]):
                c = ("lit", True) if d[0] == "wild" else self.rewrite(("matches", scrut, d))
                if c[0] == "matches":
                    return t
                acc = self.rewrite(("ite", c, v, acc))
            return acc
        if k == "switch":
            scrut, arms = t[1], t[2]
            # two-armed Option / Result match with variant-only patterns
            if 1 <= len(arms) <= 2 and all(g is None for (d, g), v in arms):
                kinds = [desc_kind(d) if d[0] != "wild" else "wild" for (d, g), v in arms]
                if kinds and kinds[0] in ("some", "none", "ok", "err") and (len(arms) == 1 or kinds[1] in ("some", "none", "ok", "err", "wild")):
                    which = "some" if kinds[0] in ("some", "none") else "ok"
                    pos = kinds[0] in ("some", "ok")
                    first = arms[0][1]
                    second = arms[1][1] if len(arms) == 2 else ("never",)
                    a, b = (first, second) if pos else (second, first)
                    return self.rewrite(("ite", M(scrut, which), a, b))
            return t
        if k == "callv" and len(t) == 3 and t[1][0] == "def" and isinstance(t[1][1], str):
            return ("call", t[1][1], t[2])          # a call through a function value that is a known function
        if k == "hof":
            name, recv, body = t[1], t[2], t[3]
            if name == "any":
                return neg(("hof", "all", recv, neg(body), t[4] if len(t) > 4 else ()))
            if name in ("ok_or_else",) and not any(y == ("proj", recv, SOME, 0) for y in _sub(body)):
                # x.ok_or_else(|| e)  ==  if let Some(v) = x { Ok(v) } else { Err(e) }
                return self.rewrite(("ite", self.rewrite(M(recv, "some")), ("ctor", OK, (self.proj(recv, SOME, 0),)), ("ctor", "std::prelude::v1::Err", (body,))))
            if name in ("is_some_and", "is_ok_and"):
                return self.rewrite(("bin", "&&", self.rewrite(M(recv, "some" if name == "is_some_and" else "ok")), body))
            if name == "is_none_or":
                return self.rewrite(("bin", "||", neg(self.rewrite(M(recv, "some"))), body))
            if name in ("unwrap_or_else", "unwrap_or") and not any(y[0] in ("payload",) or (y[0] == "proj" and y[1] == recv) for y in _sub(body)):
                # x.unwrap_or_else(|| d)  ==  if let Some(v) = x { v } else { d }
                return self.rewrite(("ite", M(recv, "some"), self.proj(recv, SOME, 0), body))
            if name == "find_map" and body[0] == "ite" and body[2][0] == "ctor" and last(body[2][1]) == "Some" and len(body[2][2]) == 1 \
                    and body[3][0] == "ctor" and last(body[3][1]) == "None":
                # xs.iter().enumerate().find_map(|(i, x)| if C(x) { Some(V(i, x)) } else { None }): the first position where C holds decides;
                # the value is V at that position
                src = strip_adapters(recv)
                seq = strip_adapters(src[2][0]) if src[0] == "call" and last(src[1]) == "enumerate" and len(src[2]) == 1 else src
                counter = ("tproj", ("elem", src), 0) if seq is not src else None
                cond, val = body[1], body[2][2][0]
                el = ("elem", seq)
                if not any(y[0] == "elem" and y != el for y in _sub(cond)) and (counter is None or not any(y == counter for y in _sub(cond))):
                    import terms as _terms
                    pos = ("hof", "position", ("call", "core::slice::<impl [T]>::iter", (seq,)), cond, ())
                    at, hole = ("proj", pos, SOME, 0), ("param", "#found-at")
                    v2 = _terms.replace(val, el, ("index", seq, hole))
                    if counter is not None:
                        v2 = _terms.replace(v2, counter, hole)
                        v2 = _terms.replace(v2, ("tproj", ("elem", recv), 0), hole)
                    if not any(y[0] == "elem" and y[1] in (src, recv, seq) for y in _sub(v2)):
                        return self.norm(("ite", M(pos, "some"), ("ctor", SOME, (_terms.replace(v2, hole, at),)), body[3]))
            if name == "find_map" and body[0] == "ite" and all(b[0] == "ctor" and last(b[1]) in ("Some", "None") for b in body[2:4]) \
                    and {last(body[2][1]), last(body[3][1])} == {"Some", "None"}:
                # xs.find_map(|x| if C(x) { Some(V(x)) } else { None })  ==  xs.map(V).find(C)   (the closure is pure)
                some_first = last(body[2][1]) == "Some"
                val = (body[2] if some_first else body[3])[2]
                if len(val) == 1:
                    cond = body[1] if some_first else neg(body[1])
                    return self.norm(("hof", "find", ("hof", "map", recv, val[0]) + tuple(t[4:]), cond) + tuple(t[4:]))
            if name in ("map", "and_then") and self.is_variant_tree(recv):
                # Ok(x).map(f) == Ok(f(x)), Err(e).map(f) == Err(e); distributed over conditionals
                return self.norm(self.map_variants(recv, recv, body, name))
            return t
        if k == "elem":
            c = t[1]
            x = index_range_of(strip_adapters(c))
            if x is not None:
                # `for i in 0..x.len()`: i is the counter of an enumeration of x
                return ("tproj", ("elem", ("call", "std::iter::Iterator::enumerate", (x,))), 0)
            c2 = strip_adapters(c)
            if c2[0] == "call" and isinstance(c2[1], str) and last(c2[1]) in ("repeat", "repeat_n") and c2[2]:
                return c2[2][0]             # every element of repeat(x) is x
            if c2[0] == "call" and isinstance(c2[1], str) and last(c2[1]) == "zip" and len(c2[2]) == 2:
                # the element of a.zip(b) is the pair of the elements
                return ("tuple", (self.rewrite(("elem", c2[2][0])), self.rewrite(("elem", c2[2][1]))))
            if c2[0] == "hof" and c2[1] == "map":
                return c2[3]
            if c2[0] == "hof" and c2[1] in ("filter", "take_while", "skip_while", "inspect"):
                return self.rewrite(("elem", c2[2]))
            if c2[0] == "collect":
                return c2[2]
            if c2[0] == "call" and isinstance(c2[1], str) and last(c2[1]) in ("collect", "to_vec", "into_vec") and len(c2[2]) == 1:
                return self.rewrite(("elem", c2[2][0]))        # an iterator collected as it is: the same elements
            if c2 is not c:
                return ("elem", c2)
            return t
        if k == "collect" and len(t) == 3 and strip_adapters(t[1])[0] == "call" and last(strip_adapters(t[1])[1]) == "zip" and len(strip_adapters(t[1])[2]) == 2:
            # one item per element of the finite side of a zip with an endless repeat(..)
            za, zb = (strip_adapters(x) for x in strip_adapters(t[1])[2])
            if zb[0] == "call" and isinstance(zb[1], str) and last(zb[1]) in ("repeat",):
                return self.rewrite(("collect", za, t[2]))
            if za[0] == "call" and isinstance(za[1], str) and last(za[1]) in ("repeat",):
                return self.rewrite(("collect", zb, t[2]))
        if k == "collect" and len(t) == 3:
            src, body = t[1], t[2]
            x = index_range_of(strip_adapters(src))
            if x is not None:
                return self.rewrite(("collect", x, body))       # one item per index of x == one item per element of x

            if body[0] == "tuple" and len(body[1]) == 2:
                # a collection of (key, value) pairs is the relation { key -> value }, however it is built
                return ("collectmap", src, ("lit", True), body[1][0], body[1][1])
            # mapped / filtered sources: elements and conditions are already expressed over the innermost source
            peeled = self.peel_source(src, body)
            if peeled is not src:
                return self.rewrite(("collect", peeled, body))
            if src[0] == "collect" and len(src) == 3 and not any(y == ("elem", src) for y in _sub(body)):
                # the elements were already expressed over the inner source (elem(collect(R, b)) == b): one pass over R
                return ("collect", src[1], body)
            return t
        if k == "payload":
            # closure parameter of an Option / Result combinator (written as the Some-payload, whichever of the two types it is)
            if t[1][0] == "ctor" and last(t[1][1]) in ("Ok", "Some") and len(t[1][2]) == 1:
                return t[1][2][0]
            return ("proj", t[1], SOME, 0)
        if k == "proj":
            base, variant, idx = t[1], t[2], t[3]
            if base[0] == "hof" and base[1] in ("find",) and last(variant) == "Some" and idx == 0 \
                    and strip_adapters(base[2])[0] not in ("array", "vec"):
                # (a search in a table of literals is kept: it folds to the entry once the key is known)
                return self.rewrite(("elem", base[2]))
            if base[0] == "collect" and last(variant) in ("Ok", "Some") and idx == 0 and fallible_leaves(base[2], last(variant).lower()):
                # the collection inside a successful collect::<Result<C, E>>(): the payloads of the items
                return ("collect", base[1], self.rewrite(("proj", base[2], variant, 0)))
            return self.proj(base, variant, idx)
        if k == "tproj" and len(t) == 3 and t[1][0] == "call" and isinstance(t[1][1], str) and last(t[1][1]) == "split_at" and len(t[1][2]) == 2 and str(t[2]) in ("0", "1"):
            x, i = strip_adapters(t[1][2][0]), t[1][2][1]
            if str(t[2]) == "0":
                return ("index", x, ("struct", "std::ops::RangeTo", (("end", i),)))
            return ("index", x, ("struct", "std::ops::RangeFrom", (("start", i),)))
        if k == "field" and len(t) == 3 and t[1][0] == "struct":
            # a field of a struct literal is the value it was built with
            for f_, v_ in t[1][2]:
                if f_ == t[2]:
                    return v_
        if k == "tproj" and len(t) == 3 and t[1][0] == "tuple" and str(t[2]).isdigit() and int(str(t[2])) < len(t[1][1]):
            return t[1][1][int(str(t[2]))]
        if k == "tproj" and len(t) == 3 and t[1][0] == "elem":
            # elements of enumerate / zip pipelines: (i, x) of enumerate(X) -> x is the element of X; zip(A, B) -> elements of A and B
            src = t[1][1]
            inner = strip_adapters(src)
            if inner[0] == "call" and last(inner[1]) == "enumerate" and len(inner[2]) == 1 and str(t[2]) == "1":
                return self.rewrite(("elem", inner[2][0]))
            if inner[0] == "call" and last(inner[1]) == "zip" and len(inner[2]) == 2 and str(t[2]) in ("0", "1"):
                return self.rewrite(("elem", inner[2][int(str(t[2]))]))
            return t
        if k == "index":
            base, idx = t[1], t[2]
            import terms as _terms
            li = int(idx[1]) if idx[0] == "lit" and (isinstance(idx[1], _terms.Int) or type(idx[1]) is int) else None
            if base[0] == "hof" and base[1] == "map" and base[2][0] == "array" and li is not None and 0 <= li < len(base[2][1]):
                # [a, b].map(f)[i] == f([a, b][i])   (arrays are mapped element by element, in order)
                return self.norm(_terms.replace(base[3], ("elem", base[2]), base[2][1][li]))
            if base[0] == "array" and li is not None and 0 <= li < len(base[1]):
                return base[1][li]
            if idx[0] == "tproj" and str(idx[2]) == "0" and idx[1][0] == "elem":
                # x[i] with i the counter of an enumeration of x (`for i in 0..x.len()`, or enumerate()) is the enumerated element
                src = strip_adapters(idx[1][1])
                if src[0] == "call" and last(src[1]) == "enumerate" and len(src[2]) == 1 and strip_adapters(src[2][0]) == strip_adapters(base):
                    return self.rewrite(("elem", strip_adapters(base)))
            # x[a..][k] == x[a + k];  x[a..][b..] == x[a + b..]
            if base[0] == "index" and base[2][0] == "struct" and last(base[2][1]) == "RangeFrom":
                a = dict(base[2][2]).get("start")
                if a is not None:
                    if idx[0] == "struct" and last(idx[1]) == "RangeFrom":
                        b = dict(idx[2]).get("start")
                        if b is not None:
                            return self.rewrite(("index", base[1], ("struct", "std::ops::RangeFrom", (("start", self.add(a, b)),))))
                    elif idx[0] != "struct":
                        return self.rewrite(("index", base[1], self.add(a, idx)))
            return t
        if k == "bin" and t[1] in ("==", "!=", ">", "<", ">=", "<=") and (t[2] == ("lit", 0) or t[3] == ("lit", 0) or t[3] == ("lit", 1)):
            a, b, op = t[2], t[3], t[1]
            ln = lambda y: y[0] == "call" and isinstance(y[1], str) and last(y[1]) in ("len", "#len") and len(y[2]) == 1       # noqa: E731
            e = None
            if ln(a) and b == ("lit", 0) and op in ("==", "<="):
                e = ("call", EMPTY, (strip_adapters(a[2][0]),))
            elif ln(a) and b == ("lit", 0) and op in ("!=", ">"):
                e = neg(("call", EMPTY, (strip_adapters(a[2][0]),)))
            elif ln(b) and a == ("lit", 0) and op in ("==", ">="):
                e = ("call", EMPTY, (strip_adapters(b[2][0]),))
            elif ln(b) and a == ("lit", 0) and op in ("!=", "<"):
                e = neg(("call", EMPTY, (strip_adapters(b[2][0]),)))
            elif ln(a) and b == ("lit", 1) and op == ">=":
                e = neg(("call", EMPTY, (strip_adapters(a[2][0]),)))
            elif ln(a) and b == ("lit", 1) and op == "<":
                e = ("call", EMPTY, (strip_adapters(a[2][0]),))
            if e is not None:
                return e
        if k == "bin" and t[1] in ("+", "-", "*") and t[2][0] == "lit" and t[3][0] == "lit" and type(t[2][1]).__name__ == "Int" and type(t[3][1]).__name__ == "Int":
            a, b = int(t[2][1]), int(t[3][1])
            v = a + b if t[1] == "+" else a - b if t[1] == "-" else a * b
            if v >= 0:
                return ("lit", _int(v))
        if k == "bin" and t[1] in ("+", "-") and t[3][0] == "lit" and t[2][0] == "ite":
            # (if c { a } else { b }) + k  ==  if c { a + k } else { b + k }
            return self.rewrite(("ite", t[2][1], self.rewrite(("bin", t[1], t[2][2], t[3])), self.rewrite(("bin", t[1], t[2][3], t[3]))))
        if k == "bin" and t[1] in ("==", "!="):
            a, b = t[2], t[3]
            if okey(a) > okey(b):
                return ("bin", t[1], b, a)
            return t
        return t

    def peel_source(self, src, body):
        """R.map(g) -> R when nothing refers to the mapped elements themselves; R.filter(c) keeps its condition over the peeled R."""
        s0 = strip_adapters(src)
        if s0[0] == "hof" and s0[1] == "map" and not any(y == ("elem", src) or y == ("elem", s0) for y in _sub(body)):
            return self.peel_source(s0[2], body)
        if s0[0] == "hof" and s0[1] == "filter":
            inner = self.peel_source(s0[2], ("tuple", (body, s0[3])))
            if inner is not s0[2] or s0 is not src:
                return ("hof", "filter", inner, s0[3], ())
            return src
        if s0[0] == "call" and last(s0[1]) in ("enumerate",) and False:
            return src
        return s0 if s0 is not src and s0[0] in ("hof",) else src

    def add(self, a, b):
        if b == ("lit", 0):
            return a
        if a == ("lit", 0):
            return b
        return self.rewrite(("bin", "+", a, b))

    def decidable_switch(self, arms):
        """A `match` on an Option / Result with literal payload patterns (`None`, `Some(0)`, `Some(i)`) or on a string / integer with
        literal patterns and a default: every arm's test is a plain condition, the last arm of the exhaustive match is the default."""
        def variant(d):
            return d[0] == "var" and isinstance(d[1], str) and last(d[1]) in ("Some", "None", "Ok", "Err") and d[3] != "struct" \
                and all(wildish(x) or x[0] == "lit" for x in d[2])

        def literal(d):
            return (d[0] == "lit" and not isinstance(d[1], bool)) or (d[0] == "or" and all(literal(x) for x in d[1]))
        pats = [d for (d, g), v in arms]
        if all(variant(d) or wildish(d) for d in pats) and any(variant(d) and desc_kind(d) is None for d in pats):
            return True
        return wildish(pats[-1]) and all(literal(d) for d in pats[:-1]) and len(pats) >= 2

    def is_variant_tree_or_none(self, arms):
        return all(self.is_variant_tree(v) for _, v in arms)

    def is_variant_tree(self, t):
        if t[0] == "ctor" and last(t[1]) in ("Some", "None", "Ok", "Err"):
            return True
        if t[0] == "ite":
            return self.is_variant_tree(t[2]) and self.is_variant_tree(t[3])
        return False

    def map_variants(self, whole, t, body, name):
        if t[0] == "ite":
            return ("ite", t[1], self.map_variants(whole, t[2], body, name), self.map_variants(whole, t[3], body, name))
        if last(t[1]) in ("None", "Err"):
            return t
        x = t[2][0] if t[2] else ("unit",)
        payload = ("proj", whole, SOME, 0)
        import terms
        b = terms.replace(terms.replace(body, payload, x), ("proj", whole, OK, 0), x)
        return ("ctor", t[1], (b,)) if name == "map" else b

    def get(self, m, key):
        """Look-up in a map that was just extended with the same key: get(m + {k -> v}, k) == Some(v)."""
        if m[0] == "mut" and m[2][0] == "call" and last(m[2][1]) == "insert" and len(m[2][2]) == 2 and m[2][2][0] == key:
            return ("ctor", SOME, (m[2][2][1],))
        return ("call", GET, (m, key))

    def bool_ite(self, c, a, b):
        """if c { a } else { b } for truth values, as a Boolean term."""
        T_, F_ = ("lit", True), ("lit", False)
        isT = lambda x: x[0] == "lit" and x[1] is True          # noqa: E731
        isF = lambda x: x[0] == "lit" and x[1] is False         # noqa: E731
        if isT(c):
            return a
        if isF(c):
            return b
        if a == b:
            return a
        if isT(a) and isF(b):
            return c
        if isF(a) and isT(b):
            return neg(c)
        if isT(a):
            return self.rewrite(("bin", "||", c, b))
        if isF(a):
            return self.rewrite(("bin", "&&", neg(c), b))
        if isT(b):
            return self.rewrite(("bin", "||", neg(c), a))
        if isF(b):
            return self.rewrite(("bin", "&&", c, a))
        return ("ite", c, a, b)

    def is_option_hof(self, x):
        """The closure of this combinator receives the payload of an Option / Result (not the element of an iterator)."""
        payload = ("proj", x[2], SOME, 0)
        return any(y == payload or y == ("payload", x[2]) for y in _sub(x[3])) and not any(y == ("elem", x[2]) for y in _sub(x[3]))

    def through(self, x, which):
        """(x', which') such that `x is Ok/Some` iff `x' is which'` and the payloads coincide: ok_or / map_err / ok adapters."""
        for _ in range(8):
            if x[0] == "call" and isinstance(x[1], str) and last(x[1]) in ("ok_or", "ok_or_else") and len(x[2]) == 2 and which == "ok":
                x, which = x[2][0], "some"
            elif x[0] == "hof" and x[1] in ("ok_or_else",) and which == "ok":
                x, which = x[2], "some"
            elif x[0] == "hof" and x[1] in ("map_err", "or_else_unused", "inspect_err") and which == "ok":
                x = x[2]
            elif x[0] == "call" and isinstance(x[1], str) and last(x[1]) == "ok" and len(x[2]) == 1 and "Result" in x[1] and which == "some":
                x, which = x[2][0], "ok"
            else:
                break
        return x, which

    def proj(self, base, variant, idx=0):
        if last(variant) in ("Ok", "Some", "Err", "None"):
            variant = "std::prelude::v1::" + last(variant)          # one name for the prelude variants, however they were reached
        if idx == 0 and last(variant) in ("Ok", "Some"):
            b2, w2 = self.through(base, "ok" if last(variant) == "Ok" else "some")
            if b2 is not base:
                return self.proj(b2, OK if w2 == "ok" else SOME, 0)
        if base[0] == "ctor" and last(base[1]) == last(variant) and isinstance(idx, int) and idx < len(base[2]):
            return base[2][idx]
        if base[0] == "ctor" and last(base[1]) == "Ok" and last(variant) == "Some" and idx == 0 and len(base[2]) == 1:
            return base[2][0]           # the closure parameter of a Result combinator is written as a Some-payload
        if base[0] == "hof" and base[1] == "filter" and last(variant) == "Some" and idx == 0 and self.is_option_hof(base):
            return self.proj(base[2], variant, idx)
        if base[0] == "hof" and base[1] == "map" and last(variant) in ("Some", "Ok") and idx == 0 and self.is_option_hof(base):
            return base[3]                 # the payload of opt.map(f) is f(payload of opt) - the body is already written over it
        if base[0] == "ite" and isinstance(idx, int) and all(y[0] == "ctor" and last(y[1]) == last(variant) and idx < len(y[2]) for y in (base[2], base[3])):
            # the same variant either way: the payload is chosen by the same condition
            return self.rewrite(("ite", base[1], base[2][2][idx], base[3][2][idx]))
        if base[0] == "ite" and last(variant) not in ("Some", "Ok", "Err", "None") and isinstance(variant, str) and "::" in variant:
            a, b = base[2], base[3]
            other = lambda y: y[0] == "ctor" and isinstance(y[1], str) and y[1].split("::")[-2:-1] == variant.split("::")[-2:-1] and last(y[1]) != last(variant)      # noqa: E731
            if other(a) and not other(b):
                return self.proj(b, variant, idx)
            if other(b) and not other(a):
                return self.proj(a, variant, idx)
        def ok_leaves_are_options(y):
            if y[0] == "ite":
                return ok_leaves_are_options(y[2]) and ok_leaves_are_options(y[3])
            return last(y[1]) != "Ok" or (len(y[2]) == 1 and y[2][0][0] == "ctor" and last(y[2][0][1]) in ("Some", "None"))
        if base[0] == "ite" and idx == 0 and self.is_variant_tree(base) and any(y[0] == "ite" for y in (base[2], base[3])) and \
                (last(variant) == "Some" or (last(variant) == "Ok" and ok_leaves_are_options(base))):
            # (only for Option: the Err leaves of a Result are outcomes that the rules look at, with their conditions)
            # a nested case split over constructors: the payload of the cases that are of this variant (the others cannot be the value)
            def payload(y):
                if y[0] == "ite":
                    pa, pb = payload(y[2]), payload(y[3])
                    if pa is None:
                        return pb
                    if pb is None:
                        return pa
                    return self.rewrite(("ite", y[1], pa, pb))
                return y[2][0] if last(y[1]) == last(variant) and y[2] else None
            pv = payload(base)
            if pv is not None:
                return pv
        if base[0] == "ite" and last(variant) in ("Some", "Ok", "Err", "None"):
            # the payload of variant V of `if c { Other(..) } else { x }` can only come from x
            a, b = base[2], base[3]
            other = lambda y: y[0] == "ctor" and last(y[1]) in ("Some", "None", "Ok", "Err") and last(y[1]) != last(variant)      # noqa: E731
            if other(a) and not other(b):
                return self.proj(b, variant, idx)
            if other(b) and not other(a):
                return self.proj(a, variant, idx)
        if idx == 0 and last(variant) == "Some" and base[0] == "call" and isinstance(base[1], str) and len(base[2]) == 1:
            l = last(base[1])
            x = base[2][0]
            if l == "split_first":
                return ("tuple", (("index", x, ("lit", _int(0))), ("index", x, ("struct", "std::ops::RangeFrom", (("start", ("lit", _int(1))),)))))
            if l == "first":
                return ("index", x, ("lit", _int(0)))
            if l in ("last", "split_last"):
                sx = strip_adapters(x)
                lastel = None
                if sx[0] == "index" and sx[2][0] == "struct" and last(sx[2][1]) == "RangeTo":
                    # the last element of x[..i] is x[i - 1]
                    e_ = dict(sx[2][2]).get("end")
                    if e_ is not None:
                        lastel = self.rewrite(("index", sx[1], self.rewrite(("bin", "-", e_, ("lit", _int(1))))))
                        if l == "split_last":
                            return ("tuple", (lastel, self.rewrite(("index", sx[1], ("struct", "std::ops::RangeTo", (("end", self.rewrite(("bin", "-", e_, ("lit", _int(1))))),))))))
                if lastel is None and l == "last":
                    lastel = ("index", sx, ("bin", "-", ("call", "#len", (sx,)), ("lit", _int(1))))
                if lastel is not None and l == "last":
                    return lastel
            if l in CLONES:
                return ("call", base[1], (self.proj(x, variant, idx),))
        return ("proj", base, variant, idx)

    # -------------------------------------------------------------------------------------------- path conditions
    def pc(self, pc):
        out = []
        for c in pc:
            if c[0] == "if":
                t = self.norm(c[1])
                pol = c[2]
                while t[0] == "not":
                    t, pol = t[1], not pol
                if t == ("lit", True) and pol or t == ("lit", False) and not pol:
                    continue
                out.append(("if", t, pol) + tuple(c[3:]))
            elif c[0] == "match":
                scrut = self.norm(c[1])
                d = c[2]
                dk = desc_kind(d)
                if dk in ("some", "none", "ok", "err"):
                    t = self.rewrite(("matches", scrut, d))
                    pol = c[3]
                    while t[0] == "not":
                        t, pol = t[1], not pol
                    if t == ("lit", True) and pol or t == ("lit", False) and not pol:
                        continue
                    out.append(("if", t, pol, c[4] if len(c) > 4 else None))
                    if c[3] and len(c) > 5 and c[5]:
                        # the arm is only reached when no earlier arm with a more specific pattern (`Some(Jump)` before `Some(op)`) matched
                        for d_ in c[5]:
                            if isinstance(d_, tuple) and d_ and d_[0] == "var" and desc_kind(d_) is None and last(d_[1]) == last(d[1]):
                                t2 = self.rewrite(("matches", scrut, d_))
                                if not (t2[0] == "lit" and isinstance(t2[1], bool)):
                                    out.append(("if", t2, False, c[4] if len(c) > 4 else None))
                    if c[3] and len(c) > 7:
                        # the arm is only reached when no earlier guarded arm was taken
                        for d_, g_ in c[7]:
                            t2 = self.norm(("bin", "&&", ("matches", scrut, d_), g_))
                            pol2 = False
                            while t2[0] == "not":
                                t2, pol2 = t2[1], not pol2
                            if not (t2[0] == "lit" and isinstance(t2[1], bool)):
                                out.append(("if", t2, pol2, c[4] if len(c) > 4 else None))
                elif d[0] in ("var", "wild") and scrut[0] in ("ite", "ctor") and self.is_variant_tree(scrut) and not (len(c) > 7 and c[7]) \
                        and all(isinstance(d_, tuple) and d_ and d_[0] in ("var", "wild") for d_ in (c[5] if len(c) > 5 and c[5] else ())):
                    # a `match` on a value that is a case split over Some(..) / None built right here (e.g. by an inlined helper): the arm's
                    # test, and the tests of the earlier arms that were not taken, as plain conditions
                    t = ("lit", True) if d[0] == "wild" else self.rewrite(("matches", scrut, d))
                    if not (t[0] == "lit" and isinstance(t[1], bool) and t[1] == bool(c[3])):
                        out.append(("if", t, c[3], c[4] if len(c) > 4 else None))
                    if c[3] and len(c) > 5 and c[5]:
                        for d_ in c[5]:
                            t2 = ("lit", True) if d_[0] == "wild" else self.rewrite(("matches", scrut, d_))
                            if not (t2[0] == "lit" and t2[1] is False):
                                out.append(("if", t2, False, c[4] if len(c) > 4 else None))
                elif d[0] == "var" and isinstance(d[1], str) and last(d[1]) in ("Some", "Ok") and d[3] != "struct" and len(d[2]) == 1 and d[2][0][0] == "lit" \
                        and not (len(c) > 7 and c[7]):
                    # `Some(0) => ..`: the value is Some and its payload is the literal (earlier arms of other variants cannot interfere)
                    t = self.rewrite(("matches", scrut, d))
                    out.append(("if", t, c[3], c[4] if len(c) > 4 else None))
                elif d[0] == "slice" and not (len(c) > 7 and c[7]) and all(isinstance(d_, tuple) and d_ and d_[0] in ("slice", "wild") for d_ in (c[5] if len(c) > 5 and c[5] else ())):
                    # the shape of a slice (`let [token] = tokens else ..`, `match tokens { [] => .., [t] => .. }`) is a condition on its length
                    t = self.rewrite(("matches", scrut, d))
                    if t[0] == "matches" and t[1] == scrut:
                        out.append(("match", scrut) + tuple(c[2:]))
                    else:
                        if not (t[0] == "lit" and isinstance(t[1], bool) and t[1] == bool(c[3])):
                            out.append(("if", t, c[3], c[4] if len(c) > 4 else None))
                        if c[3] and len(c) > 5 and c[5]:
                            for d_ in c[5]:
                                t2 = ("lit", True) if d_[0] == "wild" else self.rewrite(("matches", scrut, d_))
                                if not (t2[0] == "lit" and t2[1] is False) and not (t2[0] == "matches" and t2[1] == scrut):
                                    out.append(("if", t2, False, c[4] if len(c) > 4 else None))
                else:
                    c2 = tuple(c[2:])
                    if len(c) > 7 and c[7]:
                        c2 = tuple(c[2:7]) + (tuple((d_, self.norm(g_)) for d_, g_ in c[7]),) + tuple(c[8:])
                    out.append(("match", scrut) + c2)
            else:
                out.append(c)
        return tuple(out)
