"""The recursive-descent parser as a table of *level equations*, recovered from normalised summaries (used by C05, C08, C14).

For every level function L (a function of the parser module from a token slice to Result<tree>), with the module's helpers inlined
(search helpers, predicates, a generic helper shared by several levels - folded back to L where it calls itself):

    POS(L)   the `position` search over the whole slice and the class of tokens its predicate accepts - the predicate is
             *evaluated* on one representative per token kind, so `matches!`, nested `match`, `==` on a token all give the same class
    cases    the decision tree of the returned value: [(conditions, leaf)], leaves classified as
               fall      NEXT(tokens)                         the next tighter level on the same slice
               node      Ok(mk_binary / mk_unary / mk_hybrid(..))
               err       Err(..)
               other
The rules then state, per level kind, under which conditions each leaf is taken and what its operands are."""
import evalnode as E
import norm
import partial
import pm
import terms
from norm import last, SOME_DESC
from terms import subterms

PARSER = "preprocessing::parser::"
OE = "preprocessing::operator_enums::"
TOKEN = "preprocessing::tokenizer::HctlToken::"


_ONLY_ERR = {}


def only_errors(f):
    """The function never produces a tree: all its exits are Err(..) (an error-message helper with the signature of a level)."""
    return _ONLY_ERR.get(f.qual, False)


def is_level_fn(f):
    return (f.path.startswith(PARSER) and len(f.params) >= 1 and "HctlToken]" in (f.param_tys[0] if f.param_tys else "")
            and "HctlTreeNode" in str(f.ret) and "Result" in str(f.ret) and len(f.params) == 1 and not only_errors(f))


def classify_helpers(prog):
    raw = terms.Engine(prog, inline=False)
    for f in prog.lib_fns():
        if f.path.startswith(PARSER) and f.qual not in _ONLY_ERR:
            _ONLY_ERR[f.qual] = False
            if "Result" in str(f.ret):
                s = raw.summary(f)
                rs = [r for r in s.returns if r[5] != "try"]
                _ONLY_ERR[f.qual] = bool(rs) and all(r[0][0] == "ctor" and last(r[0][1]) == "Err" for r in rs) and not any(r[5] == "try" for r in s.returns)


def representatives(prog):
    """One constructor term per kind of token: name -> term."""
    out = {}
    for v in prog.adts.get(OE + "UnaryOp", {}).get("variants", []):
        out["Unary:" + v["name"]] = ("ctor", TOKEN + "Unary", (("ctor", OE + "UnaryOp::" + v["name"], ()),))
    for v in prog.adts.get(OE + "BinaryOp", {}).get("variants", []):
        out["Binary:" + v["name"]] = ("ctor", TOKEN + "Binary", (("ctor", OE + "BinaryOp::" + v["name"], ()),))
    none = ("ctor", "std::prelude::v1::None", ())
    for v in prog.adts.get(OE + "HybridOp", {}).get("variants", []):
        out["Hybrid:" + v["name"]] = ("ctor", TOKEN + "Hybrid", (("ctor", OE + "HybridOp::" + v["name"], ()), ("lit", "x"), none))
    for v in prog.adts.get(OE + "Atomic", {}).get("variants", []):
        args = (("lit", "a"),) if v["fields"] else ()
        out["Atom:" + v["name"]] = ("ctor", TOKEN + "Atom", (("ctor", OE + "Atomic::" + v["name"], args),))
    out["Tokens"] = ("ctor", TOKEN + "Tokens", (("vec", ()),))
    return out


def pred_class(prog, body, elem):
    """Names of the token kinds for which the predicate body (over the element term `elem`) holds; None if undecided."""
    nz = norm.Normalizer()
    out = set()
    for name, rep in representatives(prog).items():
        t = terms.replace(body, elem, rep)
        for _ in range(3):
            t = nz(partial.simplify(t))
        if t == ("lit", True):
            out.add(name)
        elif t != ("lit", False):
            return None
    return out


def desc_class(prog, d):
    """Token kinds matched by a pattern descriptor."""
    out = set()
    for name, rep in representatives(prog).items():
        r = partial.match_desc(d, rep)
        if r is True:
            out.add(name)
        elif r is None:
            return None
    return out


def class_name(cls):
    if cls is None:
        return "?"
    kinds = {c.split(":")[0] for c in cls}
    if cls and kinds == {"Hybrid"} and len(cls) == 4:
        return "hybrid"
    if cls and kinds == {"Unary"} and len(cls) == 7:
        return "unary"
    if cls == {"Binary:EU", "Binary:AU", "Binary:EW", "Binary:AW"}:
        return "bintemp"
    if len(cls) == 1 and kinds == {"Binary"}:
        return next(iter(cls)).split(":")[1]
    return "+".join(sorted(cls)) or "none"


class Level:
    pass


def engine(prog):
    classify_helpers(prog)
    levels = [f.path for f in prog.lib_fns() if is_level_fn(f)]
    entry = [PARSER + "parse_hctl_tokens"]
    return terms.Engine(prog, inline=True, hooks=E.Hooks([PARSER], opaque_names=levels + entry))


def fold_definition(prog, f, eng, t):
    """If L is defined as `H(tokens, c1, .., cn)` for a local helper H, the helper's calls to itself with the same constants are calls of L."""
    raw = terms.Engine(prog, inline=False).summary(f)
    r = raw.ret
    tokens = ("param", f.param_names()[0])
    if r is not None and r[0] in ("call", "rec") and isinstance(r[1], str) and r[2] and pm.strip(r[2][0]) == tokens:
        h = prog.resolve_local(f.crate, r[1])
        if h is not None and not is_level_fn(h):
            consts = tuple(pm.strip(a) for a in r[2][1:])

            def go(x):
                if not isinstance(x, tuple) or not x:
                    return x
                y = tuple(go(z) if isinstance(z, tuple) else z for z in x)
                if y[0] in ("call", "rec") and isinstance(y[1], str) and prog.resolve_local(f.crate, y[1]) is h and len(y[2]) == len(r[2]) \
                        and tuple(pm.strip(a) for a in y[2][1:]) == consts:
                    return ("call", f.path, (y[2][0],))
                return y
            return go(t)
    return t


def leaves(t, conds=()):
    if t == ("never",):
        return []           # no value: the function was left there by a panic (`unreachable!()` arms are C14's business)
    if isinstance(t, tuple) and t and t[0] == "ite":
        return leaves(t[2], conds + ((t[1], True),)) + leaves(t[3], conds + ((t[1], False),))
    if isinstance(t, tuple) and t and t[0] == "join":
        out = []
        for x in t[1]:
            out += leaves(x, conds)
        return out
    if isinstance(t, tuple) and t and t[0] == "ctor" and last(t[1]) == "Ok" and len(t[2]) == 1 and t[2][0][0] == "ite":
        # Ok(if c { a } else { b })
        x = t[2][0]
        return leaves(("ctor", t[1], (x[2],)), conds + ((x[1], True),)) + leaves(("ctor", t[1], (x[3],)), conds + ((x[1], False),))
    if isinstance(t, tuple) and t and t[0] == "ctor" and last(t[1]) == "Ok" and len(t[2]) == 1 and t[2][0][0] == "proj" and last(t[2][0][2]) == "Ok" and t[2][0][3] == 0:
        # Ok(x?) is x (the error passes through unchanged)
        return leaves(t[2][0][1], conds)
    return [(conds, t)]


def analyse(prog, f, eng=None):
    eng = eng or engine(prog)
    s = eng.summary(f)
    lv = Level()
    lv.fn, lv.summ = f, s
    lv.tokens = ("param", f.param_names()[0])
    nz = norm.Normalizer()
    ret = nz(fold_definition(prog, f, eng, s.ret))
    lv.ret = ret
    # the search
    lv.pos = lv.cls = lv.idx = None
    lv.rpos = False
    poss = [y for y in [ret] + list(subterms(ret)) if y[0] == "hof" and y[1] in ("position", "rposition")]
    for st in s.all_sites():
        if st.kind == "mcall" and st.name in ("position", "rposition") and isinstance(st.term, tuple) and st.term[0] == "hof":
            poss.append(nz(st.term))
    seen = []
    for p_ in poss:
        if p_ not in seen:
            seen.append(p_)
    lv.n_searches = len(seen)
    if seen:
        lv.pos = seen[0]
        lv.rpos = lv.pos[1] == "rposition"
        src = norm.strip_adapters(lv.pos[2])
        lv.scans_all = src == lv.tokens
        elem = None
        for y in subterms(lv.pos[3]):
            if y[0] == "elem":
                elem = y
                break
        lv.cls = pred_class(prog, lv.pos[3], elem) if elem is not None else None
        lv.idx = ("proj", lv.pos, norm.SOME, 0)
    if lv.cls is not None and lv.idx is not None:
        # a test of the found token against a pattern that covers the searched class cannot fail (e.g. `Some((l, Binary(op), r))` after a
        # search for the binary temporal operators): it is no condition of the level
        at = ("index", lv.tokens, lv.idx)
        sure = []
        for y in [ret] + list(subterms(ret)):
            if y[0] == "matches" and y[1] == at:
                c = desc_class(prog, y[2])
                if c is not None and lv.cls <= c and y not in sure:
                    sure.append(y)
        for y in sure:
            ret = terms.replace(ret, y, ("lit", True))
        if sure:
            ret = nz(ret)
            lv.ret = ret
    lv.cases = leaves(ret)
    return lv


def level_call(prog, f, t):
    """(level function, argument) if t is `LEVEL(arg)` / `LEVEL(arg)?`."""
    t = pm.strip(t)
    if t[0] == "proj" and last(t[2]) == "Ok" and t[3] == 0:
        t = pm.strip(t[1])
    while t[0] == "hof" and t[1] == "map_err":
        t = pm.strip(t[2])            # only the error value is converted (a private error type turned into the message)
    if t[0] in ("call", "rec") and isinstance(t[1], str) and len(t[2]) == 1:
        g = prog.resolve_local(f.crate, t[1])
        if g is not None and (is_level_fn(g) or g.name == "parse_hctl_tokens"):
            return g, pm.strip(t[2][0])
    return None


def chain(prog):
    """(entry, [levels from the weakest binding to the terminal level])."""
    eng = engine(prog)
    entry = prog.lib_fn(PARSER + "parse_hctl_tokens")
    if entry is None:
        return None, [], eng
    es = eng.summary(entry)
    lc = level_call(prog, entry, es.ret)
    out = []
    cur = lc[0] if lc else None
    seen = set()
    while cur is not None and cur.qual not in seen and len(out) < 20:
        seen.add(cur.qual)
        lv = analyse(prog, cur, eng)
        out.append(lv)
        # the fall-through: the leaf taken when nothing is found
        nxt = None
        for conds, leaf in lv.cases:
            c = level_call(prog, cur, leaf)
            if c and c[1] == lv.tokens and c[0] is not cur and c[0].name != "parse_hctl_tokens":
                nxt = c[0]
        lv.next = nxt
        cur = nxt
    return entry, out, eng


def slice_to(tokens, i):
    return ("index", tokens, ("struct", "std::ops::RangeTo", (("end", i),)))


def slice_from(tokens, i):
    return ("index", tokens, ("struct", "std::ops::RangeFrom", (("start", i),)))
