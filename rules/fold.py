"""Constant folding of small pure helper functions on concrete arguments (used to evaluate look-ahead guards
*abstractly* over a finite partition of the next character: each class has one representative, and the guards
only compare the character or call `char` predicates, so the representative decides the whole class)."""
import partial
import terms
from terms import subst

TRUE, FALSE = partial.TRUE, partial.FALSE


def char_pred(name, c):
    if not isinstance(c, str) or len(c) != 1:
        return None
    return {
        "is_alphanumeric": c.isalnum(), "is_whitespace": c.isspace(), "is_alphabetic": c.isalpha(), "is_numeric": c.isnumeric(),
        "is_ascii_alphanumeric": c.isascii() and c.isalnum(), "is_ascii_digit": c.isascii() and c.isdigit(),
        "is_ascii_alphabetic": c.isascii() and c.isalpha(), "is_ascii_whitespace": c in " \t\n\r\x0c",
        "is_uppercase": c.isupper(), "is_lowercase": c.islower(), "is_ascii_uppercase": c.isascii() and c.isupper(),
    }.get(name)


def fold(t, memo=None):
    """simplify + char predicates on literals."""
    if memo is None:
        memo = {}
    t = partial.simplify(t, memo)
    return _fold(t, {})


def _fold(t, memo):
    if not isinstance(t, tuple) or not t:
        return t
    if t in memo:
        return memo[t]
    r = tuple(_fold(x, memo) if isinstance(x, tuple) else x for x in t)
    if r[0] == "call" and isinstance(r[1], str) and r[1].startswith(("char::", "core::char", "std::char")) and len(r[2]) == 1 and r[2][0][0] == "lit":
        v = char_pred(r[1].rsplit("::", 1)[-1], r[2][0][1])
        if v is not None:
            r = TRUE if v else FALSE
    r2 = partial.simplify(r)
    memo[t] = r2
    return r2


def eval_fn(engine, fn, args):
    """Value of a loop-free helper on concrete argument terms: the first return path whose condition folds to True.
    Returns the folded term, or None when no path can be decided."""
    s = engine.summary(fn)
    if s is None:
        return None
    mapping = {}
    for p, a in zip(fn.params, args):
        if p.get("k") == "bind":
            mapping[p["name"]] = a
    undecided = False
    for (term, pc, may, must, node, kind) in s.returns:
        if kind == "try":
            continue
        ok = True
        for c in pc:
            if c[0] == "if":
                v = fold(subst(c[1], mapping))
                if v == TRUE:
                    if not c[2]:
                        ok = False
                elif v == FALSE:
                    if c[2]:
                        ok = False
                else:
                    ok = None
            elif c[0] == "match":
                scrut = fold(subst(c[1], mapping))
                m = partial.match_desc(c[2], scrut) if partial.is_concrete(scrut) else None
                if m is None:
                    ok = None
                elif m != c[3]:
                    ok = False
            if ok is not True:
                break
        if ok is True:
            return fold(subst(term, mapping))
        if ok is None:
            undecided = True
    return None
