"""Wild-card context rules shared by C02, C10, C14 - written over normalised terms (norm.py), whole-module inlining and
the printed-text evaluator (render.py), so that idiom and helper-structure changes do not matter."""
import evalnode as E
import norm
import pipelines
import q
import render
import semantics as sem
import terms
from norm import GET
from terms import subterms, pt

UTILS = "preprocessing::utils::"
CTXMOD = "evaluation::eval_context::"
OE = "preprocessing::operator_enums::"


def iter_src(t):
    while isinstance(t, tuple) and t and t[0] == "call" and isinstance(t[1], str) and t[1].rsplit("::", 1)[-1] in \
            ("iter", "into_iter", "rev", "cloned", "copied", "by_ref", "enumerate", "drain", "keys") and len(t[2]) >= 1:
        t = t[2][0]
    return t


def elems_over(t, src_pred):
    return [x for x in [t] + list(subterms(t)) if x[0] == "elem" and src_pred(iter_src(x[1]))]


def check_context_presence(prog, rep, rule):
    # (a) validate_and_divide_wild_cards: every collected label is looked up in the context, absence gives Err,
    #     the returned maps carry exactly the context's own sets under the same labels
    f = prog.lib_fn(UTILS + "validate_and_divide_wild_cards")
    if f is None:
        rep.unresolved(rule, "validate_and_divide_wild_cards", "", "function not found")
        return
    rep.functions.add(f.qual)
    eng = terms.Engine(prog, inline=True, hooks=E.Hooks([UTILS]))
    s = eng.summary(f)
    pn = f.param_names()
    tree, ctx = ("param", pn[0]), ("param", pn[1])
    coll = [x for x in s.all_sites() if x.kind == "call" and x.is_call_to("collect_unique_wild_cards")]
    ok = len(coll) >= 1 and all(terms.mentions_param(c.args[0], pn[0]) for c in coll) and len({c.term for c in coll}) == 1
    rep.check(ok, rule, "validate/collect", f"{f.file}:{f.line}", "labels come from collect_unique_wild_cards(tree)",
              "labels are not collected from the given tree")
    labels = coll[0].term if coll else None
    oks = [r for r in s.returns if r[5] in ("tail", "return") and r[0][0] == "ctor" and str(r[0][1]).endswith("Ok")]
    errs_ret = [r for r in s.returns if r[5] == "return" and r[0][0] == "ctor" and str(r[0][1]).endswith("Err")]
    tries = [r for r in s.returns if r[5] == "try"]
    covered = set()
    for which in (0, 1):
        def is_src(t, which=which):
            return t == ("tproj", labels, which)
        key = f"validate/labels#{which}"
        # the Ok result: component `which` maps label -> context[label]
        comp_ok = False
        for r in oks:
            payload = r[0][2][0] if r[0][2] else None
            comp = terms.mk_tproj(payload, which) if payload is not None and payload[0] == "tuple" else None
            if comp is None:
                continue
            es = elems_over(comp, is_src)
            gets = [x for x in subterms(comp) if x[0] == "call" and x[1] == GET and x[2][0] == ctx and es and any(y == es[0] for y in [x[2][1]] + list(subterms(x[2][1])))]
            foreign = [x for x in subterms(comp) if x[0] == "elem" and not is_src(iter_src(x[1]))]
            if es and gets and not foreign:
                comp_ok = True
        # Err on absence: an explicit `return Err` under "context lacks the label", or `?` on ok_or / ok_or_else of the look-up
        err_ok = False
        for r in errs_ret:
            for t, pol in q.conds(r[1]):
                h = q.as_has(t)
                if h is not None and not pol and h[0] == ctx and elems_over(h[1], is_src):
                    err_ok = True
        for r in tries:
            t = r[0]
            # `x?` leaves with Err exactly when `x is Ok` fails: normalised, that test is "the context has the label"
            ok_test = norm.Normalizer()(("matches", t, norm.OK_DESC))
            if ok_test[0] == "hof" and ok_test[1] == "all":
                ok_test = ok_test[3]            # a fallible item per label, collected: Ok iff every label passes
            h = q.as_has(ok_test)
            if h is not None and h[0] == ctx and elems_over(h[1], is_src):
                err_ok = True
            if ((t[0] == "hof" and t[1] in ("ok_or_else",)) or (t[0] == "call" and isinstance(t[1], str) and t[1].endswith("ok_or"))):
                inner = t[2] if t[0] == "hof" else t[2][0]
                g = q.as_get(inner)
                if g is not None and g[0] == ctx and elems_over(g[1], is_src):
                    err_ok = True
        if comp_ok and err_ok:
            covered.add(which)
        rep.check(comp_ok and err_ok, rule, key, f"{f.file}:{f.line}",
                  "each label: looked up in the context, Err when absent; returned set = context[label] under the same label",
                  f"label kind #{which} ({'propositions' if which == 0 else 'domains'}): returned map is {{label -> context[label]}}={comp_ok}, Err on absence={err_ok}")
    rep.check(covered == {0, 1}, rule, "validate/both-kinds", f"{f.file}:{f.line}", "wild-card propositions and domains are both validated",
              f"validated label kinds: {sorted(covered)} (0 = propositions, 1 = domains)")
    # (b) every extended entry point validates every tree before evaluating it, and feeds the validated maps to the context
    deng = pipelines.driver_engine(prog)
    n = 0
    for ep in pipelines.entry_points(prog):
        if "extended" not in ep.name:
            continue
        n += 1
        sm = deng.summary(ep)
        evs = pipelines.eval_sites(sm)
        vals = [x for x in sm.all_sites() if x.kind == "call" and x.is_call_to("validate_and_divide_wild_cards")]
        ext = [x for x in sm.all_sites() if x.kind == "mcall" and x.name == "extend_context_with_wild_cards"]
        ctxp = [p for p, t in zip(ep.param_names(), ep.param_tys) if "HashMap" in t]
        good = bool(evs) and len(vals) == 1 and len(ext) == 1
        why = f"{len(evs)} eval_node, {len(vals)} validate_and_divide_wild_cards, {len(ext)} extend_context_with_wild_cards"
        if good:
            v, e = vals[0], ext[0]
            if not (ctxp and v.args[1] == ("param", ctxp[0])):
                good, why = False, "validation is not made against the caller's context map"
            elif not all(any(y == v.term for y in [a] + list(subterms(a))) for a in e.args[1:3]):
                good, why = False, "the maps handed to extend_context_with_wild_cards do not derive from validate_and_divide_wild_cards"
            elif v.loops and not all(accumulates(a, v.term) for a in e.args[1:3]):
                good, why = False, ("the maps handed to extend_context_with_wild_cards do not accumulate the validated context of every formula "
                                    "(a later formula's map replaces the earlier ones): labels of the other formulae are missing at evaluation")
            else:
                tr = v.args[0]
                base = [y for y in [tr] + list(subterms(tr)) if y[0] == "call" and y[1].endswith("parse_and_minimize_extended_formula")]
                node = evs[0].args[0]
                if not base or not any(y == base[0] for y in [node] + list(subterms(node))):
                    good, why = False, "the evaluated tree is not the tree that was validated"
        rep.check(good, rule, f"{ep.name}/validated", f"{ep.file}:{ep.line}", "trees are validated against the context before evaluation", why)
    return n


def accumulates(t, vterm):
    """`t` (a map built in the loop over the formulae) gathers what `vterm` yields in *every* iteration: a loop variable that is
    extended / inserted into (and keeps its previous content), or the closed form of such a loop."""
    for y in [t] + list(subterms(t)):
        if y[0] in ("collect", "collectmap") and any(z == vterm for z in subterms(y)):
            return True
        if y[0] == "mu":
            lv = ("loopvar", y[1], y[2])
            step = y[4]
            keeps = any(z == lv for z in [step] + list(subterms(step)))
            adds = any(z[0] == "mut" and z[2][0] == "call" and isinstance(z[2][1], str) and z[2][1].rsplit("::", 1)[-1] in ("extend", "insert", "push", "entry")
                       and any(w == vterm for a_ in z[2][2] for w in [a_] + list(subterms(a_))) for z in [step] + list(subterms(step)))
            if keeps and adds:
                return True
    return False


def leaves(t, conds=()):
    if isinstance(t, tuple) and t and t[0] == "ite":
        return leaves(t[2], conds + ((t[1], True),)) + leaves(t[3], conds + ((t[1], False),))
    return [(conds, t)]


def check_wildcard_binding(prog, rep, rule, en):
    """extend_context_with_wild_cards installs (set, counter) under the key the terminal prints as; the terminal is served from the cache."""
    f = prog.lib_fn(CTXMOD + "EvalContext::extend_context_with_wild_cards")
    if f is None:
        rep.unresolved(rule, "extend_context_with_wild_cards", "", "function not found")
        return
    rep.functions.add(f.qual)
    eng = terms.Engine(prog, inline=True, hooks=E.eval_hooks())
    s = eng.summary(f)
    pn = f.param_names()
    selfp, props, doms = pn[0], ("param", pn[1]), ("param", pn[2])
    where = f"{f.file}:{f.line}"
    sites = s.all_sites()
    nz = norm.Normalizer()

    def over(site, coll):
        """The site runs once per element of `coll` (inside a loop / iterator closure over it): its arguments mention elem(coll)."""
        return [e for a in (site.args or []) for e in elems_over(a, lambda t: t == coll)]

    cins = [x for x in sites if x.kind == "mcall" and x.name == "insert" and q.place_is(x.args[0], selfp, "cache")]
    dwrites = [x for x in sites if (x.kind == "mcall" and x.name in ("insert", "entry", "get_mut") and q.place_is(x.args[0], selfp, "duplicates"))]
    dincs = [x for x in sites if x.kind == "assignop" and x.args and ("duplicates" in pt(x.args[0]))]
    good = len(cins) == 1 and bool(over(cins[0], props))
    why = f"{len(cins)} cache inserts in the proposition loop"
    key = None
    if good:
        elem = over(cins[0], props)[0]
        key = cins[0].args[1]
        ktxt = terms.mk_tproj(key, 0) if key[0] == "tuple" else key
        pieces = render.string_pieces(ktxt)
        want = render.printed(prog, "Atomic", ("ctor", OE + "Atomic::WildCardProp", (("tproj", elem, 0),)))
        same_text = want is not None and render.shape(pieces) == render.shape(want) and \
            [p[1] for p in pieces if isinstance(p, tuple)] == [p[1] for p in want if isinstance(p, tuple)]
        if not same_text:
            good, why = False, (f"cache key text {render.shape(pieces)} over {[sem.short(p[1], 30) for p in pieces if isinstance(p, tuple)]} differs from what "
                                f"Atomic::WildCardProp(label) prints ({render.shape(want) if want else None}): the terminal would never hit its entry")
        val = cins[0].args[2]
        if good and not (val[0] == "tuple" and val[1][0] == ("tproj", elem, 1)):
            good, why = False, f"the cached value {sem.short(val, 100)} is not the context's set for that label"
        if good and not (key[0] == "tuple" and terms.is_fresh_collection(key[1][1]) and val[0] == "tuple" and terms.is_fresh_collection(val[1][1])):
            good, why = False, "wild-card key / value must carry an empty domain map and an empty renaming"
    rep.check(good, rule, "extend/proposition-entry", cins[0].where() if cins else where,
              "cache[(text of %label%, {})] = (context set, {}) for every label of the proposition context", why)
    # counter: installed under the same key, value = previous + 1 (or 1 when absent)
    c_ok = bool(dwrites or dincs) and key is not None
    why = "no counter update found"
    if c_ok:
        for d in dwrites:
            if d.name == "insert":
                if d.args[1] != key:
                    c_ok, why = False, "counter and cache entry are installed under different keys"
                    break
                for conds, leaf in leaves(nz(d.args[2])):
                    known = list(conds) + q.conds(d.pc)
                    has = [pol for t, pol in known if q.as_has(t) is not None and q.place_is(q.as_has(t)[0], selfp, "duplicates")]
                    if leaf == ("lit", 1):
                        if has and has[-1]:
                            c_ok, why = False, "counter is reset to 1 although an entry exists"
                    elif leaf[0] == "bin" and leaf[1] == "+" and ("lit", 1) in (leaf[2], leaf[3]):
                        old = leaf[3] if leaf[2] == ("lit", 1) else leaf[2]
                        at = q.as_at(old)
                        if at is None or not q.place_is(at[0], selfp, "duplicates") or at[1] != key:
                            c_ok, why = False, f"counter update {sem.short(leaf, 60)} is not `previous + 1` of the same key"
                    else:
                        c_ok, why = False, f"counter value {sem.short(leaf, 60)} is neither 1 nor previous + 1"
            elif d.name in ("entry", "get_mut") and d.args[1] != key:
                c_ok, why = False, "counter and cache entry are installed under different keys"
        for d in dincs:
            if not (d.args[1] == ("lit", 1) and (d.term or ("", ""))[1] == "+"):
                c_ok, why = False, "counter is not incremented by exactly one"
    rep.check(c_ok, rule, "extend/counter", where, "counter[key] = previous + 1 (1 when absent), same key as the cache entry", why)
    dsets = [x for x in sites if x.kind == "mcall" and x.name == "insert" and q.place_is(x.args[0], selfp, "domain_raw_sets")]
    dext = [x for x in sites if x.kind == "mcall" and x.name == "extend" and q.place_is(x.args[0], selfp, "domain_raw_sets")]
    good = False
    if len(dsets) == 1 and not dext and over(dsets[0], doms):
        e2 = over(dsets[0], doms)[0]
        good = dsets[0].args[1] == ("tproj", e2, 0) and dsets[0].args[2] == ("tproj", e2, 1)
    elif len(dext) == 1 and not dsets:
        import effects
        pr = effects.as_pairs(nz(dext[0].args[1]))
        if pr is not None:
            src, cond, k, v = pr
            root = src
            while root[0] == "call" and len(root[2]) == 1 and root[1].rsplit("::", 1)[-1] in ("iter", "into_iter", "clone"):
                root = root[2][0]
            good = root == doms and cond == ("lit", True) and k[0] == "tproj" and str(k[2]) == "0" and k[1][0] == "elem" and v == ("tproj", k[1], 1) \
                and norm.strip_adapters(k[1][1]) in (src, root)
        dsets = dext
    rep.check(good, rule, "extend/domain-entry", dsets[0].where() if dsets else where,
              "domain_raw_sets[label] = context set for every label of the domain context", "domain sets are not installed under their own label")
    # the terminal is only ever served from the cache: the only feasible paths for the shape are cache hits
    shape = E.shape_atom("WildCardProp", E.lit("p"))
    rs = [r for r in en.specialise(shape) if r["term"] != terms.NEVER]
    hits = [r for r in rs if sem.is_cache_path(r)]
    rep.check(len(rs) == len(hits) == 1, rule, "eval_node/wild-card-served-from-cache", f"{en.fn.file}:{en.fn.line}",
              "wild-card terminal: exactly the cache-hit path is feasible", f"{len(rs)} feasible paths, {len(hits)} of them cache hits")
