"""Wild-card context rules shared by C02, C10, C14."""
import evalnode as E
import pipelines
import semantics as sem
import terms
from terms import subterms, pt, place_path

UTILS = "preprocessing::utils::"


def check_context_presence(prog, rep, rule):
    # (a) validate_and_divide_wild_cards: every collected label is tested, absence returns Err, the copied set is the context's
    f = prog.lib_fn(UTILS + "validate_and_divide_wild_cards")
    if f is None:
        rep.unresolved(rule, "validate_and_divide_wild_cards", "", "function not found")
        return
    rep.functions.add(f.qual)
    eng = terms.Engine(prog, inline=False)
    s = eng.summary(f)
    pn = f.param_names()
    tree, ctx = ("param", pn[0]), ("param", pn[1])
    coll = [x for x in s.sites if x.kind == "call" and x.is_call_to("collect_unique_wild_cards")]
    ok = len(coll) == 1 and terms.mentions_param(coll[0].args[0], pn[0])
    rep.check(ok, rule, "validate/collect", f"{f.file}:{f.line}", "labels come from collect_unique_wild_cards(tree)",
              "labels are not collected from the given tree")
    fors = [x for x in s.sites if x.kind == "for"]
    covered = set()
    for fs in fors:
        it = fs.args[0]
        which = None
        for x in subterms(it):
            if x[0] == "tproj" and coll and x[1] == coll[0].term:
                which = x[2]
        if which is None:
            continue
        lid = fs.node["id"]
        elem = ("elem", it)
        inside = [x for x in s.sites if lid in x.loops]
        cks = [x for x in inside if x.kind == "mcall" and x.name == "contains_key" and x.args[0] == ctx and elem in list(subterms(x.args[1])) + [x.args[1]]]
        errs = [r for r in s.returns if r[5] == "return" and r[0][0] == "ctor" and r[0][1].endswith("Err")
                and any(c[0] == "loop" and c[1] == lid for c in r[1])]
        # the Err return must be taken exactly when contains_key is false
        err_ok = False
        for r in errs:
            for c in r[1]:
                if c[0] == "if" and cks and c[1] in (("not", cks[0].term), cks[0].term) and ((c[1][0] == "not") == c[2]):
                    err_ok = True
        ins = [x for x in inside if x.kind == "mcall" and x.name == "insert" and len(x.args) == 3]
        ins_ok = bool(ins) and all(any(y[0] == "call" and y[1].endswith("::get") and y[2][0] == ctx for y in subterms(i.args[2])) and
                                   (i.args[1] == elem or elem in list(subterms(i.args[1]))) for i in ins)
        good = bool(cks) and err_ok and ins_ok
        covered.add(which)
        rep.check(good, rule, f"validate/labels#{which}", fs.where(),
                  "each label: contains_key(context) else Err; copied set = context[label]",
                  f"label loop #{which}: presence test={bool(cks)}, Err on absence={err_ok}, copies the context's own set under the same label={ins_ok}")
    rep.check(covered == {0, 1}, rule, "validate/both-kinds", f"{f.file}:{f.line}", "wild-card propositions and domains are both validated",
              f"validated label kinds: {sorted(covered)} (0 = propositions, 1 = domains)")
    # (b) every extended entry point validates every tree before evaluating it, and feeds the validated maps to the context
    deng = pipelines.driver_engine(prog)
    n = 0
    for ep in pipelines.entry_points(prog):
        if "extended" not in ep.name:
            continue
        n += 1
        sm = deng.summary(ep)
        evs = pipelines.eval_sites(sm)
        vals = [x for x in sm.all_sites() if x.kind == "call" and x.is_call_to("validate_and_divide_wild_cards")]
        ext = [x for x in sm.all_sites() if x.kind == "mcall" and x.name == "extend_context_with_wild_cards"]
        ctxp = [p for p, t in zip(ep.param_names(), ep.param_tys) if "HashMap" in t]
        good = bool(evs) and len(vals) == 1 and len(ext) == 1
        why = f"{len(evs)} eval_node, {len(vals)} validate_and_divide_wild_cards, {len(ext)} extend_context_with_wild_cards"
        if good:
            v, e = vals[0], ext[0]
            if not (ctxp and v.args[1] == ("param", ctxp[0])):
                good, why = False, "validation is not made against the caller's context map"
            # the maps given to the context derive from the validation result
            elif not all(any(y == v.term for y in subterms(a)) for a in e.args[1:3]):
                good, why = False, "the maps handed to extend_context_with_wild_cards do not derive from validate_and_divide_wild_cards"
            else:
                # the evaluated trees are the validated ones
                tr = v.args[0]
                base = [y for y in subterms(tr) if y[0] == "call" and y[1].endswith("parse_and_minimize_extended_formula")]
                node = evs[0].args[0]
                if not base or not any(y == base[0] for y in subterms(node)):
                    good, why = False, "the evaluated tree is not the tree that was validated"
        rep.check(good, rule, f"{ep.name}/validated", f"{ep.file}:{ep.line}", "trees are validated against the context before evaluation", why)
    return n


def check_wildcard_binding(prog, rep, rule, en):
    """extend_context_with_wild_cards installs (set, counter) under the key the terminal prints as; the terminal is served from the cache."""
    f = prog.lib_fn("evaluation::eval_context::EvalContext::extend_context_with_wild_cards")
    if f is None:
        rep.unresolved(rule, "extend_context_with_wild_cards", "", "function not found")
        return
    rep.functions.add(f.qual)
    eng = terms.Engine(prog, inline=False)
    s = eng.summary(f)
    pn = f.param_names()
    props, doms = ("param", pn[1]), ("param", pn[2])
    # Display template of Atomic::WildCardProp
    disp = None
    for q, fn in prog.fns.items():
        if fn.path.endswith("Atomic as std::fmt::Display>::fmt"):
            ds = eng.summary(fn)
            for st in ds.sites:
                if st.kind == "mcall" and st.name == "write_fmt":
                    for c in st.pc:
                        if c[0] == "match" and c[3] and c[2][0] == "var" and str(c[2][1]).endswith("Atomic::WildCardProp"):
                            fm = [x for x in subterms(st.args[1]) if x[0] == "fmt"]
                            if fm:
                                disp = tuple(p if isinstance(p, str) else "{}" for p in fm[0][1])
    fors = [x for x in s.sites if x.kind == "for"]
    pfor = [x for x in fors if any(y == props for y in subterms(x.args[0]))]
    dfor = [x for x in fors if any(y == doms for y in subterms(x.args[0]))]
    where = f"{f.file}:{f.line}"
    if len(pfor) != 1 or len(dfor) != 1:
        rep.unresolved(rule, "extend/loops", where, "expected one loop over the proposition context and one over the domain context")
        return
    lid = pfor[0].node["id"]
    elem = ("elem", pfor[0].args[0])
    inside = [x for x in s.sites if lid in x.loops]
    cins = [x for x in inside if x.kind == "mcall" and x.name == "insert" and (place_path(x.argnodes[0]) or "") == f"{pn[0]}.cache"]
    dins = [x for x in inside if x.kind == "mcall" and x.name == "insert" and (place_path(x.argnodes[0]) or "") == f"{pn[0]}.duplicates"]
    good = len(cins) == 1 and len(dins) >= 1
    why = f"{len(cins)} cache inserts, {len(dins)} counter inserts inside the loop"
    if good:
        key = cins[0].args[1]
        fm = [x for x in subterms(key) if x[0] == "fmt"]
        tmpl = tuple(p if isinstance(p, str) else "{}" for p in fm[0][1]) if fm else None
        name_ok = bool(fm) and all(isinstance(p, str) or p[1] == ("tproj", elem, 0) for p in fm[0][1])
        if disp is None or tmpl != disp or not name_ok:
            good, why = False, f"cache key template {tmpl} differs from the Display template of Atomic::WildCardProp {disp} (or is not built from the label)"
        val = cins[0].args[2]
        if good and not (val[0] == "tuple" and val[1][0] == ("tproj", elem, 1)):
            good, why = False, f"the cached value {sem.short(val, 100)} is not the context's set for that label"
        if good and not all(alg_same_key(d.args[1], key) for d in dins):
            good, why = False, "counter and cache entry are installed under different keys"
        # domains: empty for wild-cards
        if good and not (key[0] == "tuple" and key[1][1][0] == "call" and key[1][1][1].endswith("::new")):
            good, why = False, "wild-card key must carry an empty domain map"
    rep.check(good, rule, "extend/proposition-entry", pfor[0].where(),
              "cache[(Display of %name%, {})] = (context set, {}) installed together with its counter", why)
    # counter incremented by one / set to one
    inc_ok = False
    for d in dins:
        v = d.args[2]
        if v == ("lit", 1) or (v[0] == "bin" and v[1] == "+" and v[3] == ("lit", 1)):
            inc_ok = True
        else:
            inc_ok = False
            break
    rep.check(inc_ok and len(dins) == 2, rule, "extend/counter", pfor[0].where(), "counter = previous + 1 (or 1)",
              f"counter updates: {[sem.short(d.args[2], 60) for d in dins]}")
    lid2 = dfor[0].node["id"]
    elem2 = ("elem", dfor[0].args[0])
    dsets = [x for x in s.sites if lid2 in x.loops and x.kind == "mcall" and x.name == "insert" and (place_path(x.argnodes[0]) or "") == f"{pn[0]}.domain_raw_sets"]
    rep.check(len(dsets) == 1 and dsets[0].args[1] == ("tproj", elem2, 0) and dsets[0].args[2] == ("tproj", elem2, 1), rule, "extend/domain-entry", dfor[0].where(),
              "domain_raw_sets[label] = context set", "domain sets are not installed under their own label")
    # the terminal is only ever served from the cache: the only feasible paths for the shape are cache hits
    shape = E.shape_atom("WildCardProp", E.lit("p"))
    rs = [r for r in en.specialise(shape) if r["term"] != terms.NEVER]
    hits = [r for r in rs if sem.is_cache_path(r)]
    rep.check(len(rs) == len(hits) == 1, rule, "eval_node/wild-card-served-from-cache", f"{en.fn.file}:{en.fn.line}",
              "wild-card terminal: exactly the cache-hit path is feasible", f"{len(rs)} feasible paths, {len(hits)} of them cache hits")
    # the key the reader builds for a wild-card terminal: canonical text of node.to_string() -- Display of the node is its formula_str,
    # which mk_atom sets to atom.to_string(): checked in C06-R3; canonize_subform copies '%' and name characters (C10-R1)


def alg_same_key(a, b):
    return a == b
