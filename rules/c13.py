"""C13 - EW and AW are weak until.

Decided here:
  C13-R1  the evaluators that eval_node dispatches BinaryOp::EW / BinaryOp::AW to compute one of the two defining
          equations the property states:  E[p W q] = not A[not q U (not p & not q)]  or  E[p U q] | EG p,
          A[p W q] = not E[not q U (not p & not q)]  (Boolean-normalised, fixed points by scheme);
  C13-R2  eval_node, partially evaluated for `l EW r` and `l AW r`, computes that equation over the recursive results
          of the left and right operand (operand order, graph, steady states);
  C13-R3  the fixed-point loops these evaluators rely on run to stabilisation;
  C13-R4  the texts `EW` and `AW` are tokenised to BinaryOp::EW / BinaryOp::AW whatever follows (first-decision table of the
          tokenizer, shared with C06-R4) - otherwise a written weak until is evaluated as another operator.
Not decided: path semantics of the underlying EU / AU / EG (C11 gives their equations)."""
import evalnode as E
import semantics as sem
import terms

LEVEL = "other"


def run(prog, rep):
    rep.explanation = __doc__
    rep.assumptions = ["L1 Set operations are pure set algebra", "L2 pre/var_pre monotone"]
    rep.rule("C13-R1", "evaluator of EW / AW == defining equation of weak until")
    rep.rule("C13-R2", "eval_node(l EW r), eval_node(l AW r) == weak until of the recursive results")
    rep.rule("C13-R3", "loops of the until evaluators run to stabilisation")
    en = E.EvalNode(prog)
    if not en.ok():
        rep.unresolved("C13-R2", "eval_node", "", "eval_node not found")
        return
    rep.functions.add(en.fn.qual)
    eng = terms.Engine(prog, inline=True)
    callees = sem.operator_callees(en)
    used = []
    for op in ("EW", "AW"):
        fns = callees.get(("BinaryOp", op), [])
        if not fns:
            rep.unresolved("C13-R1", f"BinaryOp::{op}", f"{en.fn.file}:{en.fn.line}", "no evaluator function found in the operator's arm of eval_node")
        for f in fns:
            sem.check_evaluator(rep, "C13-R1", prog, "BinaryOp", op, f, eng)
            used.append(f)
    rep.floor("C13-R1", 2)
    for key, shape, alts, kind, op in sem.plain_shapes():
        if op in ("EW", "AW"):
            sem.check_shape(rep, "C13-R2", en, shape, alts, key, detail=f"{kind} {op}")
    for key, shape, alts, kind, op in sem.variant_shapes(ops=("EW", "AW")):
        sem.check_shape(rep, "C13-R2", en, shape, alts, key, detail=f"{kind} {op} with a special operand")
    rep.floor("C13-R2", 22)
    # loops of everything the two evaluators are built from
    seen = set()
    for f in prog.lib_fns():
        if f.path.startswith(E.OPS) and f.qual not in seen:
            seen.add(f.qual)
            sem.check_loop_protocol(rep, "C13-R3", prog, f, eng)
    rep.floor("C13-R3", 2)
    # the formula text: `EW` / `AW` are read as the weak-until operators (not as another operator of the family) - the tokenizer's
    # first-decision table, shared with C06-R4
    import tokrules as TR
    rep.rule("C13-R4", "the operator texts EW / AW are tokenised to the weak-until operators")
    m = TR.model(prog)
    if not m.ok:
        rep.unresolved("C13-R4", "tokenizer/model", "", "the tokenizer's main loop could not be modelled")
    else:
        for text in ("EW", "AW"):
            good, why = TR.reads_back(m, text, "Binary", text)
            rep.check(good, "C13-R4", f"tokenizer/{text}", f"{m.fn.file}:{m.fn.line}", f"`{text}` is tokenised as BinaryOp::{text}", why)
    rep.floor("C13-R4", 2)
