"""C08 - results are invariant under meaning-preserving rewrites of the formula text.

Decided here (equality of results over all rewrites is not decided; these are the necessary table / shape agreements):
  C08-R1  long / short spellings: the calls of collect_var_and_dom_from_operator are grouped by operator character; each of
          `!`, `3`, `V`, `@` has exactly one short arm and one long arm (`\\bind`, `\\exists`, `\\forall`, `\\jump` - the
          README list), both build the same HybridOp variant, pass the same domain permission, and the two jump arms
          share the "no domain" check;
  C08-R2  constants: the literals the terminal level maps to True / False are exactly the README list
          true / True / 1 and false / False / 0;
  C08-R3  whitespace and redundant parentheses: the whitespace arm comes first and produces no token; a parenthesised
          group is tokenised recursively and parsed by re-entering the top level, whose result is returned unchanged
          (no extra node);
  C08-R4  renaming: evaluation only sees canonical depth-based names (C07-R4 must-pass-through), the symbolic copy of
          a variable is selected by `name.len() - 1` of the canonical name, in the comparator and in the projection;
  C08-R5  variable occurrences, jump targets and quantifier variables are renamed through the same scope map entry, and the new
          name depends on the nesting depth only (the C07-R1 equations for Var / bind / exists / forall / jump nodes)."""
import os
import re

import c05
import c06
import c07
import evalnode as E
import hir
import lowlevel
import q
import semantics as sem
import terms
from terms import subterms, pt

LEVEL = "other"
TOK = "preprocessing::tokenizer::"
README = c05.README


def readme_lists():
    try:
        txt = open(README).read()
    except OSError:
        return None, None
    consts = None
    m = re.search(r"constants:\s*(.*)", txt)
    if m:
        parts = m.group(1).split(",")
        if len(parts) == 2:
            consts = ({x.strip(" `") for x in parts[0].split("/")}, {x.strip(" `") for x in parts[1].split("/")})
    longs = set(re.findall(r"`\\(bind|jump|exists|forall)`", txt))
    return consts, longs


def run(prog, rep):
    rep.explanation = __doc__
    rep.assumptions = ["README.md lists the documented spellings"]
    for r, t in (("C08-R1", "long and short hybrid operator spellings are siblings"), ("C08-R2", "constants table == README"),
                 ("C08-R3", "whitespace produces no token; parentheses add no node"), ("C08-R4", "symbolic copy chosen by canonical name only"),
                 ("C08-R5", "occurrences and binders renamed consistently")):
        rep.rule(r, t)
    consts, longs = readme_lists()
    eng = terms.Engine(prog, inline=True, hooks=E.Hooks([TOK], opaque_names=[TOK + "collect_var_and_dom_from_operator", TOK + "collect_name", TOK + "skip_whitespaces"]))
    tk = prog.lib_fn(TOK + "try_tokenize_recursive")
    if tk is None:
        rep.unresolved("C08-R1", "tokenizer", "", "tokenizer not found")
        return
    rep.functions.add(tk.qual)
    s = eng.summary(tk)
    calls = [x for x in s.all_sites() if x.kind == "call" and x.is_call_to("collect_var_and_dom_from_operator")]
    ctors = [x for x in s.all_sites() if x.kind == "ctor" and str(x.callee).endswith("HctlToken::Hybrid")]
    groups = {}
    for x in calls:
        ch = x.args[1][1] if x.args[1][0] == "lit" else None
        long_name = None
        for c in x.pc:
            if c[0] == "if" and c[2] and c[1][0] == "bin" and c[1][1] == "==":
                for side in (c[1][2], c[1][3]):
                    if side[0] == "lit" and isinstance(side[1], str) and len(side[1]) > 1:
                        long_name = side[1]
        # the token built from this call
        built = [k for k in ctors if any(y == x.term for a in k.args for y in [a] + list(subterms(a)))]
        variant = str(built[0].args[0][1]).rsplit("::", 1)[-1] if built and built[0].args[0][0] == "ctor" else None
        dom_none = bool(built) and built[0].args[2] == ("ctor", "std::prelude::v1::None", ())
        dom_err = any(r for r in s.returns if r[5] == "return" and r[0][0] == "ctor" and str(r[0][1]).endswith("Err")
                      and any(pol and q.is_some_test(t) is not None and any(y == x.term for y in subterms(q.is_some_test(t))) for t, pol in q.conds(r[1])))
        groups.setdefault(ch, []).append({"site": x, "long": long_name, "variant": variant, "perm": x.args[2], "dom_none": dom_none, "dom_err": dom_err})
    want_variant = {"!": "Bind", "3": "Exists", "V": "Forall", "@": "Jump"}
    want_long = {"!": "bind", "3": "exists", "V": "forall", "@": "jump"}
    for ch in ("!", "3", "V", "@"):
        g = groups.get(ch, [])
        shorts = [x for x in g if x["long"] is None]
        lgs = [x for x in g if x["long"] is not None]
        where = g[0]["site"].where() if g else f"{tk.file}:{tk.line}"
        good = len(shorts) == 1 and len(lgs) == 1
        why = f"{len(shorts)} short and {len(lgs)} long arms for `{ch}`"
        if good:
            a, b = shorts[0], lgs[0]
            if not (a["variant"] == b["variant"] == want_variant[ch]):
                good, why = False, f"short arm builds {a['variant']}, long arm `\\{b['long']}` builds {b['variant']}; expected {want_variant[ch]}"
            elif a["perm"] != b["perm"]:
                good, why = False, f"short arm passes {sem.short(a['perm'], 40)} as domain permission, long arm `\\{b['long']}` passes {sem.short(b['perm'], 40)}"
            elif b["long"] != want_long[ch]:
                good, why = False, f"long spelling of `{ch}` is `\\{b['long']}`, README documents `\\{want_long[ch]}`"
            elif ch == "@" and not (a["dom_none"] and b["dom_none"] and a["dom_err"] and b["dom_err"]):
                good, why = False, "the two jump arms do not both reject a domain and build a domain-free token"
        if not shorts or not lgs:
            rep.unresolved("C08-R1", f"hybrid:{ch}", where, why + ": the short / long arm pair could not be recovered from the tokenizer's call sites")
            continue
        rep.check(good, "C08-R1", f"hybrid:{ch}", where, f"`{ch}` and `\\{want_long[ch]}` are the same operator with the same domain permission", why)
    found_longs = {x["long"] for g in groups.values() for x in g if x["long"]}
    rep.check(longs is not None and found_longs == longs, "C08-R1", "long-names", f"{tk.file}:{tk.line}", f"long names {sorted(found_longs)} == README",
              f"tokenizer accepts {sorted(found_longs)}, README documents {sorted(longs or [])}")
    rep.floor("C08-R1", 5)
    # ---- R2 constants
    term_fn, table = c05.parser_constants(prog)
    if term_fn is None or consts is None:
        rep.unresolved("C08-R2", "constants", "", "terminal level or README constants list not found")
    else:
        f, fs = term_fn
        rep.functions.add(f.qual)
        rep.check(table[True] == consts[0] and table[False] == consts[1], "C08-R2", "constants", f"{f.file}:{f.line}",
                  f"true: {sorted(table[True])}, false: {sorted(table[False])}",
                  f"terminal level maps {sorted(table[True])} to true and {sorted(table[False])} to false; README documents {sorted(consts[0])} / {sorted(consts[1])}")
    rep.floor("C08-R2", 1)
    # ---- R3
    main_match = None
    for n in hir.walk(tk.body):
        if n.get("k") == "match" and str(n["e"].get("ty")) == "char" and len(n["arms"]) > 10:
            main_match = n
    if main_match is None:
        rep.unresolved("C08-R3", "tokenizer/char-match", "", "character match not found")
    else:
        a0 = main_match["arms"][0]
        g = a0.get("guard")
        ws = g is not None and any(x.get("k") == "mcall" and x.get("name") == "is_whitespace" for x in hir.walk(g))
        empty = a0["body"].get("k") == "block" and not a0["body"]["stmts"] and not a0["body"].get("expr")
        rep.check(ws and empty, "C08-R3", "tokenizer/whitespace", f"{tk.file}:{a0['ln']}", "first arm: whitespace -> nothing",
                  "the first arm of the tokenizer is not `whitespace => {}`")
        grp = [x for x in s.all_sites() if x.kind == "ctor" and str(x.callee).endswith("HctlToken::Tokens")]
        good = len(grp) == 1 and grp[0].args[0][0] == "proj" and grp[0].args[0][1][0] in ("rec", "call") and grp[0].args[0][1][1].endswith("try_tokenize_recursive") \
            and any(c[0] == "match" and c[3] and c[2] == ("lit", "(") for c in grp[0].pc)
        rep.check(good, "C08-R3", "tokenizer/group", grp[0].where() if grp else f"{tk.file}:{tk.line}", "`(` starts a recursively tokenised group",
                  "a parenthesised group is not tokenised by the recursive call")
    # parser side: C05's terminal rule re-used
    sub = type(rep)("C08x")
    c05.check_levels(prog, sub)
    bad = [i for i in sub.instances if i.verdict != "ok" and "single-token" in i.key]
    have = [i for i in sub.instances if "single-token" in i.key]
    rep.check(bool(have) and not bad, "C08-R3", "parser/group-unchanged", have[0].where if have else "", "a parenthesised group re-enters the top level; its tree is returned unchanged",
              bad[0].detail if bad else "the terminal level could not be analysed")
    # the look-ahead of `3` / `V` must skip whitespace, and whitespace skipping must accept every whitespace character (C05-R4 / R5 instances)
    sub5 = type(rep)("C08z")
    c05.check_tokenizer(prog, sub5)
    for i in sub5.instances:
        if i.rule == "C05-R5" or (i.rule == "C05-R4" and ("arm:3" in i.key or "arm:V" in i.key)):
            (rep.ok if i.verdict == "ok" else rep.violation if i.verdict == "violation" else rep.unresolved)("C08-R3", "whitespace/" + i.key, i.where, i.detail)
    rep.floor("C08-R3", 11)
    # ---- R4
    lowlevel.check_primitives(prog, rep, "C08-R4")
    sub = type(rep)("C08y")
    c07.run(prog, sub)
    for i in sub.instances:
        put = rep.ok if i.verdict == "ok" else rep.violation if i.verdict == "violation" else rep.unresolved
        if i.rule == "C07-R4":
            put("C08-R4", i.key.split(":", 1)[1], i.where, i.detail)
        if i.rule == "C07-R1" and any(k in i.key for k in ("shape:Var", "shape:Bind", "shape:Exists", "shape:Forall", "shape:Jump", "floor")):
            put("C08-R5", i.key.split(":", 1)[1], i.where, i.detail)
        if i.rule == "C07-R3":
            put("C08-R5", i.key.split(":", 1)[1], i.where, i.detail)
    rep.floor("C08-R4", 20)
    rep.floor("C08-R5", 9)
