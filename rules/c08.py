"""C08 - results are invariant under meaning-preserving rewrites of the formula text.

Decided here (equality of results over all rewrites is not decided; these are the necessary table / shape agreements):
  C08-R1  long / short spellings (tokrules): the term the tokenizer compares with the long operator names after `\\` is identified
          and replaced by each name of the README list in turn; `!` / `\\bind`, `3` / `\\exists`, `V` / `\\forall`, `@` / `\\jump`
          must build the same HybridOp variant and allow a domain under exactly the same mode flag values; the set of long names is
          the README list;
  C08-R2  constants: the literals the terminal level maps to True / False are exactly the README list
          true / True / 1 and false / False / 0;
  C08-R3  whitespace and redundant parentheses: a whitespace character produces neither token nor error, hybrid segments skip
          whitespace before each part, the look-ahead of `3` / `V` skips whitespace, skip_whitespaces accepts every whitespace
          character; `(` yields a recursively tokenised group, which the parser's terminal level parses by re-entering the top
          level and returning that result unchanged (no extra node);
  C08-R4  renaming: evaluation only sees canonical depth-based names (C07-R4 must-pass-through), the symbolic copy of
          a variable is selected by `name.len() - 1` of the canonical name, in the comparator and in the projection;
  C08-R5  variable occurrences, jump targets and quantifier variables are renamed through the same scope map entry, and the new
          name depends on the nesting depth only (the C07-R1 equations for Var / bind / exists / forall / jump nodes).
  (R3 also covers the parser's terminal level as a whole: a parenthesised single name takes the same route as the bare name; R5 also
  covers the support check being made on the tree with minimised names, shared with C15-R4: formulae that differ only in variable names
  need the same number of symbolic copies.)
"""
import os
import re

import c05
import c06
import c07
import evalnode as E
import hir
import lowlevel
import q
import semantics as sem
import terms
from terms import subterms, pt

LEVEL = "other"
TOK = "preprocessing::tokenizer::"
README = c05.README


def readme_lists():
    try:
        txt = open(README).read()
    except OSError:
        return None, None
    consts = None
    m = re.search(r"constants:\s*(.*)", txt)
    if m:
        parts = m.group(1).split(",")
        if len(parts) == 2:
            consts = ({x.strip(" `") for x in parts[0].split("/")}, {x.strip(" `") for x in parts[1].split("/")})
    longs = set(re.findall(r"`\\(bind|jump|exists|forall)`", txt))
    return consts, longs


def run(prog, rep):
    rep.explanation = __doc__
    rep.assumptions = ["README.md lists the documented spellings"]
    for r, t in (("C08-R1", "long and short hybrid operator spellings are siblings"), ("C08-R2", "constants table == README"),
                 ("C08-R3", "whitespace produces no token; parentheses add no node"), ("C08-R4", "symbolic copy chosen by canonical name only"),
                 ("C08-R5", "occurrences and binders renamed consistently")):
        rep.rule(r, t)
    consts, longs = readme_lists()
    import tokrules as TR
    import workers
    tk = workers.tokenizer_main(prog)
    if tk is None:
        rep.unresolved("C08-R1", "tokenizer", "", "tokenizer not found")
        return
    rep.functions.add(tk.qual)
    TR.check_long_short(prog, rep, "C08-R1", sorted(longs) if longs else None)
    rep.floor("C08-R1", 5)
    eng = terms.Engine(prog, inline=True, hooks=E.Hooks([TOK], opaque_names=[workers.tokenizer_main_path(prog)]))
    s = eng.summary(tk)
    # ---- R2 constants
    term_fn, table = c05.parser_constants(prog)
    if term_fn is None or consts is None:
        rep.unresolved("C08-R2", "constants", "", "terminal level or README constants list not found")
    else:
        f, fs = term_fn
        rep.functions.add(f.qual)
        rep.check(table[True] == consts[0] and table[False] == consts[1], "C08-R2", "constants", f"{f.file}:{f.line}",
                  f"true: {sorted(table[True])}, false: {sorted(table[False])}",
                  f"terminal level maps {sorted(table[True])} to true and {sorted(table[False])} to false; README documents {sorted(consts[0])} / {sorted(consts[1])}")
    rep.floor("C08-R2", 1)
    # ---- R3
    m = TR.model(prog)
    if m.ok:
        fi, _ = TR.flag_index(m)
        out = m.decide(["("], {fi: True} if fi is not None else None)
        toks = [(t, r) for k, t, r in out if k == "token"]
        good = len(toks) == 1 and TR.T.token_kind(toks[0][0]) == ("Tokens", None)
        if good:
            inner = toks[0][0][2][0]
            good = any(y[0] in ("rec", "call") and isinstance(y[1], str) and y[1] == workers.tokenizer_main_path(prog) for y in [inner] + list(subterms(inner)))
        rep.check(good, "C08-R3", "tokenizer/group", f"{tk.file}:{tk.line}", "`(` starts a recursively tokenised group",
                  "a parenthesised group is not tokenised by the recursive call")
    else:
        rep.unresolved("C08-R3", "tokenizer/group", f"{tk.file}:{tk.line}", "the tokenizer's main loop could not be modelled")
    # parser side: C05's terminal rule re-used
    sub = type(rep)("C08x")
    c05.check_levels(prog, sub)
    # (the terminal level: one token; each kind of name token becomes the node of that name - a parenthesised single name must take the
    # same route as the bare name, constants included)
    bad = [i for i in sub.instances if i.verdict != "ok" and ("single-token" in i.key or i.key.split(":", 1)[-1].startswith("terminal/"))]
    have = [i for i in sub.instances if "single-token" in i.key or i.key.split(":", 1)[-1].startswith("terminal/")]
    rep.check(bool(have) and not bad, "C08-R3", "parser/group-unchanged", have[0].where if have else "", "a parenthesised group re-enters the top level; its tree is returned unchanged",
              bad[0].detail if bad else "the terminal level could not be analysed")
    # the look-ahead of `3` / `V` must skip whitespace, and whitespace skipping must accept every whitespace character (C05-R4 / R5 instances)
    sub5 = type(rep)("C08z")
    c05.check_tokenizer(prog, sub5)
    for i in sub5.instances:
        if i.rule == "C05-R5" or (i.rule == "C05-R4" and ("arm:3" in i.key or "arm:V" in i.key)):
            (rep.ok if i.verdict == "ok" else rep.violation if i.verdict == "violation" else rep.unresolved)("C08-R3", "whitespace/" + i.key, i.where, i.detail)
    rep.floor("C08-R3", 9)
    # variables that differ only in their names need the same number of symbolic copies: the support check is made on the tree with
    # minimised names (shared with C15-R4 / C14-R2)
    import c14
    import parserspec as PS
    import pipelines
    subv = type(rep)("C08v")
    veng = terms.Engine(prog, inline=True, hooks=c14.PanicHooks(prog, [PS.PARSER]))
    roots = [f_ for f_ in pipelines.entry_points(prog) if any("str" in t_ for t_ in f_.param_tys)]
    c14.check_validator_placement(prog, subv, veng, roots)
    for i in subv.instances:
        k_ = i.key.split(":", 1)[1] if ":" in i.key else i.key
        if k_.endswith("/support") or k_.endswith("/parsed") or k_.endswith("/shape") or k_ in ("parse_and_validate", "parse_and_validate_extended"):
            (rep.ok if i.verdict == "ok" else rep.violation if i.verdict == "violation" else rep.unresolved)("C08-R5", "names/" + k_, i.where, i.detail)
    # ---- R4
    lowlevel.check_primitives(prog, rep, "C08-R4")
    sub = type(rep)("C08y")
    c07.run(prog, sub)
    for i in sub.instances:
        put = rep.ok if i.verdict == "ok" else rep.violation if i.verdict == "violation" else rep.unresolved
        if i.rule == "C07-R4":
            put("C08-R4", i.key.split(":", 1)[1], i.where, i.detail)
        if i.rule == "C07-R1" and any(k in i.key for k in ("shape:Var", "shape:Bind", "shape:Exists", "shape:Forall", "shape:Jump", "floor")):
            put("C08-R5", i.key.split(":", 1)[1], i.where, i.detail)
        if i.rule == "C07-R3":
            put("C08-R5", i.key.split(":", 1)[1], i.where, i.detail)
    rep.floor("C08-R4", 20)
    rep.floor("C08-R5", 9)
