"""C20 - the answer for a colour equals the answer on the network instantiated by it.

Decided as a compositional argument: a function built only from colour-pointwise primitives is colour-pointwise.
The check establishes the premise for everything reachable from eval_node:
  C20-R1  no colour-mixing primitive is used: in the functions reachable from eval_node (call graph of resolved callees)
          there is no call of a colour / vertex projection or selection of GraphColoredVertices (colors, vertices,
          pick_*, intersect_colors, minus_colors, ...), nothing of GraphColors / GraphVertices, no unit_colors, and every
          BDD quantification / selection (exists, for_all, project, pick, select, restrict, var_*) ranges over variables
          that derive from state_variables() or extra_state_variables(..) only - never parameter variables (L6);
  C20-R2  colour-global predicates (is_empty, ==, !=, is_subset, cardinalities on coloured sets) in the reachable set are
          only: the stabilisation test of a monotone fixed-point loop, the `!update.is_empty()` guard of the saturation
          loop, and the empty-universe shortcut of a domain quantifier (whose two branches agree on colours where the
          domain is empty: bind / exists give the empty set there anyway and forall the whole universe);
  C20-R3  every operator of eval_node is its defining equation over pointwise primitives (the C01 / C02 / C12 / C13 shapes:
          set algebra, pre-images, comparator, projections of state / auxiliary variables, recursive results), evaluated
          on the caller's graph or a restriction of it whose restriction is itself computed pointwise.
Not decided: the pointwise-ness of the library primitives themselves (L2, L5).
  C20-R4  the fixed-point / attractor shortcuts are the library's coloured computations on the graph's unit set: compute_steady_states =
          FixedPoints::symbolic(graph, unit), compute_attractor_states = union over the attractor iterator (shared with C12-R3); a
          per-vertex variant would answer for all colours at once.
"""
import callgraph
import evalnode as E
import norm
import lowlevel
import semantics as sem
import terms
from terms import subterms, pt, ppc

LEVEL = "other"

MIXING_GCV = ("colors", "vertices", "pick_color", "pick_vertex", "pick_singleton", "intersect_colors", "minus_colors", "intersect_vertices",
              "minus_vertices", "fix_network_variable", "restrict_network_variable", "raw_projection", "state_projection", "fn_update_projection",
              "to_singleton", "is_singleton", "pick_colors", "pick_vertices")
MIXING_GRAPH = ("unit_colors", "mk_unit_colors", "empty_colors", "mk_empty_colors", "transfer_colors_from", "mk_function_colors",
                "mk_function_row_colors", "fix_parameters", "trap_forward", "trap_backward", "reach_forward", "reach_backward", "restrict")
BDD_QUANT = ("exists", "for_all", "project", "pick", "pick_random", "select", "restrict", "var_exists", "var_for_all", "var_project", "var_pick",
             "var_pick_random", "var_select", "var_restrict", "binary_op_with_exists", "binary_op_with_for_all", "nested_apply_with_exists")
GLOBAL_PREDS = ("is_empty", "is_subset", "approx_cardinality", "exact_cardinality", "symbolic_size", "is_singleton", "is_true", "is_false", "cardinality")


def last(p):
    return p.rsplit("::", 1)[-1] if isinstance(p, str) else ""


def classify(site):
    """'mix' for a colour-mixing primitive, 'quant' for a BDD quantification, None otherwise."""
    c = site.callee
    if site.kind not in ("call", "mcall") or not isinstance(c, str):
        return None
    l = last(c)
    if ("GraphColors" in c or "GraphVertices" in c) and "GraphColoredVertices" not in c:
        return "mix"
    if "GraphColoredVertices" in c and l in MIXING_GCV:
        return "mix"
    if "SymbolicAsyncGraph" in c and l in MIXING_GRAPH:
        return "mix"
    if "Bdd" in c and "BddVariableSet" not in c and l in BDD_QUANT:
        return "quant"
    return None


POINTWISE = {"intersect", "union", "minus", "mk_unit_colored_vertices", "unit_colored_vertices", "mk_empty_colored_vertices", "pre", "post", "var_pre",
             "var_post", "variables", "rev", "create_comparator_var_state", "create_comparator_two_vars", "project_out_hctl_var", "project_out_bn_vars",
             "compute_valid_domain_for_var", "restrict_stg_unit_bdd", "substitute_hctl_var", "compute_attractor_states", "compute_steady_states",
             "eval_node", "is_empty", "symbolic_context", "find_network_variable", "mk_state_variable_is_true", "new", "unwrap", "get", "get_mut", "insert",
             "iter", "clone", "as_str", "get_canonical_and_renaming", "to_string", "symbolic", "contains_key", "into_iter"}


def non_pointwise(t):
    """Names of the callees in a value term that are not on the list of colour-pointwise primitives."""
    bad = []
    for x in subterms(t):
        if x[0] in ("call", "rec") and isinstance(x[1], str):
            l = last(x[1])
            if l not in POINTWISE:
                bad.append(l)
        elif x[0] == "hof" and x[1] not in ("all", "map", "find"):
            bad.append(x[1])
    return bad


def state_vars_only(vars_):
    txt = pt(vars_)
    return ("state_variables(" in txt or "extra_state_variables(" in txt or "get_state_variable(" in txt) and "parameter_variables" not in txt and "all_extra" not in txt


def handed_state_vars(prog, edges, ieng, f, vars_, depth=3):
    """The quantified variables are handed to `f` by its callers (a helper that only performs the projection): with every local caller's
    arguments in place of the parameters, the quantification must be over state / auxiliary variables.  Returns one (caller, site, ok)
    per call of the helper, or None when the variables are not parameters of `f` / nothing calls it."""
    if depth == 0 or not any(x[0] == "param" for x in [vars_] + list(subterms(vars_))):
        return None
    callers = [prog.fns[q] for q, outs in sorted(edges.items()) if f.qual in outs and q != f.qual]
    pn = f.param_names()
    out = []
    for g in callers:
        for x in ieng.summary(g).sites:
            if x.kind not in ("call", "mcall") or not isinstance(x.callee, str) or len(x.args or ()) != len(pn):
                continue
            t = prog.resolve_local(g.crate, x.inst or x.callee) or prog.resolve_local(g.crate, x.callee)
            if t is None or t.qual != f.qual:
                continue
            v = terms.subst(vars_, dict(zip(pn, x.args)))
            if state_vars_only(v):
                out.append((g, x, True, v))
                continue
            up = handed_state_vars(prog, edges, ieng, g, v, depth - 1)
            if up:
                out.extend(up)
            else:
                out.append((g, x, False, v))
    return out or None


def selftest(rep):
    """Positive examples for the zero-count rule: the classifier must flag these on every run."""
    mk = lambda callee: terms.Site(kind="mcall", callee=callee, name=last(callee), args=[])     # noqa: E731
    samples = [("biodivine_lib_param_bn::symbolic_async_graph::_impl_graph_colored_vertices::<impl biodivine_lib_param_bn::symbolic_async_graph::GraphColoredVertices>::colors", "mix"),
               ("biodivine_lib_param_bn::symbolic_async_graph::<impl SymbolicAsyncGraph>::unit_colors", "mix"),
               ("biodivine_lib_param_bn::symbolic_async_graph::_impl_graph_colors::<impl biodivine_lib_param_bn::symbolic_async_graph::GraphColors>::intersect", "mix"),
               ("biodivine_lib_bdd::_impl_bdd::_impl_relation_ops::<impl biodivine_lib_bdd::Bdd>::exists", "quant"),
               ("biodivine_lib_param_bn::biodivine_std::traits::Set::union", None)]
    ok = all(classify(mk(c)) == want for c, want in samples)
    rep.check(ok, "C20-R1", "selftest/classifier", "", "classifier flags colour projections / quantifications and nothing else (5 fixed examples)",
              "the classifier of colour-mixing primitives does not recognise its own positive examples")


def run(prog, rep):
    rep.explanation = __doc__
    rep.assumptions = ["L2 pre-images are pointwise in colour", "L5 FixedPoints / attractor computations are pointwise in colour",
                       "L6 state / extra-state / parameter variables are disjoint groups"]
    rep.rule("C20-R1", "no colour-mixing primitive in the evaluation path; BDD quantification only over state / auxiliary variables")
    rep.rule("C20-R2", "colour-global predicates only as loop termination tests or the empty-universe shortcut")
    rep.rule("C20-R3", "every operator is its defining equation over pointwise primitives")
    selftest(rep)
    en = E.EvalNode(prog)
    if not en.ok():
        rep.unresolved("C20-R1", "eval_node", "", "eval_node not found")
        return
    eng = terms.Engine(prog, inline=False)
    edges = callgraph.build(prog, eng)
    # callers are summarised with the helpers of the low-level module inlined (and nothing else: the evaluator itself stays shallow)
    ieng = terms.Engine(prog, inline=True, hooks=E.Hooks(["evaluation::low_level_operations::"]))
    reach = callgraph.reachable(prog, edges, [en.fn.qual], with_display=False)
    n_fn = 0
    for q in sorted(reach):
        f = prog.fns[q]
        rep.functions.add(q)
        n_fn += 1
        s = eng.summary(f)
        for st in s.sites:
            rep.call_sites += 1
            k = classify(st)
            if k == "mix":
                rep.violation("C20-R1", f"{f.name}/{st.short()}@{st.ordinal}", st.where(),
                              f"colour-mixing primitive `{st.short()}` in {f.path}, which is reachable from eval_node: the result for one colour can depend on which other colours exist")
            elif k == "quant":
                vars_ = st.args[-1] if st.args else ()
                if not state_vars_only(vars_):
                    # the list may be built by a private helper of the low-level module: the same site with those helpers inlined
                    try:
                        same = [x for x in ieng.summary(f).all_sites() if classify(x) == "quant" and x.where() == st.where() and x.args]
                    except Exception:
                        same = []
                    if len(same) == 1:
                        vars_ = same[0].args[-1]
                handed = None if state_vars_only(vars_) else handed_state_vars(prog, edges, ieng, f, vars_)
                for g, x, good, v in handed or [(f, st, state_vars_only(vars_), vars_)]:
                    via = "" if g is f else f" (through {f.name})"
                    rep.check(good, "C20-R1", f"{g.name}/{st.short()}@{x.ordinal if g is not f else st.ordinal}", x.where(),
                              f"quantified variables derive from state_variables() / extra_state_variables(..){via}",
                              f"`{st.short()}` in {f.path}{' called from ' + g.path if g is not f else ''} quantifies over {sem.short(v, 120)}: variables that are not shown "
                              "to be state / auxiliary variables (parameter variables must never be quantified)")
            # R2
            if st.kind in ("call", "mcall", "op") and isinstance(st.callee, str):
                l = last(st.callee)
                on_set = False
                for a, an in zip(st.args or [], st.argnodes or []):
                    ty = str(an.get("ty")) if isinstance(an, dict) else ""
                    if "GraphColoredVertices" in ty or "Bdd" in ty.split("::")[-1:]:
                        on_set = True
                is_pred = (l in GLOBAL_PREDS and on_set) or (st.kind == "op" and st.name in ("==", "!=") and on_set)
                if not is_pred:
                    continue
                why = None
                if st.kind == "op":
                    # stabilisation test: the condition of a while loop comparing the iterate with its previous value
                    loops = [info for lid, info in s.loops.items() if info.get("kind") == "while" and info.get("cond") == st.term or
                             (info.get("cond") and info["cond"][0] == "bin" and info["cond"][1] == st.name and {info["cond"][2], info["cond"][3]} == set(st.args))]
                    if loops:
                        why = "termination test of a fixed-point loop (monotone iteration: the limit is the pointwise fixed point)"
                    tterm = st.term if isinstance(st.term, tuple) else (("bin", st.name, st.args[0], st.args[1]) if len(st.args or []) == 2 else None)
                    for lid_, info_ in s.loops.items():
                        # the same test as the exit condition of a `loop { if cur == prev { return cur } .. }`
                        if lid_ in (st.loops or ()) and tterm is not None and sem.stabilisation_test(tterm, st.name == "==", lid_, info_.get("vars", {})) \
                                and any(x.kind in ("return", "break") and any(c[0] == "if" and c[1] == tterm and bool(c[2]) == (st.name == "==") for c in x.pc) for x in s.sites):
                            why = "termination test of a fixed-point loop (monotone iteration: the limit is the pointwise fixed point)"
                elif l == "is_empty":
                    uses = [c for x in s.sites for c in x.pc if c[0] == "if" and any(y == st.term for y in [c[1]] + list(subterms(c[1])))]
                    in_loop = bool(st.loops)
                    if in_loop and any(x.kind == "assign" and any(c[0] == "if" and any(y == st.term for y in [c[1]] + list(subterms(c[1]))) for c in x.pc) for x in s.sites):
                        why = "saturation guard `!update.is_empty()` (a no-op update is skipped; the limit is unchanged)"
                    elif s.ret is not None and sem.first_nonempty_update(("matches", norm.Normalizer()(s.ret), norm.SOME_DESC), f, norm.Normalizer()) is True \
                            and any(y == st.term for y in subterms(s.ret)):
                        # a helper that returns `variables.map(update).find(|u| !u.is_empty())`
                        why = "saturation search: the first variable whose update is not empty (a no-op update is skipped; the limit is unchanged)"
                    elif (f is en.fn or f.path.startswith(E.ALG)) and "compute_valid_domain_for_var" in pt(st.args[0]):
                        why = "empty-universe shortcut of a domain quantifier (C02-R1 gives the values; they agree with the generic branch on colours with an empty domain)"
                if why is None and l == "is_empty" and f is not en.fn and f.path.startswith(E.ALG):
                    # the emptiness test of the shortcut moved into a private predicate of the module: the same test where it is used
                    heng2 = terms.Engine(prog, inline=True, hooks=E.eval_hooks())
                    users2 = [prog.fns[q_] for q_, outs in sorted(edges.items()) if f.qual in outs and q_ != f.qual]
                    copies = [x for g_ in users2 for x in heng2.summary(g_).all_sites()
                              if x.kind in ("call", "mcall") and x.name == st.name and x.where() == st.where() and x.args]
                    if copies and all((g_ is en.fn or g_.path.startswith(E.ALG)) for g_ in users2) and \
                            all("compute_valid_domain_for_var" in pt(x.args[0]) for x in copies):
                        why = "empty-universe shortcut of a domain quantifier, tested through a private predicate (C02-R1 gives the values)"
                if why is None and (st.kind == "op" or l == "is_empty"):
                    # the zero-iteration case of a stabilisation loop spelled out as a guard (`if start == empty { return start }`), directly
                    # or through a small predicate helper: the loop itself leaves after zero rounds for an empty start (its previous
                    # value starts empty), so the guard decides nothing new
                    nz_ = norm.Normalizer()
                    heng = terms.Engine(prog, inline=True, hooks=E.eval_hooks())
                    users = [f] + [prog.fns[q_] for q_, outs in sorted(edges.items()) if f.qual in outs and q_ != f.qual]
                    n_guards = 0
                    n_calls = 0
                    for g_ in users:
                        sg = heng.summary(g_)
                        rets_ = [nz_(sg.ret)] if sg is not None and sg.ret is not None else []
                        n_guards += sum(len(sem.zero_iteration_guards(r_)) for r_ in rets_)
                        if g_ is not f:
                            n_calls += len([x for x in eng.summary(g_).sites if x.kind in ("call", "mcall") and isinstance(x.callee, str)
                                            and prog.resolve_local(g_.crate, x.callee) is f])
                    is_pred_helper = f is not en.fn and str(f.ret_ty if hasattr(f, "ret_ty") else "") in ("bool", "") and s.ret is not None \
                        and nz_(s.ret) == nz_(st.term if isinstance(st.term, tuple) else ("bin", st.name, st.args[0], st.args[1]))
                    if (is_pred_helper and n_calls and n_guards >= n_calls) or (not is_pred_helper and n_guards and
                                                                                 any(nz_(st.term) == c_ for c_ in sem.zero_iteration_guards(nz_(heng.summary(f).ret)))):
                        why = "zero-iteration guard of a stabilisation loop (an empty start leaves the loop after zero rounds anyway)"
                rep.check(why is not None, "C20-R2", f"{f.name}/{l or st.name}@{st.ordinal}", st.where(), why or "",
                          f"colour-global predicate `{l or st.name}` on a coloured set in {f.path} (reachable from eval_node) is neither a fixed-point termination test nor the "
                          "empty-universe shortcut: a decision taken for all colours at once makes one colour's answer depend on the others")
    rep.floor("C20-R1", 3)
    rep.floor("C20-R2", 3)
    # the fixed-point and attractor shortcuts are the library's coloured computations on the graph's unit set (a per-vertex variant
    # would answer for all colours at once): shared with C12-R3
    rep.rule("C20-R4", "compute_steady_states / compute_attractor_states are the coloured library computations (shared with C12-R3)")
    import c12
    sub12 = type(rep)("C20s")
    c12.run(prog, sub12)
    for i in sub12.instances:
        if i.rule == "C12-R3":
            (rep.ok if i.verdict == "ok" else rep.violation if i.verdict == "violation" else rep.unresolved)("C20-R4", i.key.split(":", 1)[1], i.where, i.detail)
    rep.floor("C20-R4", 2)
    # R3: closure - the value of every node shape is built from pointwise primitives only
    import c03
    for key, shape in c03.all_shapes():
        rs = [r for r in en.specialise(shape) if r["term"] != terms.NEVER]
        for i, r in enumerate(rs):
            bad = non_pointwise(r["term"])
            tag = "cache-hit" if sem.is_cache_path(r) else r["kind"]
            rep.check(not bad, "C20-R3", f"eval_node/{key}/{tag}{i}", f"{en.fn.file}:{r['node'].get('sp', [0])[0]}",
                      "value is built from colour-pointwise primitives only",
                      f"value for node shape {key} uses `{bad[0] if bad else ''}`, which is not one of the colour-pointwise primitives "
                      "(set algebra, pre-images, comparator, projections of state / auxiliary variables, recursive results, library shortcuts on the current graph)")
    lowlevel.check_primitives(prog, rep, "C20-R3")
    rep.floor("C20-R3", 60)
