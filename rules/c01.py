"""C01 - model checking returns exactly the satisfying (state, colour) pairs.

Decided here (necessary structural conditions, DESIGN.md section 5/C01):
  C01-R1  eval_node, partially evaluated for every plain operator shape (and for the same operators over syntactically
          special operands: constants, a variable, a wild-card, a negation), computes the defining equation of
          that operator over the results of its recursive calls (dispatch, operand roles, graph / steady-state
          pass-through, duality and fixed-point shape are all part of the compared value);
  C01-R2  the operator enums are matched without wildcard arms that could swallow an operator: every variant
          of UnaryOp / BinaryOp / HybridOp / Atomic yields a feasible return path of its own (R1 fails closed
          otherwise) and recursive calls pass `steady_states` and the evaluation context on unchanged;
  C01-R3  the low-level primitives the equations are written in compute what their names say
          (comparator = bitwise equality of the variable's copy with the state, intersected with the unit set;
          projections quantify exactly the variable's copy / exactly the state variables);
  C01-R4  fixed-point loops run to stabilisation (shared with C11);
  C01-R5  every entry point hands eval_node the steady states of the graph it evaluates on ("a state without outgoing
          transitions carries a self-loop"), computed unconditionally (exception: the documented unsafe entry point).
  C01-R6  a value served from the cache belongs to the sub-formula it is served for: reader and writer build the key by the same recipe,
          and a duplicate is recorded only for sub-formulae with at most one variable (sequential renaming on a hit is only sound then;
          shared with C04-R2).
Not decided: that the graph library's pre-images are those of the asynchronous semantics (L1, L2)."""
import evalnode as E
import lowlevel
import semantics as sem
import terms

LEVEL = "other"


def run(prog, rep):
    rep.explanation = __doc__
    rep.assumptions = ["L1 Set operations are pure set algebra", "L2 pre/var_pre act on state coordinates only, monotone",
                       "L6 Bdd::exists quantifies exactly the given variables"]
    rep.rule("C01-R1", "eval_node(shape) == defining equation of the operator over recursive results")
    rep.rule("C01-R2", "recursive eval_node calls pass graph/steady states/context through; child = node's own child")
    rep.rule("C01-R3", "low-level primitives (comparator, projections) have their defining shape")
    rep.rule("C01-R4", "fixed-point loops run to stabilisation")
    en = E.EvalNode(prog)
    if not en.ok():
        rep.unresolved("C01-R1", "eval_node", "", "evaluation::algorithm::eval_node not found or not summarised")
        return
    rep.functions.add(en.fn.qual)
    rep.call_sites += len(en.summ.sites)
    for key, shape, alts, kind, op in sem.plain_shapes():
        # (the weak untils are not in the property's list of operators, but they are well-formed formulae: shared with C13-R2)
        sem.check_shape(rep, "C01-R1", en, shape, alts, key, detail=f"{kind} {op}")
    for key, shape, alts, kind, op in sem.variant_shapes():
        sem.check_shape(rep, "C01-R1", en, shape, alts, key, detail=f"{kind} {op} with a special operand")
    for key, shape, alts, is_pattern in sem.pattern_shapes():
        if not is_pattern:
            # formulae that merely resemble a shortcut pattern are evaluated by the defining equations
            sem.check_shape(rep, "C01-R1", en, shape, alts, "pattern-" + key, detail=key)
    rep.floor("C01-R1", 140)
    # R2: recursive calls
    recs = [s for s in en.summ.all_sites() if s.kind == "call" and s.is_call_to("eval_node")]      # (those made by inlined helpers included)
    for s in recs:
        a = s.args
        good = len(a) >= 5 and a[3] == ("param", en.params[3]) and terms.mentions_param(a[2], en.params[2]) \
            and terms.mentions_param(a[4], en.params[4]) and terms.mentions_param(a[0], en.params[0])
        rep.check(good, "C01-R2", f"eval_node/rec@{s.ordinal}", s.where(),
                  "recursive call evaluates a child of `node` with the caller's context, steady states and callback",
                  f"recursive call arguments: node={sem.short(a[0], 80)} steady={sem.short(a[3], 60) if len(a) > 3 else None}")
    rep.floor("C01-R2", 6)
    lowlevel.check_primitives(prog, rep, "C01-R3")
    rep.floor("C01-R3", 5)
    import pipelines
    rep.rule("C01-R5", "every driver passes compute_steady_states(graph) of the evaluated graph to eval_node")
    pipelines.check_steady_pipeline(prog, rep, "C01-R5")
    rep.floor("C01-R5", 20)
    # a value served from the cache is the value of this sub-formula: reader and writer agree on the key, and a duplicate is recorded only
    # when renaming on a hit is sound (at most one variable) - shared with C04-R2
    import cacheproto
    rep.rule("C01-R6", "cached values belong to the sub-formula they are served for (key recipe, one-variable limit)")
    sub = type(rep)("C01k")
    key = cacheproto.check_eviction_and_counter(prog, sub, "X", en)
    cacheproto.check_key_recipe(prog, rep, "C01-R6", en, key)
    rep.floor("C01-R6", 2)
    eng = terms.Engine(prog, inline=True)
    for f in prog.lib_fns():
        if f.path.startswith(E.OPS):
            sem.check_loop_protocol(rep, "C01-R4", prog, f, eng)
    rep.floor("C01-R4", 2)
