"""Unit-boundedness abstract domain (C03-R1, C02-R2, C12-R2): is the set denoted by a term a subset of unit(g)?

bounded(t, g) is decided structurally (sound, incomplete - `False` means "not shown"):
  unit(g') <= unit(g) if g' == g or g' = restrict_stg_unit_bdd(g'', ..) with unit(g'') <= unit(g)   (L3)
  empty                                                                 -> yes
  a & b -> bounded(a) or bounded(b);  a | b -> both;  a \\ b -> bounded(a)
  pre / var_pre / post (g', x) -> bounded(x, g) (state coordinates only, unit sets do not constrain states: L2, L4)
  create_comparator_var_state(g', _) , create_equalizer(g', ..) -> unit(g') <= unit(g)        (lowlevel rule)
  project_out_hctl_var(g', x, v) -> bounded(x, g') or bounded(x, restriction of g' on v's copy), and unit(g') <= unit(g)
  project_out_bn_vars(g', x) -> bounded(x, g') and unit(g') <= unit(g)                           (L4)
  eval_node(n, g', ..) -> unit(g') <= unit(g)                 (the inductive hypothesis: results are bounded by their graph)
  compute_attractor_states(g', v) -> bounded(v, g)            (L5)   FixedPoints::symbolic(g', r) -> bounded(r, g)
  mu(init, step) -> bounded(init) and bounded(step) assuming the loop variable bounded;  ite / join / switch -> all branches
  anything else (parameters, cached values, bare BDD primitives, negation) -> not shown."""
import evalnode as E
from setalg import is_trait_call, _last

LOW = E.LOW


def graph_le(g1, g):
    """unit(g1) is a subset of unit(g)."""
    if g1 == g:
        return True
    if g1[0] == "call" and isinstance(g1[1], str) and g1[1].endswith("restrict_stg_unit_bdd") and g1[2]:
        return graph_le(g1[2][0], g)
    return False


def restricted_on(g1, g, var):
    """g1 = restrict_stg_unit_bdd(g, compute_valid_domain_for_var(g, _, var)): only var's copy is restricted further."""
    if g1 == g:
        return True
    if g1[0] == "call" and isinstance(g1[1], str) and g1[1].endswith("restrict_stg_unit_bdd") and len(g1[2]) == 2 and g1[2][0] == g:
        d = g1[2][1]
        return d[0] == "call" and isinstance(d[1], str) and d[1].endswith("compute_valid_domain_for_var") and len(d[2]) == 3 and d[2][2] == var
    return False


def bounded(t, g, assume=frozenset(), memo=None):
    if memo is None:
        memo = {}
    key = (t, g, assume)
    if key in memo:
        return memo[key]
    r = _bounded(t, g, assume, memo)
    memo[key] = r
    return r


def _bounded(t, g, assume, memo):
    if not isinstance(t, tuple) or not t:
        return False
    k = t[0]
    B = lambda x, gg=g: bounded(x, gg, assume, memo)      # noqa: E731
    if k == "call" or k == "rec":
        path, args = t[1], t[2]
        last = _last(path)
        if is_trait_call(path, "Set", "intersect") or is_trait_call(path, "Bdd", "and"):
            return B(args[0]) or B(args[1])
        if is_trait_call(path, "Set", "union") or is_trait_call(path, "Bdd", "or"):
            return B(args[0]) and B(args[1])
        if is_trait_call(path, "Set", "minus") or is_trait_call(path, "Bdd", "and_not"):
            return B(args[0])
        if last in ("mk_unit_colored_vertices", "unit_colored_vertices") and len(args) == 1:
            return graph_le(args[0], g)
        if last in ("mk_empty_colored_vertices", "mk_false"):
            return True
        if last in ("as_bdd", "into_bdd", "copy", "clone") and len(args) == 1:
            return B(args[0])
        if last == "new" and "GraphColoredVertices" in str(path) and len(args) == 2:
            return B(args[0])
        if last in ("pre", "post", "var_pre", "var_post", "var_can_pre", "var_can_post") and "SymbolicAsyncGraph" in str(path):
            return B(args[-1])
        if last in ("create_comparator_var_state", "create_equalizer", "create_comparator_two_vars") and args:
            return graph_le(args[0], g)
        if last == "project_out_hctl_var" and len(args) == 3:
            g1, x, v = args
            if not graph_le(g1, g):
                return False
            if bounded(x, g1, assume, memo):
                return True
            # the child was evaluated on a graph restricted on v's copy only
            for cand in restrictions_in(x):
                if restricted_on(cand, g1, v) and bounded(x, cand, assume, memo):
                    return True
            return False
        if last == "project_out_bn_vars" and len(args) == 2:
            return graph_le(args[0], g) and bounded(args[1], args[0], assume, memo)
        if last == "substitute_hctl_var" and len(args) == 4:
            return False     # renaming moves a restriction to another copy: not bounded in general
        if last == "eval_node" and len(args) >= 2:
            return graph_le(args[1], g)
        if last == "compute_attractor_states" and len(args) == 2:
            return B(args[1])
        if last == "symbolic" and "FixedPoints" in str(path) and len(args) == 2:
            return B(args[1])
        if last == "compute_steady_states" and len(args) == 1:
            return graph_le(args[0], g)
        if last == "compute_valid_domain_for_var":
            return False
        if last in ("eval_hctl_var",) and args:
            return graph_le(args[0], g)
        return False
    if k == "mu":
        lid, name, init, step = t[1], t[2], t[3], t[4]
        return B(init) and bounded(step, g, assume | {(lid, name)}, memo)
    if k == "loopvar":
        return (t[1], t[2]) in assume
    if k == "ite":
        return B(t[2]) and B(t[3])
    if k == "join":
        return all(B(x) for x in t[1])
    if k == "switch":
        return all(B(v) for _, v in t[2])
    if k == "never":
        return True
    return False


def restrictions_in(t):
    from terms import subterms
    out = []
    for s in subterms(t):
        if s[0] == "call" and isinstance(s[1], str) and s[1].endswith("restrict_stg_unit_bdd") and s not in out:
            out.append(s)
    return out
