"""Equation rules shared by C01, C02, C11, C12, C13, C18, C20: compare what a function computes
(its value-numbering summary, Boolean-normalised) with the defining equation of the operator."""
import evalnode as E
import setalg
import spec as S
import terms
from terms import pt, subterms

P = lambda n: ("param", n)      # noqa: E731


def zero_iteration_guard(t, memo=None):
    """`if a == empty { a } else { <iteration that starts from a> }` is that iteration: the classical stabilisation loops compare the
    iterate with a previous value that starts as the empty set, so an empty start already leaves them after zero rounds - a guard that
    spells this case out changes nothing (the `mu` form of a loop does not record the first comparison)."""
    if memo is None:
        memo = {}
    if not isinstance(t, tuple) or not t:
        return t
    hit = memo.get(id(t))
    if hit is not None and hit[0] is t:
        return hit[1]
    r = tuple(zero_iteration_guard(x, memo) if isinstance(x, tuple) else x for x in t)

    def strip(x):
        while isinstance(x, tuple) and x and x[0] == "call" and isinstance(x[1], str) and x[1].rsplit("::", 1)[-1] in ("clone", "to_owned", "borrow", "deref") and len(x[2]) == 1:
            x = x[2][0]
        return x

    def is_empty_set(x):
        x = strip(x)
        return x[0] == "call" and isinstance(x[1], str) and x[1].rsplit("::", 1)[-1] in setalg.EMPTY_FNS
    if r[0] == "ite" and r[3][0] == "mu":
        c, a, m = r[1], strip(r[2]), r[3]
        start = None
        if c[0] == "bin" and c[1] == "==":
            for x, y in ((c[2], c[3]), (c[3], c[2])):
                if is_empty_set(x):
                    start = strip(y)
        elif c[0] == "call" and isinstance(c[1], str) and c[1].rsplit("::", 1)[-1] in ("is_empty", "#is_empty") and len(c[2]) == 1:
            start = strip(c[2][0])
        if start is not None and start == a and strip(m[3]) == a:
            r = m
    if r is not t and len(r) == len(t) and all(x is y for x, y in zip(r, t)):
        r = t
    memo[id(t)] = (t, r)
    return r


def zero_iteration_guards(t):
    """The conditions of the zero-iteration guards (see zero_iteration_guard) that occur in a value."""
    out = []
    for x in [t] + list(subterms(t)):
        if x[0] == "ite" and zero_iteration_guard(("ite", x[1], x[2], x[3])) is not x and zero_iteration_guard(("ite", x[1], x[2], x[3]))[0] != "ite":
            out.append(x[1])
    return out


def same(alg, t1, t2):
    import norm
    nz = norm.Normalizer()
    t1, t2 = nz(t1), nz(t2)
    t1, t2 = zero_iteration_guard(t1), zero_iteration_guard(t2)
    try:
        if alg.equivalent(alg.interp(t1), alg.interp(t2)):
            return True
    except ValueError:
        pass
    return alg.canon(t1) == alg.canon(t2)


def matches_any(alg_cls, term, alts):
    for a in alts:
        alg = alg_cls()
        if same(alg, term, a):
            return True
    return False


def short(t, n=260):
    s = pt(t)
    return s if len(s) <= n else s[:n] + "..."


# ------------------------------------------------------------------------------------------------
# eval_node shapes
# ------------------------------------------------------------------------------------------------

GENERIC = E.N(E.shape_atom("Prop", E.lit("q")))
GENERIC_L = E.N(E.shape_atom("Prop", E.lit("l")))
GENERIC_R = E.N(E.shape_atom("Prop", E.lit("r")))


def is_cache_path(r):
    """The returned value is read from the cache (a look-up in the context's `cache` map occurs in the value; the context handed to
    recursive calls does not count: it is irrelevant for the value algebra)."""
    from norm import GET
    seen = set()
    stack = [r["term"]]
    while stack:
        x = stack.pop()
        if not isinstance(x, tuple) or not x or id(x) in seen:
            continue
        seen.add(id(x))
        if x[0] == "call" and x[1] == GET and x[2] and x[2][0][0] == "field" and x[2][0][2] == "cache":
            return True
        if x[0] in ("rec", "call") and isinstance(x[1], str) and x[1].endswith("::eval_node") and len(x[2]) >= 4:
            stack.extend(a for i, a in enumerate(x[2]) if i not in (2, 4))
            continue
        stack.extend(y for y in x if isinstance(y, tuple))
    return False


def stabilisation_test(t, pol, lid, vars_):
    """`t` (taken with polarity pol) says "the iterate equals its previous value": a == b / !(a != b) over two variables carried by
    loop `lid`, one of which is updated to the other's old value in every round."""
    while t[0] == "not":
        t, pol = t[1], not pol
    if not (t[0] == "bin" and t[1] in ("==", "!=") and (t[1] == "==") == bool(pol)):
        return False
    names = [x[2] for x in (t[2], t[3]) if x[0] == "loopvar" and x[1] == lid]
    for new, old in ((t[2], t[3]), (t[3], t[2])):
        # `loop { let prev = cur; cur = F(prev); if cur == prev { return cur } }`: the next value of the iterate against its current value
        if old[0] == "loopvar" and old[1] == lid and new[0] != "loopvar":
            upd = vars_.get(old[2], (None, None))[1]
            if upd is not None and (upd == new or (upd[0] == "ite" and new in (upd[2], upd[3]) and old in (upd[2], upd[3]))):
                return True
    if len(names) != 2 or names[0] == names[1]:
        return False
    for cur, prev in ((names[0], names[1]), (names[1], names[0])):
        if vars_.get(prev, (None, None))[1] == ("loopvar", lid, cur):
            return True
    return False


def no_update_left(t, pol, fn, nz):
    """`t` (with polarity) says `every variable of the graph yields an empty update`, as `vars.all(|v| update(v).is_empty())`: True; a
    reason (str) when the quantification is over something else; None when `t` is no such test."""
    while t[0] == "not":
        t, pol = t[1], not pol
    if not (t[0] == "hof" and t[1] == "all" and pol):
        return None
    src = terms.strip_iter_adapters(t[2])
    b = nz(t[3])
    if not (b[0] == "call" and isinstance(b[1], str) and b[1].endswith("is_empty") and len(b[2]) == 1 and terms.contains(b[2][0], lambda y: y[0] == "elem")):
        return None
    gname = roles(fn)[0]
    alg = setalg.Alg()
    want = alg.canon(("call", S.GRAPH + "variables", (gname,))) if gname else None
    if want is None or alg.canon(src) != want:
        return f"the sweep ranges over {short(src, 80)}, not over all variables of the graph"
    return True


def first_nonempty_update(t, fn, nz):
    """`t` is the test `vars(graph).map(update).find(|u| !u.is_empty())  is Some`: True; a reason (str) when it is such a search over
    something else than all variables of the graph / another predicate; None when `t` is no such test."""
    import q
    x = q.is_some_test(t)
    if x is None or x[0] != "hof" or x[1] != "find":
        return None
    recv, body = x[2], x[3]
    src = recv
    while src[0] == "hof" and src[1] == "map":
        src = src[2]
    src = terms.strip_iter_adapters(src)
    elem = nz(("elem", recv))
    b = nz(body)
    nonempty = b[0] == "not" and b[1][0] == "call" and b[1][1].endswith("is_empty") and b[1][2] == (elem,)
    gname = roles(fn)[0]
    alg = setalg.Alg()
    want = alg.canon(("call", S.GRAPH + "variables", (gname,))) if gname else None
    if want is None or alg.canon(src) != want:
        return f"the update search ranges over {short(src, 80)}, not over all variables of the graph"
    if not nonempty:
        return f"the update search looks for {short(b, 80)}, not for a non-empty update"
    return True


def check_shape(rep, rule, en, shape, alts, key, detail=""):
    """Every feasible non-cache return path of eval_node for `shape` computes one of `alts`."""
    fn = en.fn
    rs = [r for r in en.specialise(shape) if r["term"] != terms.NEVER]
    main = [r for r in rs if not is_cache_path(r)]
    if not main:
        rep.unresolved(rule, key, f"{fn.file}:{fn.line}", "no feasible return path of eval_node for this node shape")
        return False
    ok = True
    for i, r in enumerate(main):
        where = f"{fn.file}:{r['node'].get('sp', [fn.line])[0]}"
        # conditions on the state of the evaluation context (cache / duplicates / scope) only select *when* a path is taken; every
        # path is checked, so they need not be decided.  A condition on anything else means the shape is under-specified.
        undecided = [x for x in r["residual"] if not terms.mentions_param(x[1], en.params[2])]
        if undecided:
            rep.unresolved(rule, f"{key}/path{i}", where,
                           "return path depends on a condition the rule cannot decide for a concrete node shape: " +
                           "; ".join(short(x[1], 120) for x in undecided[:3]))
            ok = False
            continue
        if matches_any(E.NodeAlg, r["term"], alts):
            rep.ok(rule, f"{key}/path{i}", where, f"{detail} value == {short(alts[0], 160)}")
        else:
            rep.violation(rule, f"{key}/path{i}", where,
                          f"eval_node computes {short(r['term'])} for {detail or key}; the defining equation gives {short(alts[0])}")
            ok = False
    return ok


def plain_shapes():
    """(key, shape, expected alternatives, operator kind, operator name) for the plain operator set of C01."""
    g, sl = E.G, E.SL
    c = GENERIC
    rc = E.REC(c, g, sl)
    out = []
    out.append(("atom:True", E.shape_atom("True"), [S.UNIT(g)], "atom", "True"))
    out.append(("atom:False", E.shape_atom("False"), [S.EMPTY(g)], "atom", "False"))
    out.append(("atom:Var", E.shape_atom("Var", E.lit("x")), [E.CMP(g, E.lit("x"))], "atom", "Var"))
    out.append(("atom:Prop", E.shape_atom("Prop", E.lit("p")), [E.PROP(g, E.lit("p"))], "atom", "Prop"))
    for op in E.UNARY:
        out.append((f"unary:{op}", E.shape_unary(op, c), E.expected_unary(op, g, rc, sl), "unary", op))
    l, r = GENERIC_L, GENERIC_R
    rl, rr = E.REC(l, g, sl), E.REC(r, g, sl)
    for op in E.BINARY:
        out.append((f"binary:{op}", E.shape_binary(op, l, r), E.expected_binary(op, g, rl, rr, sl), "binary", op))
    x = E.lit("x")
    for op in ("Bind", "Exists", "Forall"):
        out.append((f"hybrid:{op}", E.shape_hybrid(op, x, None, c), E.expected_quantifier(op, g, g, rc, x), "hybrid", op))
    out.append(("hybrid:Jump", E.shape_hybrid("Jump", x, None, c), E.expected_jump(g, rc, x), "hybrid", "Jump"))
    return out


def child_variants():
    """Syntactically special children (constants, variable, wild-card): an implementation must not special-case them."""
    return [("True", E.N(E.shape_atom("True"))), ("False", E.N(E.shape_atom("False"))), ("Var", E.N(E.shape_atom("Var", E.lit("y")))),
            ("WildCard", E.N(E.shape_atom("WildCardProp", E.lit("w")))),
            ("Not", E.N(E.shape_unary("Not", E.N(E.shape_atom("Prop", E.lit("q2"))))))]


def variant_shapes(ops=None):
    """Operator shapes with special children: (key, shape, alternatives, kind, op)."""
    g, sl = E.G, E.SL
    out = []
    for vname, c in child_variants():
        rc = E.REC(c, g, sl)
        for op in E.UNARY:
            if ops is None or op in ops:
                out.append((f"unary:{op}[{vname}]", E.shape_unary(op, c), E.expected_unary(op, g, rc, sl), "unary", op))
        for op in E.BINARY:
            if ops is None or op in ops:
                other = GENERIC_L
                ro = E.REC(other, g, sl)
                out.append((f"binary:{op}[_,{vname}]", E.shape_binary(op, other, c), E.expected_binary(op, g, ro, rc, sl), "binary", op))
                out.append((f"binary:{op}[{vname},_]", E.shape_binary(op, c, other), E.expected_binary(op, g, rc, ro, sl), "binary", op))
    return out


def domain_shapes():
    g, sl = E.G, E.SL
    c = GENERIC
    x, d = E.lit("x"), E.lit("d")
    out = []
    for op in ("Bind", "Exists", "Forall"):
        out.append((f"domain:{op}", E.shape_hybrid(op, x, d, c), E.expected_domain_quantifier(op, g, c, x, d, sl), "hybrid", op))
    return out


def var_node(v):
    return E.N(E.shape_atom("Var", E.lit(v)))


def pattern_shapes():
    """Shortcut patterns of C12 and their near misses: (key, shape, expected alternatives)."""
    g, sl = E.G, E.SL
    x, y, d = E.lit("x"), E.lit("y"), E.lit("d")
    out = []

    def generic_bind(child_node, var, dom=None):
        if dom is None:
            return E.expected_quantifier("Bind", g, g, E.REC(child_node, g, sl), var)
        return E.expected_domain_quantifier("Bind", g, child_node, var, dom, sl)

    ag_ef = lambda v: E.N(E.shape_unary("AG", E.N(E.shape_unary("EF", var_node(v)))))   # noqa: E731
    ax = lambda v: E.N(E.shape_unary("AX", var_node(v)))                                 # noqa: E731
    # the patterns themselves
    out.append(("attractor", E.shape_hybrid("Bind", x, None, ag_ef("x")), [E.ATTRACTORS(g)], True))
    out.append(("fixed-point", E.shape_hybrid("Bind", x, None, ax("x")), [S.AND(sl, S.UNIT(g))], True))
    # near misses: other variable, domain on the binder, other quantifier, extra / other operators
    out.append(("near:attractor-other-var", E.shape_hybrid("Bind", x, None, ag_ef("y")), generic_bind(ag_ef("y"), x), False))
    out.append(("near:fixed-point-other-var", E.shape_hybrid("Bind", x, None, ax("y")), generic_bind(ax("y"), x), False))
    out.append(("near:attractor-domain", E.shape_hybrid("Bind", x, d, ag_ef("x")), generic_bind(ag_ef("x"), x, d), False))
    out.append(("near:fixed-point-domain", E.shape_hybrid("Bind", x, d, ax("x")), generic_bind(ax("x"), x, d), False))
    for q in ("Exists", "Forall"):
        out.append((f"near:attractor-{q}", E.shape_hybrid(q, x, None, ag_ef("x")),
                    E.expected_quantifier(q, g, g, E.REC(ag_ef("x"), g, sl), x), False))
        out.append((f"near:fixed-point-{q}", E.shape_hybrid(q, x, None, ax("x")),
                    E.expected_quantifier(q, g, g, E.REC(ax("x"), g, sl), x), False))
    variants = {
        "AG-only": E.N(E.shape_unary("AG", var_node("x"))),
        "EF-only": E.N(E.shape_unary("EF", var_node("x"))),
        "var-only": var_node("x"),
        "AG-EX": E.N(E.shape_unary("AG", E.N(E.shape_unary("EX", var_node("x"))))),
        "AF-EF": E.N(E.shape_unary("AF", E.N(E.shape_unary("EF", var_node("x"))))),
        "EF-AG": E.N(E.shape_unary("EF", E.N(E.shape_unary("AG", var_node("x"))))),
        "AG-EF-not": E.N(E.shape_unary("AG", E.N(E.shape_unary("EF", E.N(E.shape_unary("Not", var_node("x"))))))),
        "AG-AG-EF": E.N(E.shape_unary("AG", E.N(E.shape_unary("AG", E.N(E.shape_unary("EF", var_node("x"))))))),
        "AG-EF-prop": E.N(E.shape_unary("AG", E.N(E.shape_unary("EF", E.N(E.shape_atom("Prop", E.lit("x"))))))),
        "EX": E.N(E.shape_unary("EX", var_node("x"))),
        "AX-AX": E.N(E.shape_unary("AX", E.N(E.shape_unary("AX", var_node("x"))))),
        "AX-not": E.N(E.shape_unary("AX", E.N(E.shape_unary("Not", var_node("x"))))),
        "AX-prop": E.N(E.shape_unary("AX", E.N(E.shape_atom("Prop", E.lit("x"))))),
        "AX-and": E.N(E.shape_unary("AX", E.N(E.shape_binary("And", var_node("x"), var_node("x"))))),
    }
    for name, ch in variants.items():
        out.append((f"near:{name}", E.shape_hybrid("Bind", x, None, ch), generic_bind(ch, x), False))
    return out


# ------------------------------------------------------------------------------------------------
# operator evaluators (hctl_operators_eval.rs)
# ------------------------------------------------------------------------------------------------

GRAPH_TY = "SymbolicAsyncGraph"
SET_TY = "GraphColoredVertices"


def roles(fn):
    """(graph param, [set params]) of an evaluator by type."""
    g, sets = None, []
    for p, t in zip(fn.params, fn.param_tys):
        if p.get("k") != "bind":
            continue
        if GRAPH_TY in t and g is None:
            g = P(p["name"])
        elif SET_TY in t:
            sets.append(P(p["name"]))
    return g, sets


def operator_callees(en):
    """From eval_node's dispatch: operator variant -> set of local evaluator functions called in its arm
    (un-inlined view, resolved callees, path conditions)."""
    # helpers of the algorithm module are inlined (deep sites), the evaluators of the operator module are not
    # (a function of the operator module that itself takes an operator kind is a dispatcher, not an evaluator: it is inlined as well)
    dispatchers = [f.path for f in en.prog.lib_fns() if f.path.startswith(E.OPS)
                   and any(("operator_enums::" + k) in str(t) for t in f.param_tys for k in ("UnaryOp", "BinaryOp", "HybridOp"))]
    eng = terms.Engine(en.prog, inline=True, hooks=E.Hooks([E.ALG], inline_names=dispatchers,
                                                           opaque_names=[E.ALG + "eval_node", E.ALG + "compute_attractor_states", E.ALG + "compute_steady_states"]))
    summ = eng.summary(en.fn)
    out = {}
    fns = [(en.fn, summ)]
    for fn, sm in fns:
        for s in sm.all_sites():
            if s.kind != "call" or not isinstance(s.callee, str):
                continue
            tgt = en.prog.resolve_local(fn.crate, s.callee)
            if tgt is None or not tgt.path.startswith(E.OPS) or tgt.path in dispatchers:
                continue
            # innermost match condition on an operator enum
            op = None
            for c in reversed(s.pc):
                if c[0] == "match" and c[3] and c[2][0] == "var" and isinstance(c[2][1], str) and "operator_enums::" in c[2][1]:
                    parts = c[2][1].split("::")
                    if parts[-2] in ("UnaryOp", "BinaryOp", "HybridOp", "Atomic"):
                        op = (parts[-2], parts[-1])
                        break
            if op is None:
                continue
            out.setdefault(op, [])
            if tgt not in out[op]:
                out[op].append(tgt)
    return out


def evaluator_spec(kind, op, fn):
    """Defining equation of the evaluator `fn` that eval_node uses for operator (kind, op); None if the
    parameter list does not have the shape (graph, sets.., [self loops])."""
    g, sets = roles(fn)
    if g is None:
        return None
    n = len(sets)
    if kind == "UnaryOp":
        if op in ("EX", "AX", "AF", "EG"):
            if n != 2:
                return None
            return E.expected_unary(op, g, sets[0], sets[1])
        if op in ("Not",):
            return E.expected_unary(op, g, sets[0], None) if n == 1 else None
        if op in ("EF", "AG"):
            if n == 1:
                return {"EF": S.EF_alts(g, sets[0]), "AG": S.AG_alts(g, sets[0])}[op]
            if n == 2:
                return {"EF": S.EF_alts(g, sets[0], sets[1]), "AG": S.AG_alts(g, sets[0], sets[1])}[op]
            return None
    if kind == "BinaryOp":
        if op in ("Xor", "Imp", "Iff", "And", "Or"):
            return E.expected_binary(op, g, sets[0], sets[1], None) if n == 2 else None
        if op in ("AU", "EW"):
            return E.expected_binary(op, g, sets[0], sets[1], sets[2]) if n == 3 else None
        if op in ("EU", "AW"):
            if n == 2:
                return {"EU": S.EU_alts(g, sets[0], sets[1]), "AW": S.AW_alts(g, sets[0], sets[1])}[op]
            if n == 3:
                return {"EU": S.EU_alts(g, sets[0], sets[1], sets[2]), "AW": S.AW_alts(g, sets[0], sets[1], sets[2])}[op]
            return None
    return None


def check_evaluator(rep, rule, prog, kind, op, fn, engine):
    summ = engine.summary(fn)
    rep.functions.add(fn.qual)
    key = f"{kind}::{op}->{fn.name}"
    where = f"{fn.file}:{fn.line}"
    if summ is None:
        rep.unresolved(rule, key, where, "no summary")
        return
    alts = evaluator_spec(kind, op, fn)
    if alts is None:
        rep.unresolved(rule, key, where, f"parameter list of {fn.name} does not have the shape (graph, sets.., [self loops]) expected for {op}")
        return
    if summ.unresolved:
        rep.unresolved(rule, key, where, f"constructs not understood by the evaluator: {summ.unresolved[:3]}")
        return
    if matches_any(setalg.Alg, summ.ret, alts):
        rep.ok(rule, key, where, f"{fn.name} == {short(alts[0], 200)}")
    else:
        rep.violation(rule, key, where, f"{fn.name} computes {short(summ.ret)}; the defining equation of {op} is {short(alts[0])}")


# ------------------------------------------------------------------------------------------------
# iteration protocol of the fixed-point loops
# ------------------------------------------------------------------------------------------------

def check_loop_protocol(rep, rule, prog, fn, engine):
    """Every loop in an operator evaluator runs to stabilisation:
       classical: `while a != b { b = a; a = F(a) }`  (exit only when the iterate did not change);
       saturation: `while !done { done = true; for v in graph.variables() { if !upd.is_empty() { r = r | upd; done = false; break } } }`."""
    summ = engine.summary(fn)
    if summ is None:
        return
    import norm
    import q
    nz = norm.Normalizer()
    for lid, info in sorted(summ.loops.items()):
        node = info.get("node")
        if node is None:
            continue
        if info.get("kind") == "loop" and info.get("vars"):
            # `loop { match vars.map(update).find(non-empty) { Some(u) => x = x | u, None => return x } }`
            where = f"{fn.file}:{node['sp'][0]}"
            key = f"{fn.name}/loop"
            exits = [s for s in summ.sites if s.kind in ("break", "return") and s.loops and s.loops[-1] == lid]
            gname = roles(fn)[0]
            alg = setalg.Alg()
            want = alg.canon(("call", S.GRAPH + "variables", (gname,))) if gname else None
            problems = []
            if not exits:
                problems.append("no exit found")
            lvars = info.get("vars", {})
            for s in exits:
                ok = False
                for t, pol in q.conds(s.pc):
                    if not pol and first_nonempty_update(t, fn, nz) is True:
                        ok = True
                    if no_update_left(t, pol, fn, nz) is True:
                        ok = True           # the sweep lives in a helper that reports whether some variable still had an update
                    if stabilisation_test(t, pol, lid, lvars):
                        ok = True           # `loop { if cur == prev { return cur } .. }`: the classical stabilisation loop in its other form
                if not ok:
                    problems.append(f"exit at line {s.line()} is not conditioned on `no variable yields a non-empty update`")
            rep.check(not problems, rule, key, where,
                      "search loop stops only when no network variable yields a non-empty update", "; ".join(problems))
            continue
        if info.get("kind") != "while":
            continue
        where = f"{fn.file}:{node['sp'][0]}"
        key = f"{fn.name}/loop"
        cond = info.get("cond")
        vars_ = info.get("vars", {})
        breaks = [s for s in summ.sites if s.kind in ("break", "return", "continue") and lid in s.loops]
        # classical stabilisation loop
        if cond and cond[0] == "bin" and cond[1] == "!=":
            a, b = cond[2], cond[3]
            names = []
            for t in (a, b):
                if t[0] == "loopvar" and t[1] == lid:
                    names.append(t[2])
            good = False
            why = ""
            if len(names) == 2 and names[0] != names[1]:
                # one of them must be the copy of the other's previous value
                for cur, prev in ((names[0], names[1]), (names[1], names[0])):
                    up_prev = vars_.get(prev, (None, None))[1]
                    if up_prev == ("loopvar", lid, cur):
                        good = True
                if not good:
                    why = "neither compared variable is the saved previous value of the other"
            else:
                why = "the loop condition does not compare the iterate with its previous value"
            inner_exits = [s for s in breaks if s.kind in ("break", "return") and s.loops and s.loops[-1] == lid]
            if good and inner_exits:
                good, why = False, f"early exit from the stabilisation loop at line {inner_exits[0].line()}"
            rep.check(good, rule, key, where, "loop runs until the iterate is stable (a != b with b = previous a)", why)
            continue
        # `while let Some(update) = vars.map(update).find(non-empty) { x = x | update }`: the loop runs exactly as long as some variable
        # yields a non-empty update
        srch = first_nonempty_update(nz(cond), fn, nz) if cond else None
        if srch is not None:
            problems = [] if srch is True else [srch]
            for s in breaks:
                problems.append(f"early exit from the saturation loop at line {s.line()}")
            rep.check(not problems, rule, key, where,
                      "search loop stops only when no network variable yields a non-empty update", "; ".join(problems))
            continue
        # saturation loop
        if cond and cond[0] == "not" and cond[1][0] == "loopvar" and cond[1][1] == lid:
            flag = cond[1][2]
            problems = []
            fors = [(l2, i2) for l2, i2 in summ.loops.items() if i2.get("kind") == "for" and (i2.get("node") or {}).get("k") not in ("mcall", "call") and
                    any(s.kind == "for" and s.node is i2.get("node") and lid in s.loops for s in summ.sites)]      # iterator adapters are no loops
            upd_flag = vars_.get(flag, (None, None))[1]
            if upd_flag is not None:
                # the body only runs while the flag is false
                upd_flag = nz(terms.replace(upd_flag, ("loopvar", lid, flag), ("lit", False)))
            if not fors and upd_flag is not None and first_nonempty_update(nz(("not", upd_flag)), fn, nz) is not None:
                # `flag = vars.map(update).find(non-empty).is_none()`: the sweep is an iterator pipeline, the flag says that
                # no variable yields a non-empty update
                ok_sweep = first_nonempty_update(nz(("not", upd_flag)), fn, nz)
                if ok_sweep is not True:
                    problems.append(ok_sweep)
                for s in breaks:
                    problems.append(f"early exit from the saturation loop at line {s.line()}")
            elif len(fors) != 1:
                problems.append("expected exactly one inner `for` over the network variables")
            else:
                fid, finfo = fors[0]
                fsite = [s for s in summ.sites if s.kind == "for" and s.node is finfo["node"]][0]
                it = fsite.args[0]
                alg = setalg.Alg()
                gname = roles(fn)[0]
                want = alg.canon(("call", S.GRAPH + "variables", (gname,)))
                if alg.canon(it) != want:
                    problems.append(f"inner loop ranges over {short(it, 80)}, not over all variables of the graph")
                # every assignment to a carried set variable inside the nest is guarded by a non-emptiness test of the
                # update, and is accompanied by `flag = false` under the same conditions
                assigns = [s for s in summ.sites if s.kind == "assign" and lid in s.loops]
                flag_true = [s for s in assigns if s.name == flag and s.args[0] == ("lit", True)]
                flag_false = [s for s in assigns if s.name == flag and s.args[0] == ("lit", False)]
                others = [s for s in assigns if s.name != flag]
                if not flag_true or any(fid in s.loops for s in flag_true):
                    problems.append(f"`{flag} = true` is not set at the start of each outer round")
                for s in others:
                    same_pc = [f for f in flag_false if f.pc == s.pc]
                    if not same_pc:
                        problems.append(f"update of `{s.name}` at line {s.line()} is not accompanied by `{flag} = false`")
                    guard = [c for c in s.pc if c[0] == "if"]
                    has_guard = False
                    for c in guard:
                        t = c[1]
                        # !X.is_empty() taken on its true branch, or X.is_empty() on its false branch
                        neg = False
                        while t[0] == "not":
                            neg = not neg
                            t = t[1]
                        if t[0] == "call" and isinstance(t[1], str) and t[1].endswith("is_empty") and (neg == c[2]):
                            has_guard = True
                    if not has_guard:
                        problems.append(f"update of `{s.name}` at line {s.line()} is not guarded by a non-emptiness test")
                for s in breaks:
                    if s.kind == "return" or (s.kind == "break" and s.term and s.term[1] == lid):
                        problems.append(f"early exit from the saturation loop at line {s.line()}")
                    if s.kind == "break" and s.term and s.term[1] == fid:
                        # breaking the inner loop is only allowed right after an update (flag reset under the same pc)
                        if not any(f.pc == s.pc for f in flag_false):
                            problems.append(f"`break` at line {s.line()} leaves the variable sweep without a recorded update")
                    if s.kind == "continue":
                        problems.append(f"`continue` at line {s.line()} in the saturation loop")
            rep.check(not problems, rule, key, where,
                      "saturation loop stops only after a full sweep over all variables without an update", "; ".join(problems))
            continue
        rep.unresolved(rule, key, where, f"loop with a termination condition the rule does not know: {short(cond, 120) if cond else None}")
