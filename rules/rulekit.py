"""Verdict bookkeeping shared by all property modules: rule instances with stable keys, floors,
known findings, evidence files and the VIOLATION / KNOWN-FINDING protocol of the brief."""
import json
import os
import time

VERIF = os.path.dirname(os.path.dirname(os.path.abspath(__file__)))
EVIDENCE_DIR = os.environ.get("VERIF_EVIDENCE_DIR") or os.path.join(VERIF, "evidence")
KNOWN = os.path.join(VERIF, "known_findings.json")


class Instance:
    __slots__ = ("rule", "key", "verdict", "where", "detail", "nontrivial")

    def __init__(self, rule, key, verdict, where, detail, nontrivial):
        self.rule, self.key, self.verdict, self.where, self.detail, self.nontrivial = rule, key, verdict, where, detail, nontrivial

    def as_dict(self):
        return {"rule": self.rule, "key": self.key, "verdict": self.verdict, "where": self.where, "detail": self.detail}


class Report:
    def __init__(self, prop, tier="quick", seed=0, level="other"):
        self.prop = prop
        self.tier = tier
        self.seed = seed
        self.level = level
        self.instances = []
        self.floors = {}        # rule -> (minimum count, measured count)
        self.rules = {}         # rule -> description
        self.assumptions = []
        self.explanation = ""
        self.extra = {}
        self.t0 = time.time()
        self.functions = set()
        self.call_sites = 0
        self.notes = []

    # -- recording ---------------------------------------------------------------------------------
    def rule(self, rid, text):
        self.rules[rid] = text

    def _add(self, rule, key, verdict, where, detail, nontrivial):
        full = f"{rule}:{key}"
        # keys are unique per rule: disambiguate repeated signatures by ordinal
        n = sum(1 for i in self.instances if i.key == full or i.key.startswith(full + "#"))
        if n:
            full = f"{full}#{n}"
        self.instances.append(Instance(rule, full, verdict, where, detail, nontrivial))

    def ok(self, rule, key, where="", detail="", nontrivial=True):
        self._add(rule, key, "ok", where, detail, nontrivial)

    def violation(self, rule, key, where="", detail=""):
        self._add(rule, key, "violation", where, detail, True)

    def unresolved(self, rule, key, where="", detail=""):
        """The construct no longer has a shape the rule understands: fail closed."""
        self._add(rule, key, "unresolved", where, detail, True)

    def check(self, cond, rule, key, where="", detail_ok="", detail_bad=""):
        if cond:
            self.ok(rule, key, where, detail_ok)
        else:
            self.violation(rule, key, where, detail_bad or detail_ok)
        return cond

    def floor(self, rule, minimum):
        """Fail if the rule matched fewer instances than were confirmed by hand on the reference tree."""
        n = sum(1 for i in self.instances if i.rule == rule)
        self.floors[rule] = (minimum, n)
        if n < minimum:
            self._add(rule, "floor", "unresolved", "", f"rule matched {n} instances, at least {minimum} expected "
                      f"(a rule that matches nothing passes vacuously)", True)

    # -- finishing ---------------------------------------------------------------------------------
    def finish(self):
        known = {"findings": [], "fixed": []}
        if os.path.exists(KNOWN):
            with open(KNOWN) as fh:
                known = json.load(fh)
        known_keys = {(f["property"], f["key"]): f for f in known.get("findings", [])}
        bad = [i for i in self.instances if i.verdict in ("violation", "unresolved")]
        lines = []
        viol_dir = os.path.join(EVIDENCE_DIR, "violations")
        os.makedirs(viol_dir, exist_ok=True)
        # stale violation files of this property
        for f in os.listdir(viol_dir):
            if f.startswith(self.prop + "-"):
                os.remove(os.path.join(viol_dir, f))
        new_violations = 0
        known_hits = 0
        for n, i in enumerate(bad):
            kf = known_keys.get((self.prop, i.key))
            if kf is not None and i.verdict == "violation":
                lines.append(f"KNOWN-FINDING: property={self.prop} {kf.get('what', i.key)}")
                known_hits += 1
                continue
            new_violations += 1
            path = os.path.join(viol_dir, f"{self.prop}-{n}.json")
            with open(path, "w") as fh:
                json.dump({"property": self.prop, **i.as_dict(), "rule_text": self.rules.get(i.rule, "")}, fh, indent=1)
            rel = os.path.relpath(path, VERIF)
            lines.append(f"VIOLATION property={self.prop} replay={rel}")
            lines.append(f"  [{i.verdict}] {i.key} at {i.where}: {i.detail}")
        # evidence
        os.makedirs(EVIDENCE_DIR, exist_ok=True)
        distinct = len({i.key for i in self.instances if i.nontrivial})
        samples = []
        seen_rules = set()
        for i in self.instances:
            if i.rule not in seen_rules or i.verdict != "ok":
                seen_rules.add(i.rule)
                samples.append(i.as_dict())
            if len(samples) >= 40:
                break
        obligations = len(self.instances)
        discharged = sum(1 for i in self.instances if i.verdict == "ok") + known_hits
        cov = {
            "evaluations": obligations,
            "distinct_nontrivial": distinct,
            "rule": "one evaluation = one rule instance (obligation) generated from the resolved HIR/MIR facts of /repo's "
                    "current tree; instances are keyed by rule + function + construct signature (never a line number); "
                    "non-trivial = the decision needed a non-empty flow / path / pattern comparison",
            "samples": samples,
            "obligations": obligations,
            "discharged": discharged,
            "checker_cmd": f"./check {self.prop} --tier {self.tier}",
            "trusted_base": ["rustc name/type resolution and HIR/MIR construction (nightly 1.97)",
                             "/verif/driver fact extractor", "/verif/rules value-numbering engine (terms.py)",
                             "library assumptions listed under assumptions"],
            "explanation": self.explanation,
            "exhaustive": True,
            "rules": self.rules,
            "floors": {k: {"minimum": v[0], "measured": v[1]} for k, v in self.floors.items()},
            "functions_analysed": len(self.functions),
            "call_sites": self.call_sites,
            "unresolved": sum(1 for i in self.instances if i.verdict == "unresolved"),
            "known_findings_reported": known_hits,
        }
        cov.update(self.extra)
        ev = {"property_id": self.prop, "tier": self.tier, "seed": self.seed, "level": self.level, "coverage": cov,
              "assumptions": self.assumptions, "wall_s": round(time.time() - self.t0, 3), "violations": new_violations}
        with open(os.path.join(EVIDENCE_DIR, f"{self.prop}.json"), "w") as fh:
            json.dump(ev, fh, indent=1)
        for l in lines:
            print(l)
        per_rule = {}
        for i in self.instances:
            per_rule.setdefault(i.rule, [0, 0])
            per_rule[i.rule][0] += 1
            per_rule[i.rule][1] += i.verdict == "ok"
        summary = ", ".join(f"{r}:{v[1]}/{v[0]}" for r, v in sorted(per_rule.items()))
        print(f"{self.prop} [{self.tier}] {obligations} obligations, {discharged} discharged, {new_violations} violations "
              f"({summary}) in {ev['wall_s']}s")
        return 1 if new_violations else 0
