"""What text does the code print for a given value?  Partial evaluation of formatting code: a Display impl (or a
constructor that builds a string with format!) is specialised for a concrete constructor term, and the pieces written are
collected in order.  Independent of how the impl is organised (one write! per arm, a table of pieces followed by a single
write!, if-let chains, helper functions)."""
import evalnode as E
import norm
import partial
import terms
from terms import subst, subterms

STRINGY_CALLS = ("to_string", "as_str", "to_owned", "clone", "into", "format", "must_use", "from", "as_ref", "deref", "borrow", "as_bytes", "into_bytes",
                 "into_boxed_str", "into_string")


def flatten_pieces(t, nz, memo):
    """Pieces of a string-valued term: literals (str) and opaque arguments (('arg', term, spec))."""
    t = nz(partial.simplify(t, memo))
    while isinstance(t, tuple) and t and t[0] == "call" and isinstance(t[1], str) and t[1].rsplit("::", 1)[-1] in STRINGY_CALLS and len(t[2]) == 1:
        t = t[2][0]
    if t[0] == "fmt":
        out = []
        for p in t[1]:
            if isinstance(p, str):
                out.append(p)
            else:
                spec = p[2]
                inner = flatten_pieces(p[1], nz, memo)
                if spec == "debug" and len(inner) == 1 and isinstance(inner[0], tuple) and inner[0][1][0] == "ctor" and not inner[0][1][2]:
                    out.append(str(inner[0][1][1]).rsplit("::", 1)[-1])        # derived Debug of a field-less variant is its name
                elif spec == "debug":
                    out.append(("arg", p[1], "debug"))
                else:
                    out += inner
        return out
    if t[0] == "lit" and isinstance(t[1], str):
        return [t[1]]
    if t[0] == "lit" and isinstance(t[1], (bytes, bytearray)):
        return [bytes(t[1]).decode("utf-8", "replace")]            # a byte-string literal written to a text entry
    if t[0] == "call" and isinstance(t[1], str) and t[1].rsplit("::", 1)[-1] == "new" and not t[2] and "String" in t[1]:
        return [""]
    if t[0] == "call" and isinstance(t[1], str) and t[1].rsplit("::", 1)[-1] == "default" and not t[2]:
        return [""]               # Default of a string-valued expression
    if t[0] == "call" and isinstance(t[1], str) and t[1].rsplit("::", 1)[-1] in ("unwrap_or_default",) and len(t[2]) == 1:
        x = nz(partial.simplify(t[2][0], memo))
        if x[0] == "ctor" and str(x[1]).rsplit("::", 1)[-1] == "None":
            return [""]
        if x[0] == "ctor" and str(x[1]).rsplit("::", 1)[-1] == "Some" and x[2]:
            return flatten_pieces(x[2][0], nz, memo)
    if t[0] == "call" and isinstance(t[1], str) and t[1].rsplit("::", 1)[-1] == "with_capacity" and "String" in t[1]:
        return [""]               # an empty string, whatever capacity is reserved
    if t[0] == "mut" and t[2][0] == "call" and isinstance(t[2][1], str):
        # a string under construction: what was there, followed by what is appended
        op, a = t[2][1].rsplit("::", 1)[-1], t[2][2]
        if op in ("push", "push_str", "write_str", "write_char", "write_fmt") and len(a) == 1:
            return flatten_pieces(t[1], nz, memo) + flatten_pieces(a[0], nz, memo)
        if op == "extend" and len(a) == 1:
            x = nz(partial.simplify(a[0], memo))
            while x[0] == "call" and isinstance(x[1], str) and x[1].rsplit("::", 1)[-1] in ("iter", "into_iter", "copied", "cloned") and len(x[2]) == 1:
                x = x[2][0]
            if x[0] in ("array", "vec") and all(y[0] == "lit" and isinstance(y[1], str) for y in x[1]):
                return flatten_pieces(t[1], nz, memo) + ["".join(y[1] for y in x[1])]
            return flatten_pieces(t[1], nz, memo) + [("arg", x, "display")]
    if t[0] == "call" and isinstance(t[1], str) and t[1].rsplit("::", 1)[-1] in ("collect", "from_iter") and len(t[2]) == 1:
        # a string collected from a literal list of characters / pieces: `[c, d].iter().collect::<String>()`
        x = nz(partial.simplify(t[2][0], memo))
        while x[0] == "call" and isinstance(x[1], str) and x[1].rsplit("::", 1)[-1] in ("iter", "into_iter", "copied", "cloned", "chars") and len(x[2]) == 1:
            x = x[2][0]
        if x[0] in ("array", "vec"):
            out = []
            for el in x[1]:
                out += flatten_pieces(el, nz, memo)
            return out
    if t[0] == "call" and isinstance(t[1], str) and t[1].rsplit("::", 1)[-1] in ("concat", "join") and t[2] and t[2][0][0] in ("array", "vec"):
        # [a, b, c].concat() / [a, b, c].join(sep): the pieces of the elements in order (with the separator in between)
        op = t[1].rsplit("::", 1)[-1]
        if (op == "concat" and len(t[2]) == 1) or (op == "join" and len(t[2]) == 2):
            sep = flatten_pieces(t[2][1], nz, memo) if op == "join" else []
            out = []
            for i, el in enumerate(t[2][0][1]):
                if i and sep:
                    out += sep
                out += flatten_pieces(el, nz, memo)
            return out
    if t[0] == "ite" and t[1] in (("lit", True), ("lit", False)):
        return flatten_pieces(t[2] if t[1][1] else t[3], nz, memo)
    if t[0] == "bin" and t[1] == "+":
        return flatten_pieces(t[2], nz, memo) + flatten_pieces(t[3], nz, memo)
    return [("arg", t, "display")]


def merge(pieces):
    out = []
    for p in pieces:
        if isinstance(p, str):
            if p == "":
                continue
            if out and isinstance(out[-1], str):
                out[-1] += p
            else:
                out.append(p)
        else:
            out.append(p)
    return out


def string_pieces(t):
    """Merged pieces of a string-valued (already specialised) term."""
    return merge(flatten_pieces(t, norm.Normalizer(), {}))


def display_impl(prog, type_suffix):
    for q, fn in prog.fns.items():
        if fn.path.endswith(f"{type_suffix} as std::fmt::Display>::fmt"):
            return fn
    return None


def printed(prog, type_suffix, value, engine=None):
    """Pieces written by `<T as Display>::fmt` for self == value (a constructor term). None if it cannot be decided."""
    fn = display_impl(prog, type_suffix)
    if fn is None:
        return None
    # helpers of the type's own module (a `symbol()` method, a shared writer) are inlined
    module = fn.path.lstrip("<").split(" as ", 1)[0].rsplit("::", 1)[0] + "::"
    eng = engine or terms.Engine(prog, inline=True, hooks=E.Hooks([module]))
    # online partial evaluation for the concrete value: only the writes that are executed for it remain
    self_name = fn.param_names()[0]
    try:
        sp = eng.specialise(fn, {self_name: value})
    except Exception:
        sp = None
    if sp is not None:
        nz = norm.Normalizer()
        memo = {}
        out = []
        decided = True
        for st in sp.all_sites():
            dbg = debug_delegation(st)
            if dbg is None and (st.kind != "mcall" or st.name not in ("write_fmt", "write_str", "write_char", "pad")):
                continue
            if any(c[0] in ("if", "match") and not (len(c) > 4 and c[4] == "try") for c in st.pc):
                decided = False          # a write that still depends on a condition
                break
            out += [dbg] if dbg is not None else flatten_pieces(st.args[1], nz, memo)
        if decided and out:
            return merge(out)
    s = eng.summary(fn)
    if s is None:
        return None
    self_name = fn.param_names()[0]
    mapping = {self_name: value}
    nz = norm.Normalizer()
    memo = {}
    out = []
    for st in s.all_sites():
        if st.kind != "mcall" or st.name not in ("write_fmt", "write_str", "write_char", "pad"):
            continue
        verdict, residual = partial.eval_pc(st.pc, mapping, memo)
        if verdict is False:
            continue
        if verdict is None:
            # conditions that do not depend on the value printed are not understood
            return None
        arg = subst(st.args[1], mapping)
        out += flatten_pieces(arg, nz, memo)
    return merge(out)


def debug_delegation(st):
    """`fmt::Debug::fmt(self, f)` inside a Display impl, for a field-less variant: the derived Debug writes the variant's name."""
    if st.kind in ("call", "mcall") and isinstance(st.callee, str) and st.callee.endswith("Debug::fmt") and len(st.args or ()) == 2:
        v = st.args[0]
        while v[0] == "call" and isinstance(v[1], str) and v[1].rsplit("::", 1)[-1] in ("clone", "deref", "borrow") and len(v[2]) == 1:
            v = v[2][0]
        inst = str(getattr(st, "inst", "") or "")
        if v[0] == "ctor" and not v[2] and isinstance(v[1], str) and (not inst or "Debug" in inst):
            return v[1].rsplit("::", 1)[-1]
    return None


def shape(pieces):
    """Template view: literals as they are, arguments as '{}'."""
    return tuple(p if isinstance(p, str) else "{}" for p in pieces)
