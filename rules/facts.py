"""Fact extraction front-end: runs the rustc_private driver over /repo's *current working tree*
and caches the merged facts under /verif/.cache keyed by a hash of the tree.

Nothing here knows about properties."""
import fcntl
import glob
import hashlib
import json
import os
import shutil
import subprocess
import sys
import tempfile
import time

VERIF = os.path.dirname(os.path.dirname(os.path.abspath(__file__)))
REPO = os.environ.get("HCTL_REPO", "/repo")
DRIVER_DIR = os.path.join(VERIF, "driver")
DRIVER = os.path.join(DRIVER_DIR, "target", "release", "hctl-facts")
CACHE = os.path.join(VERIF, ".cache")

SKIP_DIRS = {"target", ".git"}


def tree_hash(repo=None):
    """Hash of every file of the repository outside target/ and .git/ (names and contents)."""
    repo = repo or REPO
    h = hashlib.sha256()
    for root, dirs, files in os.walk(repo):
        dirs[:] = sorted(d for d in dirs if not (root == repo and d in SKIP_DIRS))
        for f in sorted(files):
            p = os.path.join(root, f)
            if os.path.islink(p) or not os.path.isfile(p):
                continue
            rel = os.path.relpath(p, repo)
            h.update(rel.encode())
            h.update(b"\0")
            with open(p, "rb") as fh:
                h.update(hashlib.sha256(fh.read()).digest())
    # the driver is part of the cache key as well
    try:
        with open(os.path.join(DRIVER_DIR, "src", "main.rs"), "rb") as fh:
            h.update(hashlib.sha256(fh.read()).digest())
    except OSError:
        pass
    return h.hexdigest()[:24]


def nightly_sysroot():
    return subprocess.check_output(["rustc", "+nightly", "--print", "sysroot"], text=True).strip()


def ensure_driver():
    if os.path.exists(DRIVER):
        src = os.path.join(DRIVER_DIR, "src", "main.rs")
        if os.path.getmtime(DRIVER) >= os.path.getmtime(src):
            return
    env = dict(os.environ, CARGO_NET_OFFLINE="true")
    r = subprocess.run(["cargo", "build", "--release", "--offline"], cwd=DRIVER_DIR, env=env,
                       stdout=subprocess.PIPE, stderr=subprocess.STDOUT, text=True)
    if r.returncode != 0 or not os.path.exists(DRIVER):
        sys.stderr.write(r.stdout)
        raise SystemExit("CHECKER-ERROR: cannot build the fact extractor")


def extract(repo=None, use_cache=True, quiet=True):
    """Return (facts, meta). facts = {'crates': [..per crate json..]}"""
    repo = repo or REPO
    os.makedirs(CACHE, exist_ok=True)
    key = tree_hash(repo)
    out = os.path.join(CACHE, f"facts-{key}.json")
    # optional, for the regression tool only: a directory with the compiled *dependencies* (never the crate itself), so that many
    # scratch copies need not recompile them; the registered checks always compile from scratch
    warm = os.environ.get("VERIF_WARM_DEPS")
    warm = warm if warm and os.path.isdir(os.path.join(warm, "debug")) else None
    lock_path = os.path.join(CACHE, f"extract-{key}.lock" if warm else "extract.lock")
    with open(lock_path, "w") as lock:
        fcntl.flock(lock, fcntl.LOCK_EX)
        try:
            if use_cache and os.path.exists(out):
                with open(out) as fh:
                    data = json.load(fh)
                data["meta"]["cached"] = True
                return data
            ensure_driver()
            t0 = time.time()
            tgt = tempfile.mkdtemp(prefix="hctl-verif-tgt.")
            fdir = tempfile.mkdtemp(prefix="hctl-verif-facts.")
            if warm:
                os.rmdir(tgt)
                if subprocess.run(["cp", "-al", warm, tgt]).returncode != 0:
                    shutil.rmtree(tgt, ignore_errors=True)
                    shutil.copytree(warm, tgt)
            try:
                env = dict(os.environ)
                sysroot = nightly_sysroot()
                env["LD_LIBRARY_PATH"] = os.path.join(sysroot, "lib") + ":" + env.get("LD_LIBRARY_PATH", "")
                env["HCTL_FACTS_DIR"] = fdir
                env["RUSTFLAGS"] = "-Zmir-opt-level=0 -Awarnings"
                env["RUSTC_WORKSPACE_WRAPPER"] = DRIVER
                env["CARGO_TARGET_DIR"] = tgt
                env["CARGO_NET_OFFLINE"] = "true"
                env.pop("RUSTC_WRAPPER", None)
                r = subprocess.run(["cargo", "+nightly", "check", "--offline", "--lib", "--bins"],
                                   cwd=repo, env=env, stdout=subprocess.PIPE, stderr=subprocess.STDOUT, text=True)
                if r.returncode != 0:
                    sys.stderr.write(r.stdout[-6000:])
                    raise SystemExit("CHECKER-ERROR: /repo does not compile (cargo check failed); no verdict")
                crates = []
                for f in sorted(glob.glob(os.path.join(fdir, "*.json"))):
                    with open(f) as fh:
                        crates.append(json.load(fh))
                if len(crates) < 3:
                    raise SystemExit(f"CHECKER-ERROR: expected facts for lib + 2 bins, got {len(crates)}")
            finally:
                shutil.rmtree(tgt, ignore_errors=True)
                shutil.rmtree(fdir, ignore_errors=True)
            data = {"crates": crates,
                    "meta": {"tree_hash": key, "extract_s": round(time.time() - t0, 2), "cached": False,
                             "repo": repo,
                             "targets": [c["crate"] + ":" + "/".join(c["crate_types"]) for c in crates]}}
            tmp = out + f".tmp{os.getpid()}"
            with open(tmp, "w") as fh:
                json.dump(data, fh)
            os.replace(tmp, out)
            # keep the cache small: drop all but the 6 newest fact files
            olds = sorted(glob.glob(os.path.join(CACHE, "facts-*.json")), key=os.path.getmtime)
            for o in olds[:-150]:
                try:
                    os.remove(o)
                except OSError:
                    pass
            return data
        finally:
            fcntl.flock(lock, fcntl.LOCK_UN)


if __name__ == "__main__":
    d = extract(use_cache="--no-cache" not in sys.argv)
    print(json.dumps(d["meta"], indent=1))
    for c in d["crates"]:
        print(c["crate"], len(c["fns"]), "fns", len(c["mir"]), "mir bodies")
