"""A small pattern matcher over normalised terms, so that rules can be written as specifications:

    C(name, a, b, ..)     a call (call / rec) whose path ends in `name` with exactly these argument patterns
    OK(p) / SOME(p)       proj(p, Ok, 0) / proj(p, Some, 0)          (the value behind `?` / unwrap / if-let)
    V("x")                binds a variable (a second occurrence must be equal)
    ANY                   anything
    P(pred)               any term satisfying pred
    ALT(p1, p2, ..)       first alternative that matches
    a plain tuple         matched structurally, element by element
Every pattern is matched *modulo value-preserving wrappers* (clone, as_str, to_string, borrow, iter ..): they are stripped from
the term before it is compared, unless the pattern itself is such a call."""
from norm import last

WRAPPERS = ("clone", "as_str", "to_string", "to_owned", "borrow", "as_ref", "deref", "into", "as_slice", "to_vec", "must_use", "from", "as_mut", "borrow_mut",
            "cloned", "copied")


class V:
    def __init__(self, name):
        self.name = name


class P:
    def __init__(self, pred):
        self.pred = pred


class ALT:
    def __init__(self, *alts):
        self.alts = alts


class C:
    def __init__(self, name, *args):
        self.name, self.args = name, args


class OK:
    def __init__(self, p):
        self.p = p


class SOME:
    def __init__(self, p):
        self.p = p


class _Any:
    pass


ANY = _Any()


def strip(t):
    while isinstance(t, tuple) and t and t[0] == "call" and isinstance(t[1], str) and last(t[1]) in WRAPPERS and len(t[2]) == 1:
        t = t[2][0]
    return t


def match(p, t, env=None):
    """env (dict) extended with the bindings if p matches t, else None."""
    env = dict(env or {})
    return env if _m(p, t, env) else None


def _m(p, t, env):
    if p is ANY:
        return True
    if isinstance(p, V):
        t = strip(t)
        if p.name in env:
            return strip(env[p.name]) == t
        env[p.name] = t
        return True
    if isinstance(p, P):
        return bool(p.pred(strip(t)))
    if isinstance(p, ALT):
        for a in p.alts:
            e2 = dict(env)
            if _m(a, t, e2):
                env.clear()
                env.update(e2)
                return True
        return False
    if isinstance(p, C):
        if not (p.name in WRAPPERS):
            t = strip(t)
        if not (isinstance(t, tuple) and t and t[0] in ("call", "rec") and isinstance(t[1], str) and last(t[1]) == p.name and len(t[2]) == len(p.args)):
            return False
        return all(_m(a, x, env) for a, x in zip(p.args, t[2]))
    if isinstance(p, (OK, SOME)):
        t = strip(t)
        want = "Ok" if isinstance(p, OK) else "Some"
        if not (isinstance(t, tuple) and len(t) == 4 and t[0] == "proj" and last(t[2]) == want and t[3] == 0):
            return False
        return _m(p.p, t[1], env)
    if isinstance(p, tuple):
        t = strip(t) if not (p and p[0] == "call") else t
        if not isinstance(t, tuple) or len(t) != len(p):
            return False
        return all(_m(a, x, env) for a, x in zip(p, t))
    return p == t


def find(p, t, env=None):
    """First subterm of t (pre-order) matching p: (subterm, env) or (None, None)."""
    stack = [t]
    while stack:
        x = stack.pop()
        if not isinstance(x, tuple):
            continue
        e = match(p, x, env)
        if e is not None:
            return x, e
        stack.extend(reversed([y for y in x if isinstance(y, tuple)]))
    return None, None


def find_all(p, t, env=None):
    out = []
    stack = [t]
    seen = set()
    while stack:
        x = stack.pop()
        if not isinstance(x, tuple) or x in seen:
            continue
        seen.add(x)
        e = match(p, x, env)
        if e is not None:
            out.append((x, e))
        stack.extend(reversed([y for y in x if isinstance(y, tuple)]))
    return out
