"""C18 - the self-loop-free variant agrees with standard evaluation where loops cannot matter.

Decided here as a non-interference argument (DESIGN.md section 5/C18), obligations O1-O4:
  O1  eval_node partially evaluated for every node shape whose operator is not one of EX, AX, AF, EG, AU, EW
      (all atoms, Not, EF, AG, the Boolean connectives, EU, AW, jump, the quantifiers with and without domain,
      the attractor shortcut) has a value that does not depend on the parameter `steady_states` - except verbatim
      as the fourth argument of its recursive calls;
  O2  every recursive call passes `steady_states` on unchanged (so the induction over the formula goes through);
  O3  the steady-state shortcut can only be taken for a node that contains AX (pattern shapes of C12: every shape
      that reaches the shortcut return contains UnaryOp::AX);
  O4  model_check_formula_unsafe_ex differs from the standard single-formula pipeline only in the fourth argument:
      same parse_and_validate on vec![formula] and the same graph, a fresh context from_single_tree(tree) which is
      from_multiple_trees(vec![tree]) field by field, the empty set of the *same* graph as steady states, the raw
      result returned.
By O1-O3 and induction on the formula the value of eval_node for a formula of the fragment is independent of
`steady_states`; by O4 both variants then compute the same raw set. On networks without steady states both
variants call eval_node with an empty fourth argument (compute_steady_states = FixedPoints::symbolic, L5)."""
import evalnode as E
import semantics as sem
import setalg
import spec as S
import terms
from terms import pt, subterms, replace

LEVEL = "proof"
SL_OPS = {"EX", "AX", "AF", "EG", "AU", "EW"}


def strip_rec(t, steady):
    """Replace the verbatim steady-state argument of recursive eval_node calls by a marker."""
    if not isinstance(t, tuple) or not t:
        return t
    if t[0] in ("call", "rec") and isinstance(t[1], str) and t[1].endswith("::eval_node") and len(t[2]) >= 4 and t[2][3] == steady:
        args = list(t[2])
        args[3] = ("lit", "#steady-verbatim")
        # the evaluation context and the callback carry no value (the context is fresh by O4, its contents are
        # results of eval_node on the same arguments and covered by the induction)
        args[2] = ("lit", "#ctx")
        if len(args) > 4:
            args[4] = ("lit", "#cb")
        return (t[0], t[1], tuple(strip_rec(a, steady) for a in args))
    return tuple(strip_rec(x, steady) if isinstance(x, tuple) else x for x in t)


def pm_strip(t):
    while isinstance(t, tuple) and t and t[0] == "call" and isinstance(t[1], str) and t[1].rsplit("::", 1)[-1] in ("clone", "to_owned", "borrow", "deref", "into_iter", "iter") and len(t[2]) == 1:
        t = t[2][0]
    return t


def one_formula(ty):
    """The validator's first parameter is a single formula text (not a list / iterator of them)."""
    return "str" in ty.lower() and not any(k in ty for k in ("Vec<", "[", "Iterator", "IntoIter", "Iter<"))


def run(prog, rep):
    rep.explanation = __doc__
    rep.assumptions = ["L1", "L2", "L5 FixedPoints::symbolic returns the empty set on networks without steady states"]
    rep.rule("C18-O1", "for operators outside {EX,AX,AF,EG,AU,EW} the value of eval_node does not depend on steady_states")
    rep.rule("C18-O2", "recursive calls pass steady_states on unchanged")
    rep.rule("C18-O3", "the steady-state shortcut is only reachable for nodes containing AX")
    rep.rule("C18-O4", "model_check_formula_unsafe_ex == standard pipeline except for the steady-state argument")
    en = E.EvalNode(prog)
    if not en.ok():
        rep.unresolved("C18-O1", "eval_node", "", "eval_node not found")
        return
    rep.functions.add(en.fn.qual)
    steady = ("param", en.params[3])
    # (operators over a generic operand, over special operands - a bare variable, a constant, a nested operator - and with domains)
    shapes = [(k, sh, kind, op) for k, sh, alts, kind, op in sem.plain_shapes() + sem.domain_shapes() + sem.variant_shapes()]
    for key, shape, kind, op in shapes:
        if op in SL_OPS:
            continue
        rs = [r for r in en.specialise(shape) if r["term"] != terms.NEVER and not sem.is_cache_path(r)]
        if not rs:
            rep.unresolved("C18-O1", key, f"{en.fn.file}:{en.fn.line}", "no feasible return path")
        for i, r in enumerate(rs):
            t = strip_rec(r["term"], steady)
            dep = terms.mentions_param(t, steady[1])
            cond_dep = any(terms.mentions_param(strip_rec(x[1], steady), steady[1]) for x in r["residual"])
            rep.check(not dep and not cond_dep, "C18-O1", f"{key}/path{i}", f"{en.fn.file}:{r['node'].get('sp', [0])[0]}",
                      f"value for {op} is independent of `{steady[1]}`",
                      f"value of eval_node for {kind} {op} depends on `{steady[1]}`: {sem.short(r['term'], 200)}")
    rep.floor("C18-O1", 19)
    # the attractor shortcut and every near miss outside AX
    for key, shape, alts, is_pattern in sem.pattern_shapes():
        rs = [r for r in en.specialise(shape) if r["term"] != terms.NEVER and not sem.is_cache_path(r)]
        has_ax = "UnaryOp::AX" in repr(shape)
        for i, r in enumerate(rs):
            t = strip_rec(r["term"], steady)
            dep = terms.mentions_param(t, steady[1])
            if has_ax:
                continue
            rep.check(not dep, "C18-O3", f"{key}/path{i}", f"{en.fn.file}:{r['node'].get('sp', [0])[0]}",
                      "shape without AX never reaches a value depending on steady_states",
                      f"node shape `{key}` (no AX inside) gets a value that depends on `{steady[1]}`: {sem.short(r['term'], 160)}")
    rep.floor("C18-O3", 10)
    # O2
    for s in en.summ.all_sites():          # (recursive calls made by inlined helpers of the layer included)
        if s.kind == "call" and s.is_call_to("eval_node"):
            rep.check(len(s.args) >= 4 and s.args[3] == steady, "C18-O2", f"eval_node/rec@{s.ordinal}", s.where(),
                      "steady_states passed verbatim", f"recursive call passes {sem.short(s.args[3], 80) if len(s.args) > 3 else None} as steady states")
    rep.floor("C18-O2", 6)
    # O4
    # helpers inside model_checking.rs are inlined (whole-pipeline view), everything else stays opaque
    import pipelines
    vplain, _vext = pipelines.validators(prog)
    vname = vplain.path.rsplit("::", 1)[-1] if vplain is not None else "parse_and_validate"
    eng = terms.Engine(prog, inline=True, hooks=E.Hooks(["model_checking::"], opaque_names=[vplain.path] if vplain is not None else []))
    f = prog.lib_fn("model_checking::model_check_formula_unsafe_ex")
    std = prog.lib_fn("model_checking::_model_check_multiple_formulae_dirty")
    if f is None or std is None:
        rep.unresolved("C18-O4", "model_check_formula_unsafe_ex", "", "entry points not found")
    else:
        rep.functions.add(f.qual)
        s = eng.summary(f)
        pn = f.param_names()
        formula, graph = ("param", pn[0]), ("param", pn[1])
        where = f"{f.file}:{f.line}"
        evs = s.sites_to("eval_node", deep=True)
        pvs = s.sites_to(vname, deep=True)
        ok_one = len(evs) == 1 and len(pvs) == 1
        rep.check(ok_one, "C18-O4", "unsafe_ex/shape", where, "one parse_and_validate, one eval_node",
                  f"{len(pvs)} parse_and_validate and {len(evs)} eval_node calls")
        if ok_one:
            ev, pv = evs[0], pvs[0]
            a = ev.args
            # the validator takes the list of formulae (then `vec![formula]`) or one formula at a time (then the formula itself)
            single = vplain is not None and one_formula(str(vplain.param_tys[0]))
            rep.check(pv.args[0] == (formula if single else ("vec", (formula,))) and pv.args[1] == graph, "C18-O4", "unsafe_ex/parse", pv.where(),
                      "parse_and_validate(vec![formula], graph)", f"parse_and_validate called with {[sem.short(x, 60) for x in pv.args]}")
            tree = a[0]
            from_pv = any(x == pv.term for x in subterms(tree))
            rep.check(from_pv, "C18-O4", "unsafe_ex/tree", ev.where(), "evaluated tree is the validated one",
                      f"tree argument {sem.short(tree, 120)} does not derive from parse_and_validate")
            rep.check(a[1] == graph, "C18-O4", "unsafe_ex/graph", ev.where(), "same graph", f"graph argument is {sem.short(a[1], 80)}")
            ctx_ok = False
            for x in subterms(a[2]):
                if x[0] == "call" and x[1].endswith("from_single_tree") and x[2] and x[2][0] == tree:
                    ctx_ok = True
                # the multi-formula pipeline applied to the one-element list: the context of all (= the one) validated trees
                if x[0] == "call" and x[1].endswith("from_multiple_trees") and x[2] and tree[0] == "elem" and pm_strip(x[2][0]) == pm_strip(tree[1]) \
                        and any(y == pv.term for y in subterms(x[2][0])):
                    ctx_ok = True
            rep.check(ctx_ok, "C18-O4", "unsafe_ex/context", ev.where(), "fresh context from_single_tree(tree)",
                      f"context argument is {sem.short(a[2], 120)}")
            alg = setalg.Alg()
            rep.check(alg.equivalent(alg.interp(a[3]), setalg.FALSE) and terms.mentions_param(a[3], pn[1]), "C18-O4", "unsafe_ex/steady", ev.where(),
                      "steady-state argument is the empty set of the same graph", f"steady-state argument is {sem.short(a[3], 80)}")
            rets = [r for r in s.returns if r[5] != "try"]
            def is_result(v):
                v = pm_strip(v)
                # the value of the evaluation, or element 0 of the list of such values over the one-element list of trees
                return v == ev.term or (v[0] == "index" and v[2] == ("lit", 0) and pm_strip(v[1])[0] == "collect" and pm_strip(v[1])[2] == ev.term)
            rep.check(all(r[0][0] == "ctor" and r[0][2] and is_result(r[0][2][0]) for r in rets),
                      "C18-O4", "unsafe_ex/result", where, "raw result returned", f"returns {[sem.short(r[0], 80) for r in rets]}")
        # the standard pipeline uses the same validator
        ss = eng.summary(std)
        spn = std.param_names()
        pv2 = ss.sites_to(vname, deep=True)
        import norm as _norm
        single = vplain is not None and one_formula(str(vplain.param_tys[0]))
        first = _norm.Normalizer()(pv2[0].args[0]) if len(pv2) == 1 else None
        # (a validator that takes one formula is applied to every element of the list)
        all_formulae = first == ("param", spn[0]) if not single else (first is not None and first[0] == "elem" and _norm.strip_adapters(first[1]) == ("param", spn[0]))
        rep.check(len(pv2) == 1 and all_formulae and pv2[0].args[1] == ("param", spn[1]), "C18-O4", "standard/parse",
                  f"{std.file}:{std.line}", "standard pipeline validates with parse_and_validate(formulae, graph)",
                  "standard pipeline does not call parse_and_validate(formulae, graph)")
    # from_single_tree(t) == from_multiple_trees(vec![t])
    ceng = terms.Engine(prog, inline=True, hooks=E.Hooks(["evaluation::eval_context::"],
                                                         inline_names=["evaluation::mark_duplicates::mark_duplicates_canonized_single"]))
    fs = prog.lib_fn("evaluation::eval_context::EvalContext::from_single_tree")
    fm = prog.lib_fn("evaluation::eval_context::EvalContext::from_multiple_trees")
    if fs is None or fm is None:
        rep.unresolved("C18-O4", "from_single_tree", "", "constructors not found")
    else:
        rep.functions.add(fs.qual)
        rep.functions.add(fm.qual)
        ts = ceng.summary(fs).ret
        tm = ceng.summary(fm).ret
        t = ("param", fs.param_names()[0])
        tm2 = terms.subst(tm, {fm.param_names()[0]: ("vec", (t,))})
        rep.check(ts == tm2, "C18-O4", "from_single_tree", f"{fs.file}:{fs.line}", "from_single_tree(t) == from_multiple_trees(vec![t])",
                  f"from_single_tree builds {sem.short(ts, 200)} but from_multiple_trees(vec![t]) builds {sem.short(tm2, 200)}")
    rep.floor("C18-O4", 8)
