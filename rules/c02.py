"""C02 - wild-card propositions and restricted domains have the documented meaning.

Decided here:
  C02-R1  scope flow: eval_node partially evaluated for `Q{x} in %d%: child` (Q = bind / exists / forall) computes
          the documented equation: the child is evaluated on restrict_stg_unit_bdd(graph, D) with
          D = compute_valid_domain_for_var(graph, <raw set registered for d>, x), the quantifier itself on the outer
          graph, forall's inner complement in the restricted universe; when unit(graph) & D is empty the value is
          empty for bind / exists and unit(graph) for forall; the emptiness test is made on exactly the set that
          becomes the new unit set (so restrict_stg_unit_bdd's unwrap cannot panic); the registered domain sets are only read
          by eval_node (never taken out of the context, replaced or cleared), so nested and later uses of a label see the set;
  C02-R2  graph-relative leaves: every return path of eval_node (atoms, wild-card / cache hits, both shortcuts, every
          operator) is bounded by the unit set of the *current* graph - inside a restricted scope that is the
          restricted graph, which is what makes `!{x} in %A%: phi` equal `!{x}: %A% & phi` for bodies that do not
          mention x (shared with C03-R1);
  C02-R3  the primitives: compute_valid_domain_for_var = project_out_bn_vars(domain & comparator(var)),
          restrict_stg_unit_bdd builds a graph with unit(graph) & restriction over the same network and context;
  C02-R4  context presence and wild-card binding: every extended entry point evaluates only trees that passed
          validate_and_divide_wild_cards; that function returns Err for every label of collect_unique_wild_cards
          missing from the context and copies exactly the context's set; extend_context_with_wild_cards installs the
          set under the key that the wild-card terminal prints as, together with its counter, and the domain sets
          under their label; a wild-card terminal is served by the cache-hit path only;
  C02-R5  scope pairing (shared with C04-R1), and evaluating a jump `@{x}:` leaves the scope entry of x alone (it belongs to the
          quantifier of x; a jump that rewrites or removes it changes the restriction the cache keys name);
  C02-R6  a value computed inside a restricted scope is neither stored nor served under a key that does not name the
          restriction (cache admission guard, shared with C04-R3).
          wild-card sets cannot be recomputed: their cache entries are never evicted and every hit is counted once (shared with C04-R5).
Not decided: the README equivalences as set equalities."""
import bounded as bd
import c03
import cacheproto
import evalnode as E
import lowlevel
import semantics as sem
import terms
import wildcards
from terms import subterms

LEVEL = "other"


def run(prog, rep):
    rep.explanation = __doc__
    rep.assumptions = ["L1", "L3 with_custom_context(bn, ctx, unit) fails iff the unit set is empty", "L4"]
    for r, t in (("C02-R1", "domain quantifier shapes == documented equations (restricted child graph, outer quantifier graph, empty-universe shortcut)"),
                 ("C02-R2", "every leaf / return path is relative to the current graph"),
                 ("C02-R3", "domain translation and graph restriction primitives"),
                 ("C02-R4", "context presence check and wild-card binding"),
                 ("C02-R5", "scope entry removed on every exit")):
        rep.rule(r, t)
    en = E.EvalNode(prog)
    if not en.ok():
        rep.unresolved("C02-R1", "eval_node", "", "eval_node not found")
        return
    rep.functions.add(en.fn.qual)
    for key, shape, alts, kind, op in sem.domain_shapes():
        sem.check_shape(rep, "C02-R1", en, shape, alts, key, detail=f"{op} with domain")
    # the registered domain sets are only read during evaluation: a quantifier nested inside another one with the same domain label
    # (or a later formula of the batch) must find the set where the context constructor put it
    dsites = cacheproto.ctx_sites(en, "domain_raw_sets")
    writes = [x for x in dsites if (x.kind == "mcall" and x.name not in ("get", "contains_key", "index", "iter", "len", "is_empty", "keys", "values"))
              or x.kind in ("assign", "assignop")]
    rep.check(bool(dsites) and not writes, "C02-R1", "eval_node/domain-sets-read-only", f"{en.fn.file}:{(writes[0].line() if writes else en.fn.line)}",
              f"{len(dsites)} look-ups of the registered domain sets, no modification",
              f"eval_node modifies the registered domain sets (`{writes[0].name if writes else ''}`): while the entry is away, a nested quantifier over the "
              "same domain does not find it" if writes else "no look-up of the registered domain sets was found in eval_node")
    rep.floor("C02-R1", 4)
    g = E.G
    for key, shape in c03.all_shapes():
        rs = [r for r in en.specialise(shape) if r["term"] != terms.NEVER]
        for i, r in enumerate(rs):
            tag = "cache-hit" if sem.is_cache_path(r) else r["kind"]
            rep.check(bd.bounded(r["term"], g), "C02-R2", f"eval_node/{key}/{tag}{i}", f"{en.fn.file}:{r['node'].get('sp', [0])[0]}",
                      "value is relative to the current graph",
                      f"return path ({tag}) for {key} yields {sem.short(r['term'], 200)}: not restricted to the current (possibly domain-restricted) graph")
    rep.floor("C02-R2", 60)
    n0 = len(rep.instances)
    lowlevel.check_primitives(prog, rep, "C02-R3")
    rep.floor("C02-R3", 5)
    wildcards.check_context_presence(prog, rep, "C02-R4")
    wildcards.check_wildcard_binding(prog, rep, "C02-R4", en)
    rep.floor("C02-R4", 10)
    cacheproto.check_scope_pairing(prog, rep, "C02-R5", en)
    rep.floor("C02-R5", 4)
    rep.rule("C02-R6", "values computed inside a restricted scope are not stored / served under a key that does not name the restriction")
    cacheproto.check_store_guard(prog, rep, "C02-R6", en)
    cacheproto.check_read_guard(prog, rep, "C02-R6", en)
    # wild-card sets cannot be recomputed: their entries are never evicted and every hit is counted once (shared with C04-R5 / C10-R2)
    cacheproto.check_eviction_and_counter(prog, rep, "C02-R6", en)
    rep.floor("C02-R6", 10)
