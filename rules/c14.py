"""C14 - invalid input is rejected with an error, never a panic or a silent answer.

Decided here (the "error exactly when" half quantifies over strings and is not decided):
  C14-R1  panic-site inventory: every panic-capable construct (unwrap / expect, unreachable! / panic!, indexing and
          slicing, `usize` subtraction, the library calls known to panic) in a function reachable from one of the 17
          string entry points (call graph over resolved callees, Display impls included) is discharged by
            G1  an automatic local guard on the same receiver and key in its path condition
                (contains_key(m, k) => m.get(k).unwrap() / m[k];  position(..) = Some(i) => tokens[i], tokens[..i],
                tokens[i+1..];  i > 0 => tokens[i-1], i - 1;  len == 1 => tokens[0];  is_some(x) => x.unwrap();
                first position of predicate P => the arm `_ => unreachable!()` after the arm for P), or
            G2/G3  a line of tables/panic_discharge.json, whose prerequisites (validators on every path, cache protocol,
                restrict guard, ...) are re-verified on every run;
          a site that is neither is a violation; a table line matching no site fails the floor;
  C14-R2  validator placement: parse_and_validate[_extended] push a tree only after the parser, preprocessing
          (through parse_and_minimize_*), check_hctl_var_support for *that tree* (Err otherwise) and, extended,
          validate_and_divide_wild_cards (propagated with `?`); every string entry point evaluates only trees that come
          out of those two functions, on the graph that was checked;
  C14-R3  the errors the property lists are produced as Err values on their own paths (free / re-quantified variable,
          unknown proposition, missing context label, too few variable sets) - shared with C07-R2 and C02-R4."""
import json
import os

import c05
import c07
import cacheproto
import callgraph
import evalnode as E
import pipelines
import semantics as sem
import terms
import wildcards
from terms import subterms, pt, ppc, place_path

LEVEL = "other"
TABLE = os.path.join(os.path.dirname(os.path.dirname(os.path.abspath(__file__))), "tables", "panic_discharge.json")
PANIC_LIB = ("mk_var_by_name", "from_string", "with_custom_context")


def last(p):
    return p.rsplit("::", 1)[-1] if isinstance(p, str) else ""


def strip_not(t):
    neg = False
    while isinstance(t, tuple) and t and t[0] == "not":
        neg = not neg
        t = t[1]
    return t, neg


def pc_has(pc, pred):
    """Some condition of the path condition satisfies pred(term, polarity)."""
    for c in pc:
        if c[0] == "if":
            t, neg = strip_not(c[1])
            pol = c[2] != neg
            if pred(t, pol):
                return True
            # conjunctions taken on their true branch
            if c[2] and c[1][0] == "bin" and c[1][1] == "&&":
                stack = [c[1]]
                while stack:
                    x = stack.pop()
                    if x[0] == "bin" and x[1] == "&&":
                        stack += [x[2], x[3]]
                    else:
                        tt, ng = strip_not(x)
                        if pred(tt, not ng):
                            return True
        elif c[0] == "match":
            if pred(("matches", c[1], c[2]), c[3]):
                return True
    return False


def describe(st):
    """(kind, what) of a panic-capable site, or None."""
    if st.kind == "mcall" and st.name in ("unwrap", "expect", "unwrap_err", "expect_err"):
        recv = st.args[0]
        what = st.name
        if recv[0] == "call":
            what = last(recv[1])
            if what in ("get", "get_mut") and recv[2]:
                m = recv[2][0]
                nm = m[2] if m[0] == "field" else (m[2] if m[0] == "mu" else last(m[1]) if m[0] == "call" else "")
                if nm in ("domain_raw_sets", "reverse_renaming") or (m[0] == "call" and last(m[1]) == "extra_state_variables"):
                    what = f"get({nm if m[0] != 'call' else last(m[1])})"
        if st.name.startswith("expect"):
            return "expect", "expect"
        return "unwrap", what
    if st.kind == "call" and isinstance(st.callee, str) and ("panicking" in st.callee or last(st.callee) in ("unreachable", "panic", "panic_fmt", "assert_failed")):
        return "panic", "unreachable" if "unreachable" in pt(st.args[0] if st.args else ()) else "panic"
    if st.kind == "index":
        i = st.args[1]
        return "index", "[0]" if i == ("lit", 0) else "[..]"
    if st.kind == "arith" and st.name in ("-", "/", "%") and ("usize" in str(st.ty) or "u32" in str(st.ty) or "u16" in str(st.ty)):
        return "arith", st.name
    if st.kind in ("call", "mcall") and isinstance(st.callee, str) and last(st.callee) in PANIC_LIB:
        return "lib", last(st.callee)
    return None


def g1_discharged(st, kind, what, fn_summ):
    pc = st.pc
    if kind in ("unwrap", "expect"):
        recv = st.args[0]
        if recv[0] == "call" and last(recv[1]) in ("get", "get_mut") and len(recv[2]) == 2:
            m, k = recv[2]
            if pc_has(pc, lambda t, pol: pol and t[0] == "call" and last(t[1]) == "contains_key" and t[2] == (m, k)):
                return "contains_key(map, key) dominates map.get(key).unwrap()"
            # same map before an in-place update of another entry
            if pc_has(pc, lambda t, pol: pol and t[0] == "call" and last(t[1]) == "contains_key" and t[2][1] == k and same_map(t[2][0], m)):
                return "contains_key(map, key) dominates map.get(key).unwrap()"
        if pc_has(pc, lambda t, pol: pol and t[0] == "call" and last(t[1]) == "is_some" and t[2] == (recv,)):
            return "is_some(x) dominates x.unwrap()"
        if pc_has(pc, lambda t, pol: pol and t[0] == "matches" and t[1] == recv and "Some" in repr(t[2])):
            return "matched Some(_)"
        return None
    if kind == "index":
        base, idx = st.args
        if str(st.callee).endswith("Index::index") and "HashMap" in str(st.ty) + pt(base) or (base[0] in ("field", "loopvar", "mut") and idx[0] == "tuple"):
            if pc_has(pc, lambda t, pol: pol and t[0] == "call" and last(t[1]) == "contains_key" and t[2][1] == idx and same_map(t[2][0], base)):
                return "contains_key(map, key) dominates map[key]"
        pos = position_index(idx)
        if pos is not None and pc_has(pc, lambda t, pol: pol and t[0] == "matches" and t[1] == pos[0] and "Some" in repr(t[2])):
            # tokens[i], tokens[..i], tokens[i+1..]: i is a valid position of the same slice
            if slice_of(pos[0]) == base:
                if pos[1] == "i-1":
                    i = ("proj", pos[0], "std::prelude::v1::Some", 0)
                    if pc_has(pc, lambda t, pol: pol and t == ("bin", ">", i, ("lit", 0))):
                        return "i > 0 dominates tokens[i - 1]"
                    return None
                return "position(..) = Some(i) dominates tokens[i] / tokens[..i] / tokens[i+1..]"
        if idx == ("lit", 0):
            if pc_has(pc, lambda t, pol: pol and t[0] == "bin" and t[1] == "==" and t[3] == ("lit", 1) and t[2][0] == "call" and last(t[2][1]) == "len" and t[2][2] == (base,)):
                return "len == 1 dominates tokens[0]"
        return None
    if kind == "arith":
        a, b = st.args
        if what == "-" and b == ("lit", 1):
            if pc_has(pc, lambda t, pol: pol and t == ("bin", ">", a, ("lit", 0))):
                return "i > 0 dominates i - 1"
        return None
    if kind == "panic":
        # `match &tokens[i] { P(..) => .., _ => unreachable!() }` with i the first position satisfying P
        for c in pc:
            if c[0] == "match" and c[3] and c[2][0] == "wild" and c[1][0] == "index":
                pos = position_index(c[1][2])
                prior = c[5] if len(c) > 5 else ()
                if pos is not None and pos[1] == "i" and slice_of(pos[0]) == c[1][1] and prior:
                    cls = c05.token_class(pos[0][3]) if pos[0][0] == "hof" else None
                    arm_cls = set()
                    for d in prior:
                        x = c05.token_class(("matches", None, d)) or generic_class(d)
                        if x:
                            arm_cls |= x
                    if cls and (cls <= arm_cls or generic_cover(cls, prior)):
                        return "the searched predicate holds at tokens[i], and its pattern is matched by an earlier arm"
        return None
    return None


def generic_class(d):
    if d[0] == "var" and str(d[1]).endswith("HctlToken::Binary") and d[2] and d[2][0][0] == "wild":
        return {"And", "Or", "Xor", "Imp", "Iff", "EU", "AU", "EW", "AW"}
    return None


def generic_cover(cls, prior):
    for d in prior:
        g = generic_class(d)
        if g and cls <= g:
            return True
    return False


def same_map(a, b):
    """b is map a, possibly after in-place updates of a (mut wrappers) or through the same root field."""
    def root(t):
        while t[0] == "mut":
            t = t[1]
        return t
    ra, rb = root(a), root(b)
    if ra == rb:
        return True
    fa = ra[2] if ra[0] == "field" else None
    fb = rb[2] if rb[0] == "field" else None
    return fa is not None and fa == fb


def position_index(idx):
    """idx is i, i - 1, RangeTo{end: i}, RangeFrom{start: i + 1} for i = proj(POS, Some, 0): returns (POS, which)."""
    def base_i(t):
        if t[0] == "proj" and t[3] == 0 and str(t[2]).endswith("Some"):
            return t[1]
        return None
    p = base_i(idx)
    if p is not None:
        return p, "i"
    if idx[0] == "bin" and idx[1] == "-" and idx[3] == ("lit", 1) and base_i(idx[2]) is not None:
        return base_i(idx[2]), "i-1"
    if idx[0] == "struct":
        d = dict(idx[2])
        if str(idx[1]).endswith("RangeTo") and base_i(d.get("end", ())) is not None:
            return base_i(d["end"]), "..i"
        if str(idx[1]).endswith("RangeFrom"):
            s = d.get("start", ())
            if s and s[0] == "bin" and s[1] == "+" and s[3] == ("lit", 1) and base_i(s[2]) is not None:
                return base_i(s[2]), "i+1.."
    return None


def slice_of(pos):
    """The slice a position term was computed on: hof position over iter(S), or a local index_of_first*(S, ..) helper."""
    if pos[0] == "hof" and pos[1] in ("position",):
        r = pos[2]
        if r[0] == "call" and last(r[1]) == "iter":
            return r[2][0]
    if pos[0] in ("call", "rec") and last(pos[1]).startswith("index_of_first"):
        return pos[2][0]
    return None


def run(prog, rep):
    rep.explanation = __doc__
    rep.assumptions = ["L3", "L7 transfer_from returns None iff the BDD depends on a variable without a namesake in the target context",
                       "library functions not listed in PANIC_LIB do not panic on the arguments they receive"]
    rep.rule("C14-R1", "every reachable panic-capable site is discharged by a local guard or a reviewed, re-verified table line")
    rep.rule("C14-R2", "validators dominate evaluation in every string entry point")
    rep.rule("C14-R3", "the listed errors are produced as Err values")
    # the small search helpers of the parser are inlined so that `i` is visibly the first position of a predicate
    eng = terms.Engine(prog, inline=True, hooks=E.Hooks([], inline_names=c05.INLINE_PARSER))
    edges = callgraph.build(prog, terms.Engine(prog, inline=False))
    roots = [f for f in pipelines.entry_points(prog) if any("str" in t for t in f.param_tys)]
    rep.check(len(roots) == 17, "C14-R2", "entry-points/count", "", f"{len(roots)} string entry points", f"{len(roots)} string entry points found, 17 expected")
    reach = callgraph.reachable(prog, edges, [f.qual for f in roots])
    with open(TABLE) as fh:
        table = {e["key"]: e for e in json.load(fh)["entries"]}
    prereq = verify_prerequisites(prog, rep, eng)
    used = {}
    n_sites = 0
    for q in sorted(reach):
        f = prog.fns[q]
        if f.crate != "biodivine_hctl_model_checker":
            continue
        rep.functions.add(q)
        s = eng.summary(f)
        for st in s.sites:
            d = describe(st)
            if d is None:
                continue
            kind, what = d
            n_sites += 1
            rep.call_sites += 1
            key = f"{f.path}|{kind}|{what}"
            g1 = g1_discharged(st, kind, what, s)
            if g1:
                rep.ok("C14-R1", f"{f.path}/{kind}:{what}@{st.ordinal}", st.where(), "G1: " + g1)
                continue
            e = table.get(key)
            if e is not None:
                used[key] = used.get(key, 0) + 1
                missing = [r for r in e.get("requires", []) if not prereq.get(r, False)]
                if missing:
                    rep.violation("C14-R1", f"{f.path}/{kind}:{what}@{st.ordinal}", st.where(),
                                  f"panic site relies on `{e['reason']}`, but its prerequisite(s) {missing} no longer hold: the {kind} can fire on user input")
                else:
                    rep.ok("C14-R1", f"{f.path}/{kind}:{what}@{st.ordinal}", st.where(), f"{e['class']}: {e['reason']}")
                continue
            rep.violation("C14-R1", f"{f.path}/{kind}:{what}@{st.ordinal}", st.where(),
                          f"undischarged panic site reachable from the string entry points: `{kind} {what}` on {sem.short(st.args[0], 100) if st.args else ''} "
                          f"under [{ppc(st.pc)[-200:]}] has no dominating guard and no reviewed discharge")
    for key, e in table.items():
        n = used.get(key, 0)
        rep.check(n == e["count"], "C14-R1", f"table/{key}", "", f"table line matches {n} site(s)",
                  f"table line `{key}` matches {n} sites, {e['count']} expected: the reviewed discharge no longer corresponds to the code")
    rep.floor("C14-R1", 70)
    check_validator_placement(prog, rep, eng, roots)
    rep.floor("C14-R2", 23)
    # R3: the error paths (shared rules)
    sub = type(rep)("C14x")
    c07.run(prog, sub)
    for i in sub.instances:
        if i.rule == "C07-R2" or (i.rule == "C07-R4" and "check_hctl_var_support" in i.key):
            (rep.ok if i.verdict == "ok" else rep.violation if i.verdict == "violation" else rep.unresolved)("C14-R3", i.key.split(":", 1)[1], i.where, i.detail)
    sub2 = type(rep)("C14y")
    wildcards.check_context_presence(prog, sub2, "X")
    for i in sub2.instances:
        if "validate/" in i.key:
            (rep.ok if i.verdict == "ok" else rep.violation if i.verdict == "violation" else rep.unresolved)("C14-R3", i.key.split(":", 1)[1], i.where, i.detail)
    rep.floor("C14-R3", 9)


def verify_prerequisites(prog, rep, eng):
    """Re-verify what the table lines rely on; returns name -> bool."""
    out = {}
    en = E.EvalNode(prog)
    R = type(rep)
    # wild-card protocol
    sub = R("p1")
    if en.ok():
        cacheproto.check_eviction_and_counter(prog, sub, "X", en)
        cacheproto.check_scope_pairing(prog, sub, "X", en)
        wildcards.check_wildcard_binding(prog, sub, "X", en)
    out["wildcard-protocol"] = en.ok() and all(i.verdict == "ok" for i in sub.instances) and len(sub.instances) >= 10
    out["cache-one-key"] = en.ok() and any(i.key.endswith("one-key") and i.verdict == "ok" for i in sub.instances)
    # restrict guard: domain shapes equal their equations (emptiness test on exactly the new unit set)
    sub = R("p2")
    if en.ok():
        for key, shape, alts, kind, op in sem.domain_shapes():
            sem.check_shape(sub, "X", en, shape, alts, key)
        callers = [f for f in prog.lib_fns() if f is not en.fn and any(s.kind == "call" and s.is_call_to("restrict_stg_unit_bdd") for s in eng.summary(f).sites)]
    out["restrict-guard"] = en.ok() and all(i.verdict == "ok" for i in sub.instances) and len(sub.instances) >= 3 and not callers
    # jump arm first: the quantifier wrapper is only reached for non-jump operators
    ok = False
    if en.ok():
        sites = [s for s in terms.Engine(prog, inline=False).summary(en.fn).sites if s.kind == "call" and s.is_call_to("eval_hybrid_quantifier")]
        ok = bool(sites)
        for s in sites:
            prior_jump = False
            for c in s.pc:
                if c[0] == "match" and c[3] and len(c) > 5:
                    for d in c[5]:
                        if d[0] == "var" and str(d[1]).endswith("NodeType::Hybrid") and d[2] and d[2][0][0] == "var" and str(d[2][0][1]).endswith("HybridOp::Jump"):
                            prior_jump = True
            ok = ok and prior_jump
        others = [f for f in prog.lib_fns() if f is not en.fn and any(s.kind == "call" and s.is_call_to("eval_hybrid_quantifier") for s in eng.summary(f).sites)]
        ok = ok and not others
    out["jump-arm-first"] = ok
    # validators on every string entry path
    sub = R("p3")
    c07.run(prog, sub)
    out["validator:validate_props_and_rename_vars"] = all(i.verdict == "ok" for i in sub.instances if i.rule in ("C07-R4", "C07-R2"))
    sub4 = R("p4")
    roots = [f for f in pipelines.entry_points(prog) if any("str" in t for t in f.param_tys)]
    check_validator_placement(prog, sub4, eng, roots)
    out["validator:check_hctl_var_support"] = all(i.verdict == "ok" for i in sub4.instances if "support" in i.key or "trees-from-validator" in i.key)
    sub5 = R("p5")
    wildcards.check_context_presence(prog, sub5, "X")
    out["validator:validate_and_divide_wild_cards"] = all(i.verdict == "ok" for i in sub5.instances) and len(sub5.instances) >= 10
    # plain mode produces no domains / wild-cards
    sub6 = R("p6")
    c05.check_tokenizer(prog, sub6)
    out["plain-mode-no-domains"] = all(i.verdict == "ok" for i in sub6.instances if i.rule == "C05-R3") and sum(1 for i in sub6.instances if i.rule == "C05-R3") >= 12
    # one result per input: the batch drivers push exactly one result per iterated tree and parse_and_validate one tree per formula
    ok = True
    for path in ("model_checking::_model_check_multiple_trees_dirty", "model_checking::_model_check_multiple_extended_formulae_dirty",
                 "model_checking::parse_and_validate", "model_checking::parse_and_validate_extended"):
        f = prog.lib_fn(path)
        if f is None:
            ok = False
            continue
        s = eng.summary(f)
        fors = [x for x in s.sites if x.kind == "for"]
        pushes = [x for x in s.sites if x.kind == "mcall" and x.name == "push"]
        if len(fors) != 1 or len(pushes) != 1 or fors[0].node["id"] not in pushes[0].loops or len(pushes[0].loops) != 1:
            ok = False
            continue
        # no `continue` / filter that skips an element without pushing; early exits are `return Err` only
        if any(x.kind == "continue" for x in s.sites):
            ok = False
        if any(c[0] == "if" for c in pushes[0].pc if not (c[0] == "if" and not c[2])):
            # the push may only be preceded by diverging error checks (conditions known false)
            if any(c[0] == "if" and c[2] for c in pushes[0].pc):
                ok = False
    # the sanitising wrappers map one-to-one
    for path in ("model_checking::_model_check_multiple_trees", "model_checking::_model_check_multiple_extended_formulae"):
        f = prog.lib_fn(path)
        if f is None:
            ok = False
            continue
        s = eng.summary(f)
        if not any(x.kind == "mcall" and x.name == "map" for x in s.sites) or any(x.kind == "mcall" and x.name in ("filter", "filter_map", "skip", "take", "flat_map") for x in s.sites):
            ok = False
    out["one-result-per-input"] = ok
    # closed results: C03-R3 (projection of own variables, cache admission)
    sub7 = R("p7")
    if en.ok():
        for key, shape, alts, kind, op in sem.plain_shapes() + sem.domain_shapes():
            if kind == "hybrid":
                sem.check_shape(sub7, "X", en, shape, alts, key)
        cacheproto.check_store_guard(prog, sub7, "X", en)
        cacheproto.check_read_guard(prog, sub7, "X", en)
    out["closed-results"] = en.ok() and all(i.verdict == "ok" for i in sub7.instances) and len(sub7.instances) >= 10
    for k, v in sorted(out.items()):
        rep.check(v, "C14-R1", f"prerequisite/{k}", "", "prerequisite of the discharge table holds", f"prerequisite `{k}` of the discharge table does not hold on this tree")
    return out


def check_validator_placement(prog, rep, eng, roots):
    for name, extended in (("parse_and_validate", False), ("parse_and_validate_extended", True)):
        f = prog.lib_fn("model_checking::" + name)
        if f is None:
            rep.unresolved("C14-R2", name, "", "function not found")
            continue
        rep.functions.add(f.qual)
        s = eng.summary(f)
        pn = f.param_names()
        graph = ("param", pn[1])
        where = f"{f.file}:{f.line}"
        pushes = [x for x in s.sites if x.kind == "mcall" and x.name == "push"]
        parse = [x for x in s.sites if x.kind == "call" and x.is_call_to("parse_and_minimize_extended_formula" if extended else "parse_and_minimize_hctl_formula")]
        good = len(pushes) == 1 and len(parse) == 1
        if not good:
            rep.unresolved("C14-R2", f"{name}/shape", where, f"{len(pushes)} pushes, {len(parse)} parser calls")
            continue
        tree = pushes[0].args[1]
        rep.check(tree == ("proj", parse[0].term, "std::result::Result::Ok", 0) and parse[0].args[0] == ("call", parse[0].args[0][1], (graph,)) if parse[0].args[0][0] == "call" else False,
                  "C14-R2", f"{name}/parsed", pushes[0].where(), "pushed tree = `?` of the parser + preprocessing on the graph's symbolic context",
                  f"pushed tree is {sem.short(tree, 100)}")
        # support check for that tree, Err otherwise
        sup = [x for x in s.sites if x.kind == "call" and x.is_call_to("check_hctl_var_support") and x.args[0] == graph and x.args[1] == tree]
        guarded = bool(sup) and any(c[0] == "if" and not c[2] and c[1] == ("not", sup[0].term) for c in pushes[0].pc)
        err = any(r[5] == "return" and r[0][0] == "ctor" and str(r[0][1]).endswith("Err") and any(c[0] == "if" and c[2] and sup and c[1] == ("not", sup[0].term) for c in r[1])
                  for r in s.returns)
        rep.check(guarded and err, "C14-R2", f"{name}/support", pushes[0].where(), "each tree is pushed only if the graph supports its variables; Err otherwise",
                  "a tree can be pushed without check_hctl_var_support(graph, that tree) having returned true (evaluation would panic in mk_var_by_name / get(index).unwrap())")
        if extended:
            val = [x for x in s.sites if x.kind == "call" and x.is_call_to("validate_and_divide_wild_cards") and x.args[0] == tree]
            tried = bool(val) and any(r[5] == "try" and r[0] == val[0].term for r in s.returns)
            before = bool(val) and val[0].line() <= pushes[0].line()
            rep.check(tried and before, "C14-R2", f"{name}/context", pushes[0].where(), "each tree is validated against the context, errors propagated",
                      "a tree can be pushed without validate_and_divide_wild_cards(that tree, context) having succeeded")
    deng = pipelines.driver_engine(prog, extra_opaque=["model_checking::parse_and_validate", "model_checking::parse_and_validate_extended"])
    for ep in roots:
        sm = deng.summary(ep)
        evs = pipelines.eval_sites(sm)
        pv = [x for x in sm.all_sites() if x.kind == "call" and x.is_call_to("parse_and_validate", "parse_and_validate_extended")]
        good = bool(evs) and len(pv) == 1
        why = f"{len(evs)} eval_node sites, {len(pv)} validator calls"
        if good:
            for ev in evs:
                if not any(y == pv[0].term for y in subterms(ev.args[0])):
                    good, why = False, "an evaluated tree does not come from parse_and_validate[_extended]"
                if ev.args[1] != pv[0].args[1]:
                    good, why = False, "the graph evaluated on is not the graph the trees were validated against"
            tried = any(r[5] == "try" and r[0] == pv[0].term for r in sm.returns) or any(x.kind == "try" and x.args[0] == pv[0].term for x in sm.all_sites())
            if not tried:
                good, why = False, "the validator's error is not propagated"
        rep.check(good, "C14-R2", f"{ep.name}/trees-from-validator", f"{ep.file}:{ep.line}", "evaluates only validated trees on the validated graph, errors propagated", why)
