"""C14 - invalid input is rejected with an error, never a panic or a silent answer.

Decided here (the "error exactly when" half quantifies over strings and is not decided):
  C14-R1  panic-site inventory: every panic-capable construct (unwrap / expect, unreachable! / panic!, indexing and
          slicing, `usize` subtraction, the library calls known to panic) in a function reachable from one of the 17
          string entry points (call graph over resolved callees, Display impls included) is discharged by
            G1  an automatic argument on normalised terms and path conditions:
                the unwrapped value is Some(..) / Ok(..) by construction (e.g. a look-up right after the insertion of the key);
                a test `is Some / contains_key / if let / let-else / ?` of the same value (for maps: same key, and only
                key-preserving updates of the map in between) dominates the use;
                position(..) = Some(i) dominates tokens[i], tokens[..i], tokens[i+1..]; i > 0 dominates tokens[i-1], i - 1;
                len / emptiness tests dominate literal indices; results[n] where the length of the collection is known
                symbolically (every function on the way returns one result per input, applied to a `vec![..]` literal);
                `unreachable!` behind a test that cannot fail (the token at a searched position is of the class the search
                accepts - classes are evaluated, unit propagation over the path condition);
                a path condition that contradicts itself (conditions, excluded earlier arms and their guards as clauses, unit
                propagation, each literal simplified under the others - case collapse of `ite`, get-after-insert, ..), for an
                unwrap also together with `the value is None / Err`; `i < x.len()` on the same index dominates x[i];
                a case split on the shape of the tree-node parameter or on an operator-kind parameter (partial evaluation per case);
                for a private helper: its copies inlined into the callers (closures and function values applied), or the same
                arguments at each of its call sites, with the caller's path condition;
            G2/G3  a line of tables/panic_discharge.json, keyed by source file, kind and *where the operand comes from* (callee /
                field / map), not by the enclosing function, whose prerequisites (validators on every path, cache protocol,
                restrict guard, plain mode without domains, closed results) are re-verified on every run;
          a site that is neither is a violation;
  C14-R2  validator placement (escape analysis): in parse_and_validate[_extended] a parsed tree can reach the result (be pushed,
          collected or returned) only under check_hctl_var_support(graph, that tree) and, extended,
          validate_and_divide_wild_cards(that tree, context) having succeeded; the parser receives the graph's symbolic context;
          every string entry point evaluates only trees that come out of those two functions, on the graph that was checked,
          and propagates their errors;
  C14-R3  the errors the property lists are produced as Err values on their own paths (free / re-quantified variable,
          unknown proposition, missing context label, too few variable sets) - shared with C07-R1/R4 and C02-R4."""
import json
import os

import c05
import c07
import cacheproto
import callgraph
import evalnode as E
import lengths
import pipelines
import q
from norm import GET, SOME
from norm import OK as norm_OK
import semantics as sem
import terms
import wildcards
from terms import subterms, pt, ppc, place_path

LEVEL = "other"
TABLE = os.path.join(os.path.dirname(os.path.dirname(os.path.abspath(__file__))), "tables", "panic_discharge.json")
PANIC_LIB = ("mk_var_by_name", "from_string", "with_custom_context")


def last(p):
    return p.rsplit("::", 1)[-1] if isinstance(p, str) else ""


def strip_not(t):
    neg = False
    while isinstance(t, tuple) and t and t[0] == "not":
        neg = not neg
        t = t[1]
    return t, neg


def pc_has(pc, pred):
    """Some condition of the path condition satisfies pred(term, polarity)."""
    for c in pc:
        if c[0] == "if":
            t, neg = strip_not(c[1])
            pol = c[2] != neg
            if pred(t, pol):
                return True
            # conjunctions taken on their true branch
            if c[2] and c[1][0] == "bin" and c[1][1] == "&&":
                stack = [c[1]]
                while stack:
                    x = stack.pop()
                    if x[0] == "bin" and x[1] == "&&":
                        stack += [x[2], x[3]]
                    else:
                        tt, ng = strip_not(x)
                        if pred(tt, not ng):
                            return True
        elif c[0] == "match":
            if pred(("matches", c[1], c[2]), c[3]):
                return True
    return False


def place_name(m):
    r = q.root_place(m)
    if r[0] == "ite":
        a, b = place_name(r[2]), place_name(r[3])
        if a == b:
            return a
    if r[0] == "field":
        return r[2]
    if r[0] == "call":
        return last(r[1])
    if r[0] in ("loopvar", "mu"):
        return str(r[2])
    if r[0] == "param":
        return "param"
    return r[0]


def origin(t, depth=0):
    """Where a value comes from: the callee / field / map it was obtained from (independent of the enclosing function)."""
    if not isinstance(t, tuple) or not t or depth > 20:
        return "?"
    g = q.as_get(t)
    if g is not None:
        return f"get({place_name(g[0])})"
    if t[0] == "call" and last(t[1]) in ("get", "get_mut", "first", "last") and t[2]:
        return f"{last(t[1])}({place_name(t[2][0])})"
    if t[0] == "call":
        return last(t[1])
    if t[0] == "hof":
        return t[1]
    if t[0] in ("proj", "tproj", "mut"):
        return origin(t[1], depth + 1)
    if t[0] == "field":
        return "." + t[2]
    if t[0] == "ite":
        a, b = origin(t[2], depth + 1), origin(t[3], depth + 1)
        return a if a == b else "ite"
    if t[0] in ("loopvar", "mu"):
        return str(t[2])
    return t[0]


def is_map_node(n):
    ty = str((n or {}).get("ty", ""))
    return "HashMap<" in ty or "BTreeMap<" in ty


def describe(st):
    """(kind, what) of a panic-capable site, or None.  `what` names the operation and where its operand comes from."""
    if st.kind == "mcall" and st.name in ("unwrap", "expect", "unwrap_err", "expect_err"):
        return "unwrap", origin(st.args[0])
    if st.kind == "call" and isinstance(st.callee, str) and ("panicking" in st.callee or last(st.callee) in ("unreachable", "panic", "panic_fmt", "assert_failed")):
        return "panic", panic_what(st) if "unreachable" in pt(st.args[0] if st.args else ()) else "panic"
    if st.kind == "index":
        base, i = st.args
        if is_map_node(st.argnodes[0] if st.argnodes else None):
            return "index", f"map:{place_name(base)}"
        return "index", f"{origin(base)}[0]" if i == ("lit", 0) else f"{origin(base)}[..]"
    if st.kind == "arith" and st.name in ("-", "/", "%") and ("usize" in str(st.ty) or "u32" in str(st.ty) or "u16" in str(st.ty)):
        return "arith", f"{origin(st.args[0])}{st.name}{pt(st.args[1]) if st.args[1][0] == 'lit' else '_'}"
    if st.kind in ("call", "mcall") and isinstance(st.callee, str) and last(st.callee) in PANIC_LIB:
        return "lib", last(st.callee)
    return None


KEY_PRESERVING = {"get_mut", "insert", "entry", "extend", "push", "or_insert", "or_insert_with", "or_default", "iter_mut", "values_mut", "get", "iter", "len",
                  "contains_key", "and_modify"}


def peel(t):
    """(root place, effects) of a place term with its in-place updates removed."""
    effs = []
    n = 0
    while isinstance(t, tuple) and t and n < 60:
        n += 1
        if t[0] == "mut":
            effs.append(t[2])
            t = t[1]
        elif t[0] == "field":
            r, e = peel(t[1])
            return ("field", r, t[2]), effs + e
        else:
            break
    return t, effs


def key_preserving(e):
    if e[0] == "call":
        return last(e[1]) in KEY_PRESERVING
    if e[0] == "assign":
        v = e[2]
        return v[0] == "bin" and q.as_at(v[2]) is not None          # `*m.get_mut(k).unwrap() op= ..` updates an entry in place
    return False


def same_map(a, b):
    """b is the map a, possibly after in-place updates that remove no key."""
    ra, ea = peel(a)
    rb, eb = peel(b)
    if ra != rb:
        return False
    extra = eb[:len(eb) - len(ea)] if len(eb) >= len(ea) and (not ea or eb[len(eb) - len(ea):] == ea) else None
    return extra is not None and all(key_preserving(e) for e in extra)


def known_some(pc, x):
    """The path condition contains the test `x is Some / Ok` (for map look-ups: on the same map and key)."""
    gx = q.as_get(x)
    for t, pol in q.conds(pc):
        if not pol:
            continue
        y = q.is_some_test(t)
        if y is None:
            y = q.is_ok_test(t)
        if y is None:
            continue
        if y == x:
            return True
        gy = q.as_get(y)
        if gx is not None and gy is not None and gx[1] == gy[1] and same_map(gy[0], gx[0]):
            return True
    return False


def pc_true(pc, pred):
    return any(pol and pred(t) for t, pol in q.conds(pc))


def pc_infeasible(pc):
    """The path condition contradicts itself: its conditions (with the arms a `match` arm excludes) are put into clauses, units are
    propagated, and every literal is simplified under the others (case collapse of `ite`, idiom normal forms such as get-after-insert).
    A literal that simplifies to the opposite truth value means that no execution reaches the site."""
    import norm as _norm
    nz = _norm.Normalizer()
    conds = []
    for c in pc:
        if c[0] == "if":
            conds.append((c[1], bool(c[2])))
        elif c[0] == "match":
            conds.append((("matches", c[1], c[2]), bool(c[3])))
            if c[3]:
                for d in (c[5] if len(c) > 5 else ()):
                    conds.append((("matches", c[1], d), False))
                for d, g in (c[7] if len(c) > 7 else ()):
                    conds.append((("bin", "&&", ("matches", c[1], d), g), False))
    clauses = []
    for t, pol in conds:
        x, p = terms._strip_not(nz(decompose_matches(nz(t))), pol)
        clauses += terms.to_clauses(x, p)
    if len(clauses) > 60:
        return False
    pr = terms.propagate_clauses([], clauses)
    if pr is None:
        return True
    lits, rest = pr
    for i, (x, p) in enumerate(lits):
        if x[0] == "lit":
            continue
        others = lits[:i] + lits[i + 1:]
        x2, p2 = terms._strip_not(nz(terms._assume(x, others, rest, 0)), p)
        if x2[0] == "lit" and isinstance(x2[1], bool) and x2[1] != p2:
            return True
    return False


def g1_discharged(st, kind, what, fn_summ):
    pc = st.pc
    if kind in ("panic", "unwrap") and pc_infeasible(pc):
        return "the path condition of the site contradicts itself (no execution reaches it)"
    if kind == "unwrap":
        recv = st.args[0]
        if recv[0] == "ctor" and last(recv[1]) in ("Some", "Ok"):
            return "the value is Some(..) / Ok(..) by construction"
        if known_some(pc, recv):
            return "a test `is Some / contains_key` on the same value dominates the unwrap"
        import norm as _norm
        ty = str(getattr(st, "ty", "") or "")
        argty = str((st.argnodes[0] or {}).get("ty", "")) if getattr(st, "argnodes", None) else ""
        which = _norm.OK_DESC if "Result<" in argty else _norm.SOME_DESC
        if pc_infeasible(tuple(pc) + (("if", ("matches", recv, which), False, None),)):
            return "the path condition together with `the value is None / Err` contradicts itself: the value is Some / Ok whenever the site is reached"
        return None
    if kind == "index":
        base, idx = st.args
        import norm as _norm
        whole = _norm.Normalizer()(("index", base, idx))
        if whole[0] == "index":
            base, idx = whole[1], whole[2]
        if what.startswith("map:"):
            if known_some(pc, ("call", GET, (base, idx))):
                return "contains_key(map, key) dominates map[key]"
            return None
        tbl = enum_table_index(st)
        if tbl:
            return tbl
        ec = enumerate_counter_index(base, idx)
        if ec:
            return ec
        # a constant index below a position that was found in the same slice: `position(..) == Some(m)` means len > m
        found_at = None
        for t, pol in closure(pc):
            if pol and t[0] == "bin" and t[1] == "==":
                for a_, b_ in ((t[2], t[3]), (t[3], t[2])):
                    if a_[0] == "lit" and isinstance(a_[1], terms.Int) and b_[0] == "proj" and b_[3] == 0 and str(b_[2]).endswith("Some") and slice_of(b_[1]) == base:
                        found_at = max(found_at or 0, int(a_[1]))
        if found_at is not None:
            n_ = None
            if idx[0] == "lit" and isinstance(idx[1], terms.Int):
                n_ = int(idx[1])
            elif idx[0] == "struct" and str(idx[1]).endswith(("RangeFrom", "RangeTo")):
                b_ = dict(idx[2]).get("start" if str(idx[1]).endswith("RangeFrom") else "end")
                if b_ is not None and b_[0] == "lit" and isinstance(b_[1], terms.Int):
                    n_ = int(b_[1]) - 1
            if n_ is not None and n_ <= found_at:
                return f"position(..) == Some({found_at}) in the same slice dominates the constant index"
        pos = position_index(idx)
        if pos is not None and not known_some(pc, pos[0]) and any(c[0] == "closure" for c in pc) and fn_summ is not None:
            # `position(..).map(|i| (&xs[..i], &xs[i + 1..]))`: the closure of an Option combinator only runs when the position was found
            outer = [fn_summ.ret] + [r[0] for r in fn_summ.returns] + [a for x in fn_summ.all_sites() for a in (x.args or []) if isinstance(a, tuple)]
            in_comb = any(y[0] == "hof" and y[1] in ("map", "and_then", "is_some_and", "map_or", "map_or_else", "filter", "inspect") and y[2] == pos[0]
                          for t_ in outer if isinstance(t_, tuple) for y in [t_] + list(subterms(t_)))
            if in_comb and slice_of(pos[0]) == base and pos[1] != "i-1":
                return "inside the closure of an Option combinator on position(..): the position was found"
        if pos is not None and known_some(pc, pos[0]):
            # tokens[i], tokens[..i], tokens[i+1..]: i is a valid position of the same slice
            if slice_of(pos[0]) == base:
                if pos[1] == "i-1":
                    i = ("proj", pos[0], SOME, 0)
                    if positive(pc, i):
                        return "i > 0 dominates tokens[i - 1]"
                    return None
                return "position(..) = Some(i) dominates tokens[i] / tokens[..i] / tokens[i+1..]"
        # x[i] under the dominating test `i < x.len()` on the very same index term and the very same (unmodified) sequence
        ln_ = lambda t: t[0] == "call" and last(t[1]) in ("len", "#len") and t[2] == (base,)      # noqa: E731
        if idx[0] not in ("struct", "lit") and not terms.contains(base, lambda z: z[0] in ("mut", "loopvar", "mu")):
            for t, pol in closure(pc):
                if t[0] == "bin" and ((pol and ((t[1] == "<" and t[2] == idx and ln_(t[3])) or (t[1] == ">" and t[3] == idx and ln_(t[2]))))
                                      or (not pol and ((t[1] == ">=" and t[2] == idx and ln_(t[3])) or (t[1] == "<=" and t[3] == idx and ln_(t[2]))))):
                    return "i < len(x) dominates x[i]"
        if idx[0] == "lit" and isinstance(idx[1], terms.Int):
            n = int(idx[1])
            ln = lambda t: t[0] == "call" and last(t[1]) in ("len", "#len") and t[2] == (base,)       # noqa: E731
            for t, pol in q.conds(pc):
                if t[0] == "bin" and pol:
                    for x, y, op in ((t[2], t[3], t[1]), (t[3], t[2], {"==": "==", ">": "<", "<": ">", ">=": "<=", "<=": ">=", "!=": "!="}.get(t[1]))):
                        if ln(x) and y[0] == "lit" and isinstance(y[1], terms.Int):
                            m = int(y[1])
                            if (op == "==" and m > n) or (op == ">=" and m > n) or (op == ">" and m >= n):
                                return f"len {op} {m} dominates [{n}]"
                if n == 0 and t[0] == "call" and last(t[1]) in ("is_empty", "#is_empty") and t[2] == (base,) and not pol:
                    return "!is_empty dominates [0]"
        return None
    if kind == "arith":
        a, b = st.args
        if st.name == "-" and b == ("lit", 1) and positive(pc, a):
            return "i > 0 dominates i - 1"
        return None
    if kind == "panic":
        return parser_unreachable(pc)
    return None


_PROG = None


def enumerate_counter_index(base, idx):
    """xs[..i], xs[i], xs[i + 1..] with i the counter of `xs.iter().enumerate()`: i < xs.len() for every element that is produced."""
    import norm as _norm

    def counter_of(t):
        if t[0] == "tproj" and str(t[2]) == "0" and t[1][0] == "elem":
            src = _norm.strip_adapters(t[1][1])
            if src[0] == "call" and last(src[1]) == "enumerate" and len(src[2]) == 1:
                return _norm.strip_adapters(src[2][0])
        return None
    b = _norm.strip_adapters(base)
    if terms.contains(b, lambda z: z[0] in ("mut", "loopvar", "mu")):
        return None
    i = None
    if idx[0] == "struct":
        d = dict(idx[2])
        if str(idx[1]).endswith("RangeTo"):
            i = d.get("end")
        elif str(idx[1]).endswith("RangeFrom"):
            s_ = d.get("start", ())
            i = s_[2] if s_ and s_[0] == "bin" and s_[1] == "+" and s_[3] == ("lit", 1) else s_
    else:
        i = idx
    if isinstance(i, tuple) and i and counter_of(i) == b:
        return "the index is the counter of an enumeration of the same slice (i < len)"
    return None


def enum_table_index(st):
    """`TABLE[variant as usize]`: the discriminant of a field-less enum without explicit discriminants is smaller than its number of
    variants, so a literal table with at least that many entries is indexed in bounds."""
    base = st.args[0]
    while base[0] == "call" and isinstance(base[1], str) and last(base[1]) in ("clone", "deref", "borrow", "as_slice", "as_ref") and len(base[2]) == 1:
        base = base[2][0]
    idx = st.args[1]
    if base[0] != "array" or _PROG is None or not (idx[0] == "call" and isinstance(idx[1], str) and idx[1].startswith("#discriminant:")):
        return None
    ty = idx[1].split(":", 1)[1]
    adt = _PROG.adts.get(ty)
    if adt and adt.get("kind") == "enum" and adt.get("variants") and len(adt["variants"]) <= len(base[1]) \
            and all(not v.get("fields") and v.get("explicit_discr") is False for v in adt["variants"]):
        return f"the index is the discriminant of {ty.rsplit('::', 1)[-1]} ({len(adt['variants'])} field-less variants) into a table of {len(base[1])} entries"
    return None


def closure(pc):
    """Atomic facts of a path condition, closed under unit propagation: !(A && B), A |- !B;  (A || B), !A |- B."""
    known = list(q.conds(pc))
    for c in pc:
        if c[0] == "match":
            known.append((("matches", c[1], c[2]), bool(c[3])))
    return propagate(known)


def propagate(known):
    known = list(known)
    changed = True
    n = 0
    while changed and n < 10:
        changed = False
        n += 1
        for t, pol in list(known):
            if t[0] == "bin" and ((t[1] == "&&" and not pol) or (t[1] == "||" and pol)):
                a, b = t[2], t[3]
                want = (t[1] == "&&")            # the value of the other operand that decides nothing
                for x, y in ((a, b), (b, a)):
                    neg = False
                    xx = x
                    while xx[0] == "not":
                        xx, neg = xx[1], not neg
                    if (xx, want != neg) in known:
                        yy, p2 = y, not want
                        while yy[0] == "not":
                            yy, p2 = yy[1], not p2
                        if yy[0] == "bin" and yy[1] == "&&" and p2:
                            new = [(yy[2], True), (yy[3], True)]
                        else:
                            new = [(yy, p2)]
                        for f_ in new:
                            if f_ not in known:
                                known.append(f_)
                                changed = True
    return known


def search_facts(pc):
    """[(slice S, position term POS, index i, class of the searched tokens, i == 0 known)] for the successful searches on the path."""
    import parserspec as PS
    out = []
    known = closure(pc)
    for t, pol in known:
        x = q.is_some_test(t)
        if pol and x is not None and x[0] == "hof" and x[1] in ("position",):
            S = slice_of(x)
            elem = next((y for y in subterms(x[3]) if y[0] == "elem"), None)
            cls = PS.pred_class(_PROG, x[3], elem) if elem is not None and _PROG is not None else None
            if S is not None and cls:
                i = ("proj", x, SOME, 0)
                out.append((S, x, i, cls, not positive_unknown(known, i)))
    return out


def positive_unknown(known, i):
    """False iff the facts say i == 0 (i > 0 is known to be false)."""
    for t, pol in known:
        if t[0] == "bin" and ((t[1] == ">" and t[2] == i and t[3] == ("lit", 0) and not pol) or (t[1] == "==" and i in (t[2], t[3]) and ("lit", 0) in (t[2], t[3]) and pol)
                              or (t[1] == "!=" and i in (t[2], t[3]) and ("lit", 0) in (t[2], t[3]) and not pol)):
            return False
    return True


def parser_unreachable(pc):
    """The panic is behind a test that cannot fail: tokens[i] is matched against a pattern covering the class of tokens that the
    search for position i accepts (`match` with a catch-all arm, `let .. else`, `if let .. else`, slice patterns when i == 0)."""
    import parserspec as PS
    facts = search_facts(pc)
    if not facts:
        return None

    def provable(t):
        if t[0] == "bin" and t[1] == "&&":
            return provable(t[2]) and provable(t[3])
        if t[0] == "not" and t[1][0] == "call" and t[1][1] == "#is_empty":
            return any(S == t[1][2][0] for S, _, _, _, _ in facts)
        if t[0] == "bin" and t[1] == ">=" and t[2][0] == "call" and t[2][1] == "#len" and t[3] == ("lit", 1):
            return any(S == t[2][2][0] for S, _, _, _, _ in facts)
        if t[0] == "matches" and t[1][0] == "index":
            for S, pos, i, cls, zero in facts:
                if t[1][1] == S and (t[1][2] == i or (zero and t[1][2] == ("lit", 0))):
                    c = PS.desc_class(_PROG, t[2])
                    if c is not None and cls <= c:
                        return True
        return False
    for t, pol in closure(pc):
        if not pol and provable(t):
            return "the failed test cannot fail: the token at the searched position is of the class the search accepts"
    for c in pc:
        if c[0] == "match" and c[3] and c[2][0] == "wild" and c[1][0] == "index" and len(c) > 5 and c[5]:
            for S, pos, i, cls, zero in facts:
                if c[1][1] == S and (c[1][2] == i or (zero and c[1][2] == ("lit", 0))):
                    arm_cls = set()
                    for d in c[5]:
                        x = PS.desc_class(_PROG, d)
                        if x:
                            arm_cls |= x
                    if cls <= arm_cls:
                        return "the searched predicate holds at tokens[i], and its pattern is matched by an earlier arm"
        if c[0] == "match" and c[3] and c[2][0] == "wild" and len(c) > 5 and c[5]:
            # `match &tokens[i..] { [P, rest @ ..] => .., _ => unreachable!() }` (also `match tokens` when i == 0): the slice from a
            # found position is not empty and starts with a token of the searched class
            for S, pos, i, cls, zero in facts:
                from_i = c[1][0] == "index" and c[1][1] == S and c[1][2][0] == "struct" and last(c[1][2][1]) == "RangeFrom" and dict(c[1][2][2]).get("start") == i
                if not (from_i or (zero and c[1] == S)):
                    continue
                arm_cls = set()
                for d in c[5]:
                    if d[0] == "slice" and len(d[1]) == 1 and d[2] and not d[3]:
                        x = PS.desc_class(_PROG, d[1][0])
                        if x:
                            arm_cls |= x
                if cls <= arm_cls:
                    return "the slice from the searched position starts with a token of the searched class, which an earlier arm's slice pattern matches"
    return None


def positive(pc, i):
    for t, pol in closure(pc):
        if t[0] != "bin":
            continue
        if pol and ((t[1] == ">" and t[2] == i and t[3] == ("lit", 0)) or (t[1] == "<" and t[3] == i and t[2] == ("lit", 0))
                    or (t[1] == ">=" and t[2] == i and t[3] == ("lit", 1)) or (t[1] == "!=" and ("lit", 0) in (t[2], t[3]) and i in (t[2], t[3]))):
            return True
        if (not pol) and ((t[1] == "==" and ("lit", 0) in (t[2], t[3]) and i in (t[2], t[3])) or (t[1] == "<=" and t[2] == i and t[3] == ("lit", 0))
                          or (t[1] == "<" and t[2] == i and t[3] == ("lit", 1))):
            return True
    return False


def generic_class(d):
    if d[0] == "var" and str(d[1]).endswith("HctlToken::Binary") and d[2] and d[2][0][0] == "wild":
        return {"And", "Or", "Xor", "Imp", "Iff", "EU", "AU", "EW", "AW"}
    return None


def generic_cover(cls, prior):
    for d in prior:
        g = generic_class(d)
        if g and cls <= g:
            return True
    return False


def position_index(idx):
    """idx is i, i - 1, RangeTo{end: i}, RangeFrom{start: i + 1} for i = proj(POS, Some, 0): returns (POS, which)."""
    def base_i(t):
        if t[0] == "proj" and t[3] == 0 and str(t[2]).endswith("Some"):
            return t[1]
        return None
    p = base_i(idx)
    if p is not None:
        return p, "i"
    if idx[0] == "bin" and idx[1] == "-" and idx[3] == ("lit", 1) and base_i(idx[2]) is not None:
        return base_i(idx[2]), "i-1"
    if idx[0] == "struct":
        d = dict(idx[2])
        if str(idx[1]).endswith("RangeTo") and base_i(d.get("end", ())) is not None:
            return base_i(d["end"]), "..i"
        if str(idx[1]).endswith("RangeFrom"):
            s = d.get("start", ())
            if s and s[0] == "bin" and s[1] == "+" and s[3] == ("lit", 1) and base_i(s[2]) is not None:
                return base_i(s[2]), "i+1.."
    return None


def slice_of(pos):
    """The slice a position term was computed on: hof position over iter(S), or a local index_of_first*(S, ..) helper."""
    if pos[0] == "hof" and pos[1] in ("position",):
        r = pos[2]
        if r[0] == "call" and last(r[1]) == "iter":
            return r[2][0]
    if pos[0] == "call" and isinstance(pos[1], str) and last(pos[1]) == "position" and "Iterator" in pos[1] and len(pos[2]) == 2:
        # Iterator::position with a function value (a predicate parameter): a position of the iterated slice whatever the predicate is
        r = pos[2][0]
        if r[0] == "call" and last(r[1]) == "iter":
            return r[2][0]
    if pos[0] in ("call", "rec") and last(pos[1]).startswith("index_of_first"):
        return pos[2][0]
    return None



def panic_what(st):
    """`unreachable:<enum>::<variant reached>` from the innermost pattern test on the path to the panic."""
    def enum_of(d):
        if d[0] == "var" and isinstance(d[1], str) and "::" in d[1]:
            return d[1].split("::")[-2], d[1].split("::")[-1]
        if d[0] == "or" and d[1]:
            return enum_of(d[1][0])
        return None
    for c in reversed(st.pc):
        if c[0] == "match":
            prior = c[5] if len(c) > 5 else ()
            for x in (c[2],) + tuple(prior):
                e = enum_of(x)
                if e:
                    return f"unreachable:{e[0]}::{e[1] if x is c[2] else '_'}"
        if c[0] == "if":
            for y in [c[1]] + list(subterms(c[1])):
                if y[0] == "matches":
                    e = enum_of(y[2])
                    if e:
                        return f"unreachable:{e[0]}::{e[1] if c[2] else '_'}"
    return "unreachable"


def batch_of_one(st, kind, lens):
    """xs[n] where the length of xs is known: the result of length-preserving functions applied to vec![..] literals."""
    if kind != "index" or st.args[1][0] != "lit" or not isinstance(st.args[1][1], terms.Int):
        return None
    l = lens.lenof(st.args[0])
    if l[0] == "lit" and int(st.args[1][1]) < int(l[1]):
        return f"the indexed collection has exactly {l[1]} element(s): every function on the way returns one result per input"
    return None


def discharged_in_callers(prog, eng, f, st, kind, what, lens, reach):
    """A private helper's site is guarded in every caller: the arguments of each call are substituted for the parameters and
    the caller's path condition is added."""
    if f.vis == "pub" or "pub" in str(f.vis):
        return None
    pn = f.param_names()
    calls = []
    for qn in reach:
        g = prog.fns[qn]
        if g.crate != f.crate or g is f:
            continue
        for cs in eng.summary(g).all_sites():
            if cs.kind in ("call", "mcall") and isinstance(cs.callee, str) and prog.resolve_local(g.crate, cs.callee) is f:
                calls.append(cs)
    if not calls:
        return None
    # where the helper was inlined into its callers, the site is present there with the caller's context (closures and function
    # values passed to the helper are applied): that copy is examined
    deep = []
    callers_with_copy = set()
    for qn in reach:
        g = prog.fns[qn]
        if g.crate != f.crate or g is f:
            continue
        for x in eng.summary(g).deep_sites:
            if x.fn is st.fn and x.node is not None and st.node is not None and x.node.get("id") == st.node.get("id") and x.kind == st.kind:
                deep.append(x)
                callers_with_copy.add(qn)
    callers = {cs.fn.qual for cs in calls if cs.fn is not None and cs.fn is not f}
    if deep and callers and callers <= callers_with_copy:
        if all(g1_discharged(x, kind, what, None) or batch_of_one(x, kind, lens) for x in deep):
            return f"guarded in each of the {len(callers)} caller(s) this private helper is inlined into ({len(deep)} copies of the site)"
    for cs in calls:
        if len(cs.args) != len(pn):
            return None
        mapping = dict(zip(pn, cs.args))
        x = terms.Site(node=st.node, fn=st.fn, kind=st.kind, callee=st.callee, name=st.name, argnodes=st.argnodes, ty=st.ty, ordinal=st.ordinal,
                       args=[terms.subst(a, mapping) if isinstance(a, tuple) else a for a in st.args],
                       pc=tuple(cs.pc) + tuple((c[0], terms.subst(c[1], mapping)) + tuple(c[2:]) if c[0] in ("if", "match") else c for c in st.pc))
        if not (g1_discharged(x, kind, what, None) or batch_of_one(x, kind, lens)):
            return None
    return f"guarded at each of the {len(calls)} call site(s) of this private helper"


def all_shapes():
    c, l, r = ("param", "#c"), ("param", "#l"), ("param", "#r")
    out = [E.shape_atom("Var", ("lit", "v")), E.shape_atom("Prop", ("lit", "p")), E.shape_atom("True"), E.shape_atom("False"),
           E.shape_atom("WildCardProp", ("lit", "w")), E.shape_unary("Not", c), E.shape_binary("And", l, r)]
    for op in ("Bind", "Exists", "Forall", "Jump"):
        out.append(E.shape_hybrid(op, ("lit", "z"), None, c))
        out.append(E.shape_hybrid(op, ("lit", "z"), ("lit", "d"), c))
    return out


class PanicHooks(E.Hooks):
    """Besides the parser's search helpers, the private methods of the crate's own structs are inlined: `scope.renamed(v)` is the
    look-up it performs, `scope.quantify(v)` the insertion - so the guards and updates they contain are visible at the call site."""

    def __init__(self, prog, prefixes, opaque_names=()):
        super().__init__(prefixes, opaque_names=opaque_names)
        self.prog = prog

    def opaque(self, fn):
        if fn.path not in self.opaque_names and fn.vis != "Public" and "::" in fn.path and self.prog.adt(fn.path.rsplit("::", 1)[0]) is not None:
            pub_adt = False
            return pub_adt
        return super().opaque(fn)


def shape_summaries(prog, eng, f):
    """Case splits of f: specialisations for every shape of its tree-node parameter, and for every variant of a parameter of a local
    enum type with constant variants (an operator kind).  A list of alternative splits (each a list of summaries)."""
    pn = f.param_names()
    splits = []
    idx = [i for i, t in enumerate(f.param_tys) if t.replace("&", "").strip().endswith("HctlTreeNode")]
    for i, t in enumerate(f.param_tys):
        adt = prog.adt(t.replace("&", "").strip())
        if adt is not None and adt.get("kind") == "enum" and 1 < len(adt["variants"]) <= 12 and all(not v["fields"] for v in adt["variants"]):
            out = []
            for v in adt["variants"]:
                try:
                    s = eng.specialise(f, {pn[i]: ("ctor", adt["path"] + "::" + v["name"], ())})
                except Exception:
                    s = None
                if s is None:
                    out = []
                    break
                out.append(s)
            if out:
                splits.append(out)
    if len(idx) == 1:
        out = []
        for sh in all_shapes():
            try:
                s = eng.specialise(f, {pn[idx[0]]: E.node_term(sh)})
            except Exception:
                s = None
            if s is None:
                out = []
                break
            out.append(s)
        if out:
            splits.append(out)
    return splits


def discharged_per_shape(st, splits):
    for per_shape in splits or []:
        r = discharged_in_split(st, per_shape)
        if r:
            return r
    return None


def discharged_in_split(st, per_shape):
    if not per_shape:
        return None
    seen = 0
    for s in per_shape:
        for x in s.sites:
            if x.node is st.node or (x.node and st.node and x.node.get("id") == st.node.get("id") and x.fn is st.fn):
                d = describe(x)
                if d is None:
                    return None
                seen += 1
                if not g1_discharged(x, d[0], d[1], s):
                    return None
    if seen:
        return f"for every case of the node shape / operator kind the function works on ({seen} reachable cases) the site is guarded or its operand is Some(..) by construction"
    return None


def run(prog, rep):
    rep.explanation = __doc__
    rep.assumptions = ["L3", "L7 transfer_from returns None iff the BDD depends on a variable without a namesake in the target context",
                       "library functions not listed in PANIC_LIB do not panic on the arguments they receive"]
    rep.rule("C14-R1", "every reachable panic-capable site is discharged by a local guard or a reviewed, re-verified table line")
    rep.rule("C14-R2", "validators dominate evaluation in every string entry point")
    rep.rule("C14-R3", "the listed errors are produced as Err values")
    # the small search helpers of the parser are inlined so that `i` is visibly the first position of a predicate
    import parserspec as PS
    eng = terms.Engine(prog, inline=True, hooks=PanicHooks(prog, [PS.PARSER], opaque_names=[f.path for f in prog.lib_fns() if PS.is_level_fn(f)] + [PS.PARSER + "parse_hctl_tokens",
                                                                                   PS.PARSER + "parse_hctl_formula", PS.PARSER + "parse_extended_formula",
                                                                                   PS.PARSER + "parse_and_minimize_hctl_formula", PS.PARSER + "parse_and_minimize_extended_formula"]))
    global _PROG
    _PROG = prog
    edges = callgraph.build(prog, terms.Engine(prog, inline=False))
    roots = [f for f in pipelines.entry_points(prog) if any("str" in t for t in f.param_tys)]
    rep.check(len(roots) == 17, "C14-R2", "entry-points/count", "", f"{len(roots)} string entry points", f"{len(roots)} string entry points found, 17 expected")
    reach = callgraph.reachable(prog, edges, [f.qual for f in roots])
    with open(TABLE) as fh:
        table = {}
        for e in json.load(fh)["entries"]:
            for k in e["keys"]:
                table[k] = e
    prereq = verify_prerequisites(prog, rep, eng)
    lens = lengths.Lengths(prog, eng)
    n_sites = 0
    for qn in sorted(reach):
        f = prog.fns[qn]
        if f.crate != "biodivine_hctl_model_checker":
            continue
        rep.functions.add(qn)
        s = eng.summary(f)
        per_shape = None
        for st in s.sites:
            d = describe(st)
            if d is None:
                continue
            kind, what = d
            n_sites += 1
            rep.call_sites += 1
            stem = os.path.basename(f.file).rsplit(".", 1)[0]
            key = f"{stem}|{kind}|{what}"
            ikey = f"{f.path}/{kind}:{what}@{st.ordinal}"
            g1 = g1_discharged(st, kind, what, s) or batch_of_one(st, kind, lens)
            if not g1:
                # case split on the shape of the tree node the function works on
                if per_shape is None:
                    per_shape = shape_summaries(prog, eng, f)
                g1 = discharged_per_shape(st, per_shape)
            if not g1:
                g1 = discharged_in_callers(prog, eng, f, st, kind, what, lens, reach)
            if g1:
                rep.ok("C14-R1", ikey, st.where(), "G1: " + g1)
                continue
            e = table.get(key)
            if e is None and kind == "index":
                # `m[k]` / `xs[i]` panic exactly when `m.get(k).unwrap()` / `xs.get(i).unwrap()` do: the same reviewed reason applies
                base_what = what[4:] if what.startswith("map:") else what.rsplit("[", 1)[0]
                e = table.get(f"{stem}|unwrap|get({base_what})")
            if e is not None:
                missing = [r for r in e.get("requires", []) if not prereq.get(r, False)]
                if missing:
                    rep.violation("C14-R1", ikey, st.where(),
                                  f"panic site relies on `{e['reason']}`, but its prerequisite(s) {missing} no longer hold: the {kind} can fire on user input")
                else:
                    rep.ok("C14-R1", ikey, st.where(), f"{e['class']}: {e['reason']}")
                continue
            rep.violation("C14-R1", ikey, st.where(),
                          f"undischarged panic site reachable from the string entry points: `{kind} {what}` on {sem.short(st.args[0], 100) if st.args else ''} "
                          f"under [{ppc(st.pc)[-200:]}] has no dominating guard and no reviewed discharge (key {key})")
    rep.check(len(rep.functions) >= 60, "C14-R1", "coverage/functions", "", f"{len(rep.functions)} reachable functions analysed",
              f"only {len(rep.functions)} functions are reachable from the string entry points (at least 60 expected): the call graph is incomplete")
    rep.floor("C14-R1", 40)
    check_validator_placement(prog, rep, eng, roots)
    rep.floor("C14-R2", 23)
    # R3: the error paths (shared rules)
    sub = type(rep)("C14x")
    c07.run(prog, sub)
    for i in sub.instances:
        if i.rule == "C07-R2" or (i.rule == "C07-R4" and "check_hctl_var_support" in i.key):
            (rep.ok if i.verdict == "ok" else rep.violation if i.verdict == "violation" else rep.unresolved)("C14-R3", i.key.split(":", 1)[1], i.where, i.detail)
    sub2 = type(rep)("C14y")
    wildcards.check_context_presence(prog, sub2, "X")
    for i in sub2.instances:
        if "validate/" in i.key:
            (rep.ok if i.verdict == "ok" else rep.violation if i.verdict == "violation" else rep.unresolved)("C14-R3", i.key.split(":", 1)[1], i.where, i.detail)
    rep.floor("C14-R3", 9)


def uncovered_callers(prog, en, eng, callee):
    """Functions that call `callee` without that call being part of eval_node's summary (helpers of the evaluation layer are inlined
    there, so their calls are examined with eval_node's context; any other caller is outside the argument)."""
    covered = {(x.fn.qual, (x.node or {}).get("id")) for x in en.summ.all_sites() if x.kind == "call" and x.is_call_to(callee) and x.fn is not None}
    out = []
    for f in prog.lib_fns():
        for s_ in eng.summary(f).sites:
            if s_.kind == "call" and s_.is_call_to(callee) and (f.qual, (s_.node or {}).get("id")) not in covered:
                out.append(f)
                break
    return out


def decompose_matches(t, memo=None):
    """matches(x, V(p, q)) with non-trivial sub-patterns == matches(x, V(_, _)) && matches(x~V.0, p) && matches(x~V.1, q)."""
    if memo is None:
        memo = {}
    if not isinstance(t, tuple) or not t:
        return t
    hit = memo.get(id(t))
    if hit is not None and hit[0] is t:
        return hit[1]
    r = tuple(decompose_matches(x, memo) if isinstance(x, tuple) else x for x in t)
    if r[0] == "matches" and r[2][0] == "var" and r[2][2] and r[2][3] != "struct" and any(isinstance(sd, tuple) and sd and sd[0] not in ("wild",) for sd in r[2][2]):
        x, d = r[1], r[2]
        acc = ("matches", x, ("var", d[1], tuple(("wild",) for _ in d[2]), d[3]))
        for i, sd in enumerate(d[2]):
            if isinstance(sd, tuple) and sd and sd[0] != "wild":
                acc = ("bin", "&&", acc, decompose_matches(("matches", ("proj", x, d[1], i), sd), memo))
        r = acc
    elif all(a is b for a, b in zip(r, t)):
        r = t
    memo[id(t)] = (t, r)
    return r


def verify_prerequisites(prog, rep, eng):
    """Re-verify what the table lines rely on; returns name -> bool."""
    out = {}
    en = E.EvalNode(prog)
    R = type(rep)
    # wild-card protocol
    sub = R("p1")
    if en.ok():
        cacheproto.check_eviction_and_counter(prog, sub, "X", en)
        cacheproto.check_scope_pairing(prog, sub, "X", en)
        wildcards.check_wildcard_binding(prog, sub, "X", en)
    out["wildcard-protocol"] = en.ok() and all(i.verdict == "ok" for i in sub.instances) and len(sub.instances) >= 10
    out["cache-one-key"] = en.ok() and any(i.key.endswith("one-key") and i.verdict == "ok" for i in sub.instances)
    # restrict guard: domain shapes equal their equations (emptiness test on exactly the new unit set)
    sub = R("p2")
    if en.ok():
        for key, shape, alts, kind, op in sem.domain_shapes():
            sem.check_shape(sub, "X", en, shape, alts, key)
        callers = uncovered_callers(prog, en, eng, "restrict_stg_unit_bdd")
    out["restrict-guard"] = en.ok() and all(i.verdict == "ok" for i in sub.instances) and len(sub.instances) >= 3 and not callers
    # jump arm first: the quantifier wrapper is only reached for non-jump operators
    ok = False
    if en.ok():
        # on eval_node's summary (helpers of the layer inlined): wherever the wrapper is called, the operator cannot be Jump - the path
        # condition together with `operator is Jump` contradicts itself (an earlier Jump arm, a test, a dispatch in a helper ..)
        # the wrappers: the private functions of the evaluation layer that take the hybrid operator kind and dispatch on it (found by
        # their signature, not by name)
        wrappers = [f for f in prog.lib_fns() if f.path.startswith("evaluation::") and f is not en.fn
                    and any("operator_enums::HybridOp" in str(t) for t in f.param_tys)]
        jump = ("var", "preprocessing::operator_enums::HybridOp::Jump", (), None)
        ok = bool(wrappers)
        for wrapper in wrappers:
            opi = next((i for i, t in enumerate(wrapper.param_tys) if "HybridOp" in t), None)
            sites = [s for s in en.summ.all_sites() if s.kind in ("call", "mcall") and isinstance(s.callee, str) and prog.resolve_local(en.fn.crate, s.callee) is wrapper]
            ok = ok and bool(sites)
            for s in sites:
                if opi is None or opi >= len(s.args):
                    ok = False
                    continue
                ok = ok and pc_infeasible(tuple(s.pc) + (("if", ("matches", strip_clone(s.args[opi]), jump), True, None),))
            ok = ok and not uncovered_callers(prog, en, eng, wrapper.name)
    out["jump-arm-first"] = ok
    # validators on every string entry path
    sub = R("p3")
    c07.run(prog, sub)
    out["validator:validate_props_and_rename_vars"] = all(i.verdict == "ok" for i in sub.instances if i.rule in ("C07-R4", "C07-R2"))
    sub4 = R("p4")
    roots = [f for f in pipelines.entry_points(prog) if any("str" in t for t in f.param_tys)]
    check_validator_placement(prog, sub4, eng, roots)
    out["validator:check_hctl_var_support"] = all(i.verdict == "ok" for i in sub4.instances if "support" in i.key or "trees-from-validator" in i.key)
    sub5 = R("p5")
    wildcards.check_context_presence(prog, sub5, "X")
    out["validator:validate_and_divide_wild_cards"] = all(i.verdict == "ok" for i in sub5.instances) and len(sub5.instances) >= 10
    # plain mode produces no domains / wild-cards
    sub6 = R("p6")
    c05.check_tokenizer(prog, sub6)
    out["plain-mode-no-domains"] = all(i.verdict == "ok" for i in sub6.instances if i.rule == "C05-R3") and sum(1 for i in sub6.instances if i.rule == "C05-R3") >= 9
    # closed results: C03-R3 (projection of own variables, cache admission)
    sub7 = R("p7")
    if en.ok():
        for key, shape, alts, kind, op in sem.plain_shapes() + sem.domain_shapes():
            if kind == "hybrid":
                sem.check_shape(sub7, "X", en, shape, alts, key)
        cacheproto.check_store_guard(prog, sub7, "X", en)
        cacheproto.check_read_guard(prog, sub7, "X", en)
    out["closed-results"] = en.ok() and all(i.verdict == "ok" for i in sub7.instances) and len(sub7.instances) >= 10
    for k, v in sorted(out.items()):
        rep.check(v, "C14-R1", f"prerequisite/{k}", "", "prerequisite of the discharge table holds", f"prerequisite `{k}` of the discharge table does not hold on this tree")
    return out


def strip_clone(t):
    while isinstance(t, tuple) and t and t[0] == "call" and isinstance(t[1], str) and last(t[1]) in ("clone", "to_owned", "borrow", "as_ref", "deref") and len(t[2]) == 1:
        t = t[2][0]
    return t


def escapes(s, tree):
    """(where, value, conditions) for every place where `tree` leaves the function: stored into a collection or returned."""
    out = []
    has = lambda t: t == tree or any(y == tree for y in subterms(t))          # noqa: E731
    for x in s.all_sites():
        if x.kind == "mcall" and x.name in ("push", "push_back", "insert", "extend", "push_front") and any(has(a) for a in x.args[1:]):
            out.append((x.where(), x.args[1], q.conds(x.pc)))
    def direct(t):
        """tree occurs in t outside of values accumulated by loops / iterator pipelines (those are covered at their own sites)."""
        if t == tree:
            return True
        if not isinstance(t, tuple) or not t or t[0] in ("collect", "collectmap", "mu", "hof"):
            return False
        return any(direct(x) for x in t if isinstance(x, tuple))
    for r in s.returns:
        if r[5] != "try" and direct(r[0]):
            for conds, leaf in c07.leaves(r[0]):
                if direct(leaf):
                    out.append((f"{s.fn.file}:{r[4]['sp'][0] if r[4] and r[4].get('sp') else s.fn.line}", leaf, q.conds(r[1]) + list(conds)))
    # closures of iterator pipelines: map(|f| { ..; Ok(tree) }) - the conditions are the ite conditions of the body
    pushed = [x.args[1] for x in s.all_sites() if x.kind == "mcall" and x.name in ("push", "push_back", "insert", "extend", "push_front") and len(x.args) > 1]
    for y in [s.ret] + list(subterms(s.ret)) if s.ret else []:
        if y[0] in ("hof", "collect") and has(y):
            body = y[3] if y[0] == "hof" else y[2]
            if y[0] == "collect" and body in pushed:
                continue              # the closed form of a push loop: its pushes are listed above
            for conds, leaf in c07.leaves(body):
                if direct(leaf) and not (leaf[0] == "ctor" and last(leaf[1]) == "Err"):
                    out.append((f"{s.fn.file}:{s.fn.line}", leaf, list(conds)))
    return out


def check_validator_placement(prog, rep, eng, roots):
    veng = terms.Engine(prog, inline=True, hooks=E.Hooks(["model_checking::"]))
    vplain, vext = pipelines.validators(prog)
    for name, extended, f in (("parse_and_validate", False, vplain), ("parse_and_validate_extended", True, vext)):
        if f is None:
            rep.unresolved("C14-R2", name, "", "no function of the driver module calls the " + ("extended" if extended else "plain") + " parser + preprocessing")
            continue
        rep.functions.add(f.qual)
        s = pipelines.validator_summary(veng, f)
        pn = f.param_names()
        graph = ("param", pn[1])
        where = f"{f.file}:{f.line}"
        parse = [x for x in s.all_sites() if x.kind == "call" and x.is_call_to("parse_and_minimize_extended_formula" if extended else "parse_and_minimize_hctl_formula")]
        if len(parse) != 1:
            rep.unresolved("C14-R2", f"{name}/shape", where, f"{len(parse)} parser calls")
            continue
        ctx_ok = parse[0].args[0][0] == "call" and last(parse[0].args[0][1]) == "symbolic_context" and parse[0].args[0][2] == (graph,)
        tree = ("proj", parse[0].term, norm_OK, 0)
        for x in s.all_sites():
            for a_ in x.args or []:
                if isinstance(a_, tuple):
                    for y in [a_] + list(subterms(a_)):
                        if y[0] == "proj" and y[1] == parse[0].term and last(y[2]) == "Ok" and y[3] == 0:
                            tree = y
        esc = escapes(s, tree)
        # trees that escape without being the parsed tree itself (wrapped into something else) are not understood
        plain = [e for e in esc if strip_clone(e[1]) == tree or (e[1][0] == "ctor" and last(e[1][1]) == "Ok" and strip_clone(e[1][2][0]) == tree)
                 or strip_clone(e[1]) != e[1]]
        rep.check(bool(esc) and ctx_ok, "C14-R2", f"{name}/parsed", where, "the returned trees are `?` of the parser + preprocessing on the graph's symbolic context",
                  "no parsed tree reaches the result" if not esc else "the parser is not given the symbolic context of the graph the trees are validated against")
        sup_paths = pipelines.support_check_paths(prog)
        sup = lambda t: t[0] == "call" and isinstance(t[1], str) and (t[1].endswith("check_hctl_var_support") or t[1] in sup_paths) and len(t[2]) == 2 \
            and t[2][0] == graph and strip_clone(t[2][1]) == tree          # noqa: E731
        val = lambda t: q.is_ok_test(t) is not None and q.is_ok_test(t)[0] == "call" and q.is_ok_test(t)[1].endswith("validate_and_divide_wild_cards") \
            and strip_clone(q.is_ok_test(t)[2][0]) == tree and q.is_ok_test(t)[2][1] == ("param", pn[2])          # noqa: E731
        esc = [(w_, v_, propagate(q.conds([("if", t, pol) for t, pol in conds]))) for w_, v_, conds in esc]
        good_sup = bool(esc) and all(any(pol and sup(t) for t, pol in conds) for _, _, conds in esc)
        rep.check(good_sup, "C14-R2", f"{name}/support", where, "each tree reaches the result only if the graph supports its variables",
                  "a tree can reach the result without check_hctl_var_support(graph, that tree) having returned true (evaluation would panic in mk_var_by_name / get(index).unwrap())")
        if extended:
            good_val = bool(esc) and all(any(pol and val(t) for t, pol in conds) for _, _, conds in esc)

            rep.check(good_val, "C14-R2", f"{name}/context", where, "each tree is validated against the context before it reaches the result, errors propagated",
                      "a tree can reach the result without validate_and_divide_wild_cards(that tree, context) having succeeded")
    vnames = [f.path for f in (vplain, vext) if f is not None]
    deng = pipelines.driver_engine(prog, extra_opaque=vnames)
    for ep in roots:
        sm = deng.summary(ep)
        evs = pipelines.eval_sites(sm)
        vfns = [v_ for v_ in (vplain, vext) if v_ is not None]
        pv = [x for x in sm.all_sites() if x.kind == "call" and isinstance(x.callee, str) and prog.resolve_local(ep.crate, x.callee) in vfns]
        good = bool(evs) and len(pv) == 1
        why = f"{len(evs)} eval_node sites, {len(pv)} validator calls"
        if good:
            for ev in evs:
                if not any(y == pv[0].term for y in subterms(ev.args[0])):
                    good, why = False, "an evaluated tree does not come from parse_and_validate[_extended]"
                if ev.args[1] != pv[0].args[1]:
                    good, why = False, "the graph evaluated on is not the graph the trees were validated against"
            import norm as _norm
            nz_ = _norm.Normalizer()
            vt = nz_(pv[0].term)

            def carries(t):
                """t is the validator's result, or the collection of its results over the formulae (`map(validate).collect::<Result<..>>()`:
                the first error is the error of the collection)."""
                if t == pv[0].term:
                    return True
                n_ = nz_(t)
                return n_ == vt or (n_[0] == "collect" and len(n_) == 3 and n_[2] == vt)
            tried = any(r[5] == "try" and carries(r[0]) for r in sm.returns) or any(x.kind == "try" and carries(x.args[0]) for x in sm.all_sites())
            if not tried:
                good, why = False, "the validator's error is not propagated"
        rep.check(good, "C14-R2", f"{ep.name}/trees-from-validator", f"{ep.file}:{ep.line}", "evaluates only validated trees on the validated graph, errors propagated", why)
