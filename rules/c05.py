"""C05 - the parser accepts exactly the documented grammar and never drops input.

Decided here (language equality over all strings is not decidable statically):
  C05-R1  grammar recovery: from the call structure of the recursive-descent levels the table
          (operator class searched, callee of tokens[..i], callee of tokens[i+1..], fall-through callee) is recovered and
          compared with the precedence list of README.md: hybrid < iff < imp < or < xor < and < binary temporal < unary <
          atoms; binary levels send the prefix to the next tighter level and the suffix to themselves (right
          associativity) and build mk_binary(prefix, suffix, searched operator); prefix-operator levels (hybrid, unary)
          send the suffix to themselves; the terminal level re-enters the top level for a parenthesised group and
          returns its result unchanged; every BinaryOp variant is searched in exactly one level; no level has a mode
          parameter;
  C05-R2  token coverage: in a prefix-operator level the tokens before the first operator are not consumed by anybody,
          so the level must return Err whenever that prefix is non-empty: the Err path condition is equivalent to
          `i > 0` (a second conjunct `!P(tokens[i-1])` with P the searched class is vacuous because i is the first
          position satisfying P); the terminal level accepts only a single token;
  C05-R3  plain mode rejects extensions: every construction of Atomic::WildCardProp and of a `Some(domain)` in the
          tokenizer is control-dependent on the mode flag, try_tokenize_formula passes `false`, the extended entry
          `true`, recursion passes the flag on unchanged and `@` never allows a domain;
  C05-R4  look-ahead for operator characters that are also name characters: (a) every literal arm of the tokenizer for
          a name character (E, A, 3, V) has a guard that inspects the look-ahead; (b) the guards are evaluated
          abstractly on a finite partition of the next character: the E/A guard holds exactly for X,F,G,U,W; the 3/V
          guard is `next non-whitespace character is '{'`; (c) "may continue a name" is decided by one predicate only
          (is_valid_in_name = alphanumeric or '_'): no other function tests is_alphanumeric directly;
  C05-R5  whitespace: the whitespace arm precedes every other arm, and collect_var_and_dom_from_operator skips
          whitespace before each of its segments."""
import os
import re

import evalnode as E
import fold
import hir
import partial
import semantics as sem
import terms
from terms import subterms, pt, ppc

LEVEL = "other"
PARSER = "preprocessing::parser::"
TOK = "preprocessing::tokenizer::"
README = os.path.join(os.environ.get("HCTL_REPO", "/repo"), "README.md")

INLINE_PARSER = [PARSER + n for n in ("index_of_first", "index_of_first_hybrid", "index_of_first_binary_temp", "index_of_first_unary",
                                      "is_hybrid", "is_binary_temporal", "is_unary")]


def readme_precedence():
    """[(class name, strength)] from the README, weakest binding first."""
    try:
        txt = open(README).read()
    except OSError:
        return None
    m = re.search(r"operator precedence is following.*?\n((?:\*.*\n)+)", txt)
    if not m:
        return None
    table = {}
    for line in m.group(1).splitlines():
        line = line.strip("* ").strip()
        if line.startswith("unary operators"):
            table["unary"] = int(line.rsplit(":", 1)[1])
        elif line.startswith("binary temporal"):
            table["bintemp"] = int(line.rsplit(":", 1)[1])
        elif line.startswith("boolean binary"):
            for part in line.split(":", 1)[1].split(","):
                k, v = part.strip().split("=")
                table[{"and": "And", "xor": "Xor", "or": "Or", "imp": "Imp", "eq": "Iff", "equiv": "Iff", "iff": "Iff"}[k.strip()]] = int(v)
        elif line.startswith("hybrid"):
            table["hybrid"] = int(line.rsplit(":", 1)[1])
    return [k for k, _ in sorted(table.items(), key=lambda kv: -kv[1])]


def token_class(body):
    """Operator class searched by a `position` predicate body."""
    def from_desc(d):
        if d[0] == "or":
            out = set()
            for x in d[1]:
                c = from_desc(x)
                if c is None:
                    return None
                out |= c
            return out
        if d[0] == "var" and str(d[1]).endswith("HctlToken::Hybrid"):
            return {"hybrid"}
        if d[0] == "var" and str(d[1]).endswith("HctlToken::Unary"):
            if d[2] and d[2][0][0] == "wild":
                return {"unary"}
            return None
        if d[0] == "var" and str(d[1]).endswith("HctlToken::Binary") and d[2] and d[2][0][0] == "var":
            return {str(d[2][0][1]).rsplit("::", 1)[-1]}
        return None
    if body[0] == "matches":
        return from_desc(body[2])
    if body[0] == "bin" and body[1] == "==":
        for side in (body[2], body[3]):
            if side[0] == "ctor" and str(side[1]).endswith("HctlToken::Binary") and side[2] and side[2][0][0] == "ctor":
                return {str(side[2][0][1]).rsplit("::", 1)[-1]}
    return None


class Level:
    def __init__(self, fn, summ):
        self.fn, self.summ = fn, summ
        self.pos = None
        self.cls = None
        self.prefix = self.suffix = self.fall = None
        self.ctor = None


def is_level_fn(f):
    return (f.path.startswith(PARSER) and len(f.params) >= 1 and "HctlToken]" in (f.param_tys[0] if f.param_tys else "")
            and "HctlTreeNode" in str(f.ret) and "Result" in str(f.ret))


def analyse_level(prog, eng, f):
    s = eng.summary(f)
    lv = Level(f, s)
    tokens = ("param", f.param_names()[0])
    poss = [x for x in s.all_sites() if x.kind == "mcall" and x.name in ("position", "rposition") and x.term and x.term[0] == "hof"]
    if poss:
        lv.pos = poss[0].term
        lv.cls = token_class(lv.pos[3])
        lv.rpos = poss[0].name == "rposition"
    idx = ("proj", lv.pos, "std::prelude::v1::Some", 0) if lv.pos else None
    for st in s.sites:
        if st.kind != "call" or not isinstance(st.callee, str):
            continue
        tgt = prog.resolve_local(f.crate, st.callee)
        if tgt is None:
            continue
        if is_level_fn(tgt) and st.args:
            a = st.args[0]
            if a == tokens:
                lv.fall = (tgt, st)
            elif a[0] == "index" and a[1] == tokens and a[2][0] == "struct":
                rng = a[2]
                if str(rng[1]).endswith("RangeTo") and dict(rng[2]).get("end") == idx:
                    lv.prefix = (tgt, st)
                elif str(rng[1]).endswith("RangeFrom") and dict(rng[2]).get("start") == ("bin", "+", idx, ("lit", 1)):
                    lv.suffix = (tgt, st)
                else:
                    lv.odd = st
            else:
                lv.other = getattr(lv, "other", []) + [(tgt, st)]
        elif tgt.name in ("mk_binary", "mk_unary", "mk_hybrid"):
            lv.ctor = (tgt, st)
    lv.idx = idx
    lv.tokens = tokens
    return lv


def run(prog, rep):
    rep.explanation = __doc__
    rep.assumptions = ["README.md is the documented grammar"]
    for r, t in (("C05-R1", "recovered precedence / associativity table == README"), ("C05-R2", "no token is dropped: prefix of a prefix operator must be empty"),
                 ("C05-R3", "wild-cards and domains only under the mode flag"), ("C05-R4", "look-ahead guards for E, A, 3, V; single name-character predicate"),
                 ("C05-R5", "whitespace handling")):
        rep.rule(r, t)
    eng = terms.Engine(prog, inline=True, hooks=E.Hooks([], inline_names=INLINE_PARSER))
    entry = prog.lib_fn(PARSER + "parse_hctl_tokens")
    if entry is None:
        rep.unresolved("C05-R1", "parse_hctl_tokens", "", "parser entry not found")
        return
    order = readme_precedence()
    if not order:
        rep.unresolved("C05-R1", "README/precedence", README, "precedence list not found in README.md")
        return
    # follow the fall-through chain
    es = eng.summary(entry)
    first = [prog.resolve_local(entry.crate, x.callee) for x in es.sites if x.kind == "call" and isinstance(x.callee, str)
             and prog.resolve_local(entry.crate, x.callee) is not None and is_level_fn(prog.resolve_local(entry.crate, x.callee))]
    if len(first) != 1:
        rep.unresolved("C05-R1", "entry/first-level", f"{entry.file}:{entry.line}", "entry does not delegate to exactly one level")
        return
    levels = []
    cur = first[0]
    seen = set()
    while cur is not None and cur.qual not in seen and len(levels) < 20:
        seen.add(cur.qual)
        rep.functions.add(cur.qual)
        lv = analyse_level(prog, eng, cur)
        levels.append(lv)
        cur = lv.fall[0] if lv.fall else None
    found = []
    for lv in levels[:-1]:
        c = lv.cls
        if c is None:
            found.append("?")
        elif c == {"hybrid"} or c == {"unary"}:
            found.append(next(iter(c)))
        elif c == {"EU", "AU", "EW", "AW"}:
            found.append("bintemp")
        elif len(c) == 1:
            found.append(next(iter(c)))
        else:
            found.append("+".join(sorted(c)))
    rep.check(found == order, "C05-R1", "chain/order", f"{first[0].file}:{first[0].line}",
              f"levels from weakest to tightest: {found}", f"parser levels search {found}; README documents {order}")
    all_binary = set()
    for lv, nxt in zip(levels[:-1], levels[1:]):
        f = lv.fn
        where = f"{f.file}:{f.line}"
        cname = "+".join(sorted(lv.cls)) if lv.cls else "?"
        key = f"level:{cname}"
        if lv.pos is None or lv.cls is None:
            rep.unresolved("C05-R1", key, where, f"{f.name}: the searched operator class could not be recovered")
            continue
        it = lv.pos[2]
        scans_all = it[0] == "call" and it[1].rsplit("::", 1)[-1] == "iter" and it[2] == (lv.tokens,)
        rep.check(scans_all and not lv.rpos, "C05-R1", key + "/first", where, "splits at the FIRST occurrence in the whole slice",
                  "the operator position is not the first occurrence over the whole token slice")
        rep.check(len(f.params) == 1, "C05-R1", key + "/no-mode", where, "level has no mode parameter", "parser level takes extra parameters")
        if lv.cls <= {"hybrid", "unary"}:
            good = lv.suffix is not None and lv.suffix[0] is f and lv.prefix is None and lv.fall is not None and lv.fall[0] is nxt.fn
            rep.check(good, "C05-R1", key + "/calls", where, "prefix operator: suffix -> same level, otherwise fall through to the next level",
                      f"{f.name}: suffix goes to {lv.suffix[0].name if lv.suffix else None}, prefix parsed by {lv.prefix[0].name if lv.prefix else None}")
            # constructor arguments: child from the suffix parse, operator data from tokens[i]
            if lv.ctor and lv.suffix:
                a = lv.ctor[1].args
                tok = ("index", lv.tokens, lv.idx)
                child_ok = any(x == lv.suffix[1].term for x in subterms(a[0]))
                data_ok = all(any(x == tok for x in subterms(y)) for y in a[1:])
                rep.check(child_ok and data_ok, "C05-R1", key + "/node", lv.ctor[1].where(), "node = ctor(parse(suffix), data of tokens[i])",
                          "constructed node does not use parse(tokens[i+1..]) as child and tokens[i] as operator")
            else:
                rep.unresolved("C05-R1", key + "/node", where, "constructor call not found")
            # R2: Err <=> i > 0
            check_prefix_guard(rep, lv, key)
        else:
            all_binary |= lv.cls
            good = (lv.prefix is not None and lv.prefix[0] is nxt.fn and lv.suffix is not None and lv.suffix[0] is f
                    and lv.fall is not None and lv.fall[0] is nxt.fn)
            rep.check(good, "C05-R1", key + "/calls", where, "binary level: prefix -> next tighter level, suffix -> same level (right associative)",
                      f"{f.name}: prefix -> {lv.prefix[0].name if lv.prefix else None}, suffix -> {lv.suffix[0].name if lv.suffix else None}, "
                      f"fall-through -> {lv.fall[0].name if lv.fall else None}; expected {nxt.fn.name}, {f.name}, {nxt.fn.name}")
            if lv.ctor and lv.prefix and lv.suffix:
                a = lv.ctor[1].args
                l_ok = any(x == lv.prefix[1].term for x in subterms(a[0])) and not any(x == lv.suffix[1].term for x in subterms(a[0]))
                r_ok = any(x == lv.suffix[1].term for x in subterms(a[1])) and not any(x == lv.prefix[1].term for x in subterms(a[1]))
                op = a[2]
                if op[0] == "ctor":
                    op_ok = {str(op[1]).rsplit("::", 1)[-1]} == lv.cls
                else:
                    op_ok = any(x == ("index", lv.tokens, lv.idx) for x in subterms(op))
                rep.check(l_ok and r_ok and op_ok and lv.ctor[0].name == "mk_binary", "C05-R1", key + "/node", lv.ctor[1].where(),
                          "node = mk_binary(parse(prefix), parse(suffix), searched operator)",
                          f"left from prefix={l_ok}, right from suffix={r_ok}, operator is the searched one={op_ok}")
            else:
                rep.unresolved("C05-R1", key + "/node", where, "constructor / operand calls not found")
    binops = {v["name"] for v in prog.adts.get("preprocessing::operator_enums::BinaryOp", {}).get("variants", [])}
    rep.check(binops and all_binary == binops, "C05-R1", "coverage/BinaryOp", "", f"every BinaryOp variant has exactly one level ({sorted(all_binary)})",
              f"BinaryOp variants without a level: {sorted(binops - all_binary)}; unknown: {sorted(all_binary - binops)}")
    check_terminal(prog, rep, levels[-1], entry, first[0])
    rep.floor("C05-R1", 30)
    rep.floor("C05-R2", 3)
    check_tokenizer(prog, rep)


def check_prefix_guard(rep, lv, key):
    f, s = lv.fn, lv.summ
    errs = [r for r in s.returns if r[5] == "return" and r[0][0] == "ctor" and str(r[0][1]).endswith("Err")]
    where = f"{f.file}:{f.line}"
    if not errs:
        rep.violation("C05-R2", key + "/prefix-empty", where,
                      f"{f.name} never rejects tokens placed before the first {'/'.join(sorted(lv.cls))} operator: they are silently dropped")
        return
    gt = ("bin", ">", lv.idx, ("lit", 0))
    import setalg
    alg = setalg.Alg()
    found_pos = ("atom", "FOUND")
    GT = ("atom", "GT")

    def conv(t):
        if t == gt or t == ("bin", "!=", lv.idx, ("lit", 0)) or t == ("bin", ">=", lv.idx, ("lit", 1)):
            return GT
        if t[0] == "not":
            return ("not", conv(t[1]))
        if t[0] == "bin" and t[1] in ("&&", "||"):
            return ("and" if t[1] == "&&" else "or", conv(t[2]), conv(t[3]))
        if t[0] == "matches" and t[1] == ("index", lv.tokens, ("bin", "-", lv.idx, ("lit", 1))):
            c = token_class(("matches", None, t[2]))
            if c is not None and c <= lv.cls:
                return setalg.FALSE          # tokens[i-1] cannot satisfy the searched predicate: i is its first position
            return ("atom", ("prev", repr(t[2])))
        if t[0] == "matches" and t[1] == lv.pos:
            return found_pos
        return ("atom", ("other", repr(t)))

    cond = setalg.FALSE
    for r in errs:
        e = setalg.TRUE
        for c in r[1]:
            if c[0] == "if":
                x = conv(c[1])
                e = ("and", e, x if c[2] else ("not", x))
            elif c[0] == "match" and c[1] == lv.pos:
                e = ("and", e, found_pos if c[3] else ("not", found_pos))
        cond = ("or", cond, e)
    want = ("and", found_pos, GT)
    ok = alg.equivalent(cond, want)
    rep.check(ok, "C05-R2", key + "/prefix-empty", f"{f.file}:{errs[0][4].get('sp', [f.line])[0]}",
              "returns Err exactly when tokens precede the operator (i > 0)",
              f"{f.name} returns Err only under `{ppc(errs[0][1])[-160:]}`; any non-empty prefix tokens[..i] must be rejected, "
              "otherwise the tokens before the operator are silently dropped")


def check_terminal(prog, rep, lv, entry, first):
    f, s = lv.fn, lv.summ
    where = f"{f.file}:{f.line}"
    tokens = ("param", f.param_names()[0])
    tok0 = ("index", tokens, ("lit", 0))
    oks = [r for r in s.returns if r[5] in ("return", "tail")]
    problems = []
    # every Ok-producing path is under len == 1
    for r in oks:
        t = r[0]
        produces_ok = any(x[0] == "ctor" and str(x[1]).endswith("Ok") for x in subterms(t)) or any(x[0] in ("call", "rec") and is_level_call(prog, f, x) for x in subterms(t))
        if not produces_ok:
            continue
        one = any(c[0] == "if" and c[2] and c[1] == ("bin", "==", ("call", c[1][2][1] if c[1][0] == "bin" and c[1][2][0] == "call" else "", (tokens,)), ("lit", 1)) for c in r[1]
                  if c[0] == "if" and c[1][0] == "bin")
        if not one:
            problems.append(f"a formula is produced at line {r[4].get('sp', [0])[0]} without the slice having exactly one token")
    # parenthesised group: re-enter the top level with the inner tokens, result returned unchanged
    grp = [r for r in oks if any(c[0] == "match" and c[3] and c[1] == tok0 and c[2][0] == "var" and str(c[2][1]).endswith("HctlToken::Tokens") for c in r[1])]
    inner = ("proj", tok0, "preprocessing::tokenizer::HctlToken::Tokens", 0)
    g_ok = len(grp) == 1 and grp[0][0][0] in ("call", "rec") and grp[0][0][2] == (inner,) and \
        prog.resolve_local(f.crate, grp[0][0][1]) in (entry, first) or (len(grp) == 1 and grp[0][0][0] == "rec" and grp[0][0][2] == (inner,))
    if not g_ok:
        problems.append("a parenthesised group is not parsed by re-entering the top level on its inner tokens and returning that result unchanged")
    rep.check(not problems, "C05-R2", "terminal/single-token", where, "terminal level: exactly one token; group -> top level unchanged", "; ".join(problems))
    # atoms
    for variant, ctor in (("Var", "mk_variable"), ("WildCardProp", "mk_wild_card")):
        rs = [r for r in oks if any(c[0] == "match" and c[3] and c[1] == tok0 and variant in repr(c[2]) for c in r[1])]
        want_arg = None
        good = len(rs) == 1 and any(x[0] == "call" and x[1].endswith(ctor) for x in subterms(rs[0][0]))
        rep.check(good, "C05-R1", f"terminal/{variant}", where, f"{variant} token -> {ctor}(name)", f"{variant} token is not turned into {ctor}(name)")


def is_level_call(prog, f, x):
    tgt = prog.resolve_local(f.crate, x[1]) if isinstance(x[1], str) else None
    return tgt is not None and (is_level_fn(tgt) or tgt.name == "parse_hctl_tokens")


# ------------------------------------------------------------------------------------------------
# tokenizer
# ------------------------------------------------------------------------------------------------

def char_of(pc_entry):
    d = pc_entry[2]
    if d[0] == "lit" and isinstance(d[1], str):
        return [d[1]]
    if d[0] == "or":
        return [x[1] for x in d[1] if x[0] == "lit"]
    return None


def check_tokenizer(prog, rep):
    tk = prog.lib_fn(TOK + "try_tokenize_recursive")
    cv = prog.lib_fn(TOK + "collect_var_and_dom_from_operator")
    if tk is None or cv is None:
        rep.unresolved("C05-R3", "tokenizer", "", "tokenizer functions not found")
        return
    eng = terms.Engine(prog, inline=False)
    s = eng.summary(tk)
    rep.functions.add(tk.qual)
    rep.functions.add(cv.qual)
    pn = tk.param_names()
    flag = ("param", pn[2])
    # R3 ------------------------------------------------------------------------------------------
    wcs = [x for x in s.sites if x.kind == "ctor" and str(x.callee).endswith("Atomic::WildCardProp")]
    if not wcs:
        rep.unresolved("C05-R3", "tokenizer/WildCardProp", f"{tk.file}:{tk.line}", "no WildCardProp construction found")
    for x in wcs:
        dep = any(c[0] == "if" and c[2] and c[1] == flag for c in x.pc)
        rep.check(dep, "C05-R3", f"tokenizer/WildCardProp@{x.ordinal}", x.where(), "wild-card token only when the mode flag is set",
                  "a wild-card proposition token can be produced although parse_wild_cards is false (the plain parser must reject `%p%`)")
    cs = eng.summary(cv)
    cpn = cv.param_names()
    dflag = ("param", cpn[2])
    doms = [x for x in cs.sites if (x.kind == "assign" and x.args and x.args[0][0] == "ctor" and str(x.args[0][1]).endswith("Some"))
            or (x.kind == "ctor" and str(x.callee).endswith("Some") and "String" in str(x.ty) and False)]
    if not doms:
        rep.unresolved("C05-R3", "collect_var/domain", f"{cv.file}:{cv.line}", "no `domain = Some(..)` found")
    for x in doms:
        dep = any(c[0] == "if" and c[2] and c[1] == dflag for c in x.pc)
        rep.check(dep, "C05-R3", f"collect_var/domain@{x.ordinal}", x.where(), "a domain is only read when domains are allowed",
                  "a domain can be attached although parse_domains is false (the plain parser must reject `in %d%`)")
    rets_cv = [r for r in cs.returns if r[5] != "try"]
    calls = [x for x in s.sites if x.kind == "call" and x.is_call_to("collect_var_and_dom_from_operator")]
    for x in calls:
        opch = x.args[1][1] if x.args[1][0] == "lit" else None
        want = ("lit", False) if opch == "@" else flag
        rep.check(x.args[2] == want, "C05-R3", f"tokenizer/mode-arg:{opch}@{x.ordinal}", x.where(),
                  f"operator `{opch}` passes {'false' if opch == '@' else 'the mode flag'} as domain permission",
                  f"operator `{opch}` passes {sem.short(x.args[2], 40)} as domain permission")
    recs = [x for x in s.sites if x.kind == "call" and x.is_call_to("try_tokenize_recursive")]
    for x in recs:
        rep.check(x.args[2] == flag and x.args[1] == ("lit", False), "C05-R3", f"tokenizer/recursion@{x.ordinal}", x.where(),
                  "nested group: same mode, not top level", f"recursive call passes ({sem.short(x.args[1], 30)}, {sem.short(x.args[2], 30)})")
    for name, val in (("try_tokenize_formula", False), ("try_tokenize_extended_formula", True)):
        f = prog.lib_fn(TOK + name)
        if f is None:
            rep.unresolved("C05-R3", name, "", "entry not found")
            continue
        fs = eng.summary(f)
        cc = [x for x in fs.sites if x.kind == "call" and x.is_call_to("try_tokenize_recursive")]
        rep.check(len(cc) == 1 and cc[0].args[2] == ("lit", val) and cc[0].args[1] == ("lit", True), "C05-R3", name, f"{f.file}:{f.line}",
                  f"{name} tokenizes with top_level = true, parse_wild_cards = {str(val).lower()}",
                  f"{name} calls the tokenizer with {[sem.short(a, 30) for a in cc[0].args[1:]] if cc else None}")
    # the flag reaches nothing else
    uses = [x for x in s.sites if any(a == flag for a in (x.args or [])) and x.kind in ("call", "mcall")]
    other = [x for x in uses if not x.is_call_to("collect_var_and_dom_from_operator", "try_tokenize_recursive")]
    rep.check(not other, "C05-R3", "tokenizer/flag-uses", f"{tk.file}:{tk.line}", "the mode flag only reaches the domain permission and the recursion",
              f"the mode flag also flows into `{other[0].short()}` at line {other[0].line()}" if other else "")
    rep.floor("C05-R3", 12)
    # R4 ------------------------------------------------------------------------------------------
    # arms of the character match: recover (first char, guard) from the path conditions of the token constructions
    arms = {}
    main_match = None
    for n in hir.walk(tk.body):
        if n.get("k") == "match" and str(n["e"].get("ty")) == "char" and len(n["arms"]) > 10:
            main_match = n
    if main_match is None:
        rep.unresolved("C05-R4", "tokenizer/char-match", f"{tk.file}:{tk.line}", "character match not found")
        return
    name_arm_index = None
    ws_index = None
    for i, arm in enumerate(main_match["arms"]):
        p = arm["pat"]
        g = arm.get("guard")
        if p.get("k") == "bind" and g is not None:
            gcalls = [x for x in hir.walk(g) if x.get("k") in ("call", "mcall")]
            names = [x.get("name") or str(x.get("def", "")).rsplit("::", 1)[-1] for x in gcalls]
            if "is_whitespace" in names and ws_index is None:
                ws_index = i
            if "is_valid_in_name" in names and name_arm_index is None:
                name_arm_index = i
    rep.check(ws_index == 0, "C05-R5", "tokenizer/whitespace-first", f"{tk.file}:{main_match['sp'][0]}", "the whitespace arm is the first arm",
              f"whitespace arm is arm #{ws_index}: an earlier arm can capture a whitespace character")
    ieng = terms.Engine(prog, inline=True, hooks=E.Hooks([TOK]))
    arm_chars = []
    for i, arm in enumerate(main_match["arms"]):
        p = arm["pat"]
        alts = p["subs"] if p.get("k") == "por" else [p]
        for q in alts:
            if q.get("k") == "plit" and q.get("lk") == "char" and (q["v"].isalnum() or q["v"] == "_"):
                arm_chars.append((i, arm, q["v"]))
    for i, arm, ch in arm_chars:
        g = arm.get("guard")
        where = f"{tk.file}:{arm['ln']}"
        if g is None:
            rep.violation("C05-R4", f"arm:{ch}/guard", where, f"the arm for `{ch}` has no look-ahead guard: every identifier starting with `{ch}` is mis-tokenised")
            continue
        looks = [x for x in hir.walk(g) if (x.get("k") == "mcall" and x.get("name") == "peek") or
                 (x.get("k") == "call" and any(a.get("k") == "path" and a.get("name") == pn[0] for a in x.get("args", [])))]
        rep.check(bool(looks) and (name_arm_index is None or i < name_arm_index), "C05-R4", f"arm:{ch}/guard", where,
                  f"arm `{ch}` is guarded by a look-ahead and precedes the generic name arm",
                  f"guard of arm `{ch}` does not inspect the look-ahead, or the generic name arm comes first")
        # (b) abstract evaluation of the guard on the look-ahead classes
        check_guard_classes(prog, rep, ieng, tk, ch, g, where)
    rep.floor("C05-R4", 8)
    # (c) one name-character predicate
    vin = prog.lib_fn(TOK + "is_valid_in_name")
    if vin is None:
        rep.unresolved("C05-R4", "is_valid_in_name", "", "predicate not found")
    else:
        ok = True
        for c in ("a", "Z", "5", "_", "é"):
            v = fold.eval_fn(ieng, vin, [("lit", c)])
            ok = ok and v == partial.TRUE
        for c in (" ", "{", "%", "&", "-", ":"):
            v = fold.eval_fn(ieng, vin, [("lit", c)])
            ok = ok and v == partial.FALSE
        rep.check(ok, "C05-R4", "is_valid_in_name/definition", f"{vin.file}:{vin.line}", "name character = alphanumeric or '_'",
                  "is_valid_in_name does not hold exactly for alphanumeric characters and '_'")
        for f in prog.lib_fns():
            if not f.path.startswith(TOK) or f is vin:
                continue
            fs = eng.summary(f)
            for x in fs.sites:
                if x.kind in ("call", "mcall") and isinstance(x.callee, str) and x.callee.rsplit("::", 1)[-1] in ("is_alphanumeric", "is_alphabetic", "is_ascii_alphanumeric"):
                    rep.violation("C05-R4", f"{f.name}/direct-char-test@{x.ordinal}", x.where(),
                                  f"{f.name} decides name membership with `{x.short()}` directly instead of is_valid_in_name: identifiers containing `_` are split differently here")
    # R5: whitespace skipping in collect_var_and_dom_from_operator: before `{`, before in/`:`, before `%`, before `:`
    skips = [x for x in cs.sites if x.kind == "call" and x.is_call_to("skip_whitespaces")]
    nexts = [x for x in cs.sites if x.kind == "mcall" and x.name in ("next", "peek")]
    rep.check(len(skips) >= 4, "C05-R5", "collect_var/skip-count", f"{cv.file}:{cv.line}", f"{len(skips)} whitespace skips (before each segment)",
              f"only {len(skips)} skip_whitespaces calls: whitespace before one of the segments `{{`, `in`/`:`, `%`, `:` is not accepted")
    first_read = min([x.line() for x in nexts] or [0])
    first_skip = min([x.line() for x in skips] or [10 ** 9])
    rep.check(first_skip < first_read, "C05-R5", "collect_var/skip-first", f"{cv.file}:{cv.line}", "whitespace is skipped before the first segment",
              "the variable segment is read before whitespace is skipped")
    sk = prog.lib_fn(TOK + "skip_whitespaces")
    if sk is not None:
        ss = eng.summary(sk)
        adv = [x for x in ss.sites if x.kind == "mcall" and x.name == "next"]
        good = bool(adv) and all(any(c[0] == "if" and c[2] and c[1][0] == "call" and c[1][1].endswith("is_whitespace") for c in x.pc) for x in adv)
        rep.check(good, "C05-R5", "skip_whitespaces/only-whitespace", f"{sk.file}:{sk.line}", "only whitespace characters are consumed",
                  "skip_whitespaces can consume a non-whitespace character")
    rep.floor("C05-R5", 4)


LOOKAHEAD_CLASSES = [("name", "a"), ("underscore", "_"), ("digit", "7"), ("whitespace", " "), ("brace", "{"), ("tempX", "X"), ("tempF", "F"),
                     ("tempG", "G"), ("tempU", "U"), ("tempW", "W"), ("punct", "&"), ("paren", ")"), ("eof", None)]


def check_guard_classes(prog, rep, ieng, tk, ch, g, where):
    """Evaluate the arm guard for every look-ahead class."""
    # the guard is `helper(input_chars.peek())` or `helper(input_chars)`
    call = None
    for x in hir.walk(g):
        if x.get("k") == "call" and x.get("def"):
            call = x
            break
    if call is None:
        rep.unresolved("C05-R4", f"arm:{ch}/classes", where, "guard is not a call of a look-ahead helper")
        return
    helper = prog.resolve_local(tk.crate, call["def"])
    negated = False
    gg = g
    while gg.get("k") == "un" and gg.get("op") == "!":
        negated = not negated
        gg = gg["e"]
    if helper is None:
        rep.unresolved("C05-R4", f"arm:{ch}/classes", where, "look-ahead helper is not a local function")
        return
    takes_peek = any(a.get("k") == "mcall" and a.get("name") == "peek" for a in call.get("args", []))
    if takes_peek:
        res = {}
        for cname, c in LOOKAHEAD_CLASSES:
            arg = ("ctor", E.NONE, ()) if c is None else ("ctor", E.SOME, (("lit", c),))
            v = fold.eval_fn(ieng, helper, [arg])
            if v not in (partial.TRUE, partial.FALSE):
                rep.unresolved("C05-R4", f"arm:{ch}/classes", where, f"guard value for look-ahead class {cname} could not be folded")
                return
            res[cname] = (v == partial.TRUE) != negated
        if ch in ("E", "A"):
            want = {cname: cname.startswith("temp") for cname, _ in LOOKAHEAD_CLASSES}
        else:
            want = {cname: cname in ("brace", "whitespace") for cname, _ in LOOKAHEAD_CLASSES}
            # whitespace may continue to `{` or not: a peek-only guard cannot tell -> it must not claim the operator reading
            # on classes where it cannot continue (punct, paren, eof, name..)
        bad = [c for c in res if res[c] and not want[c]] + [c for c in res if not res[c] and want[c] and c != "whitespace"]
        rep.check(not bad, "C05-R4", f"arm:{ch}/classes", where,
                  f"guard of `{ch}` holds exactly on the look-ahead classes where the operator reading can continue",
                  f"guard of `{ch}` takes the operator reading on look-ahead classes {bad}: the one-character identifier `{ch}` "
                  f"(e.g. `{ch} & a`) is rejected or an identifier is split")
        return
    # helper working on the iterator itself: must be `clone, skip whitespace, next is '{'`
    s = ieng.summary(helper)
    good = False
    why = f"helper {helper.name} is not of the form `clone the iterator, skip whitespace, compare peek() with Some('{{')`"
    ret = s.ret
    if ret[0] == "bin" and ret[1] == "==":
        sides = [ret[2], ret[3]]
        pk = [x for x in sides if x[0] == "call" and x[1].endswith("::peek")]
        lit = [x for x in sides if x[0] == "ctor" and str(x[1]).endswith("Some") and x[2] == (("lit", "{"),)]
        if pk and lit:
            recv = pk[0][2][0]
            derives = terms.mentions_param(recv, helper.param_names()[0])
            skipped = any(x[0] == "call" and x[1].endswith("is_whitespace") for x in subterms(recv)) or "skip_whitespaces" in pt(recv) or \
                any(x.kind == "call" and x.is_call_to("skip_whitespaces") for x in s.all_sites()) or \
                any(x.kind in ("call", "mcall") and (x.name == "is_whitespace" or str(x.callee).endswith("is_whitespace")) for x in s.all_sites())
            only_next = True
            good = derives and skipped
            if not skipped:
                why = "the helper does not skip whitespace before testing for `{` (`3 {x}:` would not be a quantifier)"
    own_mut = [x for x in ieng.summary(helper).sites if x.kind == "mcall" and x.name == "next" and x.argnodes and
               x.argnodes[0].get("k") == "path" and x.argnodes[0].get("name") == helper.param_names()[0]]
    if own_mut:
        good, why = False, "the look-ahead helper consumes characters of the real iterator"
    rep.check(good != negated if good else False, "C05-R4", f"arm:{ch}/classes", where,
              f"guard of `{ch}`: quantifier reading iff the next non-whitespace character is `{{`", why)


def parser_constants(prog):
    """((terminal level fn, its summary), {True: spellings, False: spellings}) - the literals the parser maps to constants."""
    term_fn = None
    peng = terms.Engine(prog, inline=False)
    for f in prog.lib_fns():
        if f.path.startswith("preprocessing::parser::"):
            fs = peng.summary(f)
            if any(x.kind == "call" and x.is_call_to("mk_constant") for x in fs.sites):
                term_fn = (f, fs)
    table = {True: set(), False: set()}
    if term_fn is None:
        return None, table
    f, fs = term_fn
    # the return value is a decision tree over string comparisons
    for r in fs.returns:
        for y in [r[0]] + list(subterms(r[0])):
            if y[0] == "ite":
                strs = {z[3][1] for z in [y[1]] + list(subterms(y[1])) if z[0] == "bin" and z[1] == "==" and z[3][0] == "lit" and isinstance(z[3][1], str)}
                strs |= {z[2][1] for z in [y[1]] + list(subterms(y[1])) if z[0] == "bin" and z[1] == "==" and z[2][0] == "lit" and isinstance(z[2][1], str)}
                only_or = all(z[1] in ("==", "||") for z in [y[1]] + list(subterms(y[1])) if z[0] == "bin")
                then = y[2]
                mk = [z for z in [then] + list(subterms(then)) if z[0] == "call" and z[1].endswith("mk_constant")]
                if strs and mk and only_or and then[0] == "ctor":
                    val = mk[0][2][0]
                    if val[0] == "lit" and isinstance(val[1], bool) and len(mk) == 1:
                        table[val[1]] |= strs
    return term_fn, table
