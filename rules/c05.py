"""C05 - the parser accepts exactly the documented grammar and never drops input.

Decided here (language equality over all strings is not decidable statically; these are its structural necessary conditions):
  C05-R1  grammar recovery (parserspec): every level of the recursive descent is summarised with the module's helpers inlined
          (search helpers, predicates, a generic helper shared by several levels - folded back to the level where it calls
          itself) and its return value is read as a decision tree.  The class of tokens a level searches is obtained by
          *evaluating* its search predicate on one representative per token kind (so `matches!`, nested `match`, `==` give the
          same class).  The chain of fall-throughs must be the README precedence list hybrid < iff < imp < or < xor < and <
          binary temporal < unary < atoms; every level searches the FIRST occurrence over the whole slice, exactly once, and has
          no mode parameter; a binary level falls through to the next level exactly when nothing is found and otherwise builds
          mk_binary(next(tokens[..i]), same(tokens[i+1..]), searched operator) - right associative; a prefix level (hybrid,
          unary) builds its node from tokens[i] and same(tokens[i+1..]); every BinaryOp variant is searched by exactly one level;
          the terminal level turns Var / WildCardProp / Prop tokens into the corresponding atoms;
  C05-R2  token coverage: a prefix level returns Err exactly when tokens precede the operator (conditions are compared as
          Boolean functions of FOUND and i > 0; a conjunct `tokens[i-1] is not of the searched class` is vacuous because i is the
          first such position); the terminal level produces a formula only from a slice of exactly one token and parses a
          parenthesised group by re-entering the top level on the inner tokens, returning that result unchanged;
  C05-R3  plain mode rejects extensions (tokrules, on the tokenizer's first-decision table): with parse_wild_cards = false no
          wild-card token and no domain can be produced, for the short and the long spellings; `@` / `\jump` never take a
          domain; the entry points pass false / true, the recursion for groups passes the flag on;
  C05-R4  look-ahead for operator characters that are also name characters: the decision table is evaluated for `E` / `A`
          followed by each temporal letter and by name / non-name characters, for `3` / `V` followed by name characters, non-name
          characters and `{`; the quantifier reading of `3` / `V` must be decided by a non-consuming look-ahead that skips
          whitespace and looks for `{`; name characters are exactly alphanumerics and `_`;
  C05-R5  whitespace: a whitespace character produces neither a token nor an error; the hybrid segments skip whitespace before
          each part; skip_whitespaces consumes only - and all kinds of - whitespace."""
import os
import re

import evalnode as E
import norm
import parserspec as PS
import pm
import q
from norm import last
import fold
import hir
import partial
import semantics as sem
import terms
from terms import subterms, pt, ppc

LEVEL = "other"
PARSER = "preprocessing::parser::"
TOK = "preprocessing::tokenizer::"
README = os.path.join(os.environ.get("HCTL_REPO", "/repo"), "README.md")



def readme_precedence():
    """[(class name, strength)] from the README, weakest binding first."""
    try:
        txt = open(README).read()
    except OSError:
        return None
    m = re.search(r"operator precedence is following.*?\n((?:\*.*\n)+)", txt)
    if not m:
        return None
    table = {}
    for line in m.group(1).splitlines():
        line = line.strip("* ").strip()
        if line.startswith("unary operators"):
            table["unary"] = int(line.rsplit(":", 1)[1])
        elif line.startswith("binary temporal"):
            table["bintemp"] = int(line.rsplit(":", 1)[1])
        elif line.startswith("boolean binary"):
            for part in line.split(":", 1)[1].split(","):
                k, v = part.strip().split("=")
                table[{"and": "And", "xor": "Xor", "or": "Or", "imp": "Imp", "eq": "Iff", "equiv": "Iff", "iff": "Iff"}[k.strip()]] = int(v)
        elif line.startswith("hybrid"):
            table["hybrid"] = int(line.rsplit(":", 1)[1])
    return [k for k, _ in sorted(table.items(), key=lambda kv: -kv[1])]


def token_class(body):
    """Operator class searched by a `position` predicate body."""
    def from_desc(d):
        if d[0] == "or":
            out = set()
            for x in d[1]:
                c = from_desc(x)
                if c is None:
                    return None
                out |= c
            return out
        if d[0] == "var" and str(d[1]).endswith("HctlToken::Hybrid"):
            return {"hybrid"}
        if d[0] == "var" and str(d[1]).endswith("HctlToken::Unary"):
            if d[2] and d[2][0][0] == "wild":
                return {"unary"}
            return None
        if d[0] == "var" and str(d[1]).endswith("HctlToken::Binary") and d[2] and d[2][0][0] == "var":
            return {str(d[2][0][1]).rsplit("::", 1)[-1]}
        return None
    if body[0] == "matches":
        return from_desc(body[2])
    if body[0] == "bin" and body[1] == "==":
        for side in (body[2], body[3]):
            if side[0] == "ctor" and str(side[1]).endswith("HctlToken::Binary") and side[2] and side[2][0][0] == "ctor":
                return {str(side[2][0][1]).rsplit("::", 1)[-1]}
    return None


class Level:
    def __init__(self, fn, summ):
        self.fn, self.summ = fn, summ
        self.pos = None
        self.cls = None
        self.prefix = self.suffix = self.fall = None
        self.ctor = None


def is_level_fn(f):
    return (f.path.startswith(PARSER) and len(f.params) >= 1 and "HctlToken]" in (f.param_tys[0] if f.param_tys else "")
            and "HctlTreeNode" in str(f.ret) and "Result" in str(f.ret))


def analyse_level(prog, eng, f):
    s = eng.summary(f)
    lv = Level(f, s)
    tokens = ("param", f.param_names()[0])
    poss = [x for x in s.all_sites() if x.kind == "mcall" and x.name in ("position", "rposition") and x.term and x.term[0] == "hof"]
    if poss:
        lv.pos = poss[0].term
        lv.cls = token_class(lv.pos[3])
        lv.rpos = poss[0].name == "rposition"
    idx = ("proj", lv.pos, "std::prelude::v1::Some", 0) if lv.pos else None
    for st in s.sites:
        if st.kind != "call" or not isinstance(st.callee, str):
            continue
        tgt = prog.resolve_local(f.crate, st.callee)
        if tgt is None:
            continue
        if is_level_fn(tgt) and st.args:
            a = st.args[0]
            if a == tokens:
                lv.fall = (tgt, st)
            elif a[0] == "index" and a[1] == tokens and a[2][0] == "struct":
                rng = a[2]
                if str(rng[1]).endswith("RangeTo") and dict(rng[2]).get("end") == idx:
                    lv.prefix = (tgt, st)
                elif str(rng[1]).endswith("RangeFrom") and dict(rng[2]).get("start") == ("bin", "+", idx, ("lit", 1)):
                    lv.suffix = (tgt, st)
                else:
                    lv.odd = st
            else:
                lv.other = getattr(lv, "other", []) + [(tgt, st)]
        elif tgt.name in ("mk_binary", "mk_unary", "mk_hybrid"):
            lv.ctor = (tgt, st)
    lv.idx = idx
    lv.tokens = tokens
    return lv


def run(prog, rep):
    rep.explanation = __doc__
    rep.assumptions = ["README.md is the documented grammar"]
    for r, t in (("C05-R1", "recovered precedence / associativity table == README"), ("C05-R2", "no token is dropped: prefix of a prefix operator must be empty"),
                 ("C05-R3", "wild-cards and domains only under the mode flag"), ("C05-R4", "look-ahead guards for E, A, 3, V; single name-character predicate"),
                 ("C05-R5", "whitespace handling")):
        rep.rule(r, t)
    check_levels(prog, rep)
    rep.floor("C05-R1", 30)
    rep.floor("C05-R2", 3)
    check_tokenizer(prog, rep)


def unswitch(t):
    """`match x { P1 => a, P2 => b, _ => c }` as the decision list `if x is P1 { a } else if x is P2 { b } else { c }`."""
    if not isinstance(t, tuple) or not t:
        return t
    if t[0] == "hof":
        return t              # predicates of searches are evaluated, not rewritten
    r = tuple(unswitch(x) if isinstance(x, tuple) else x for x in t)
    if r[0] == "switch":
        scrut, arms = r[1], r[2]
        acc = None
        for (d, g), v in reversed(arms):
            if d[0] == "wild" and g is None:
                acc = v
                continue
            c = ("matches", scrut, d)
            if g is not None:
                c = ("bin", "&&", c, g)
            acc = v if acc is None else ("ite", c, v, acc)
        return acc if acc is not None else r
    return r


def level_cases(lv):
    import norm
    nz = norm.Normalizer()
    out = []
    for conds, leaf in PS.leaves(nz(unswitch(lv.ret))):
        # what holds on the way to a leaf is used inside it (`f(if found { prefix } else { all })` under `found` is f(prefix))
        pcs = [("if", c, pol) for c, pol in conds]
        if pcs and terms.contains(leaf, lambda z: z[0] == "ite"):
            leaf = nz(terms.assume(leaf, pcs))
        out.append((conds, leaf))
    return out


def is_propagation(leaf):
    """Err(e) where e is the error of a nested call: the `?` of that call."""
    return leaf[0] == "ctor" and last(leaf[1]) == "Err" and len(leaf[2]) == 1 and leaf[2][0][0] == "proj" and last(leaf[2][0][2]) == "Err"


def check_levels(prog, rep):
    import setalg
    entry, lvs, eng = PS.chain(prog)
    if entry is None or not lvs:
        rep.unresolved("C05-R1", "parse_hctl_tokens", "", "parser entry or its first level not found")
        return
    order = readme_precedence()
    if not order:
        rep.unresolved("C05-R1", "README/precedence", README, "precedence list not found in README.md")
        return
    for lv in lvs:
        rep.functions.add(lv.fn.qual)
    first = lvs[0].fn
    found = [PS.class_name(lv.cls) for lv in lvs[:-1]]
    rep.check(found == order, "C05-R1", "chain/order", f"{first.file}:{first.line}",
              f"levels from weakest to tightest: {found}", f"parser levels search {found}; README documents {order}")
    all_binary = set()
    alg = setalg.Alg()
    for lv, nxt in zip(lvs[:-1], lvs[1:]):
        f = lv.fn
        where = f"{f.file}:{f.line}"
        cname = PS.class_name(lv.cls)
        key = f"level:{cname}"
        if lv.pos is None or lv.cls is None or not lv.cls:
            rep.unresolved("C05-R1", key, where, f"{f.name}: the searched operator class could not be recovered")
            continue
        rep.check(lv.scans_all and not lv.rpos and lv.n_searches == 1, "C05-R1", key + "/first", where, "splits at the FIRST occurrence in the whole slice",
                  "the operator position is not the first occurrence over the whole token slice")
        rep.check(len(f.params) == 1, "C05-R1", key + "/no-mode", where, "level has no mode parameter", "parser level takes extra parameters")
        tokens, i = lv.tokens, lv.idx
        FOUND, GT = ("atom", "FOUND"), ("atom", "GT")
        prefix_kind = all(c.split(":")[0] in ("Hybrid", "Unary") for c in lv.cls)

        def conv(t):
            if t == ("matches", lv.pos, norm.SOME_DESC):
                return FOUND
            if t[0] == "not":
                return ("not", conv(t[1]))
            if t[0] == "bin" and t[1] in ("&&", "||"):
                return ("and" if t[1] == "&&" else "or", conv(t[2]), conv(t[3]))
            if t[0] == "bin" and t[1] in (">", "!=", ">=", "<", "==", "<="):
                a_, b_ = t[2], t[3]
                for x, y, op in ((a_, b_, t[1]), (b_, a_, {">": "<", "<": ">", ">=": "<=", "<=": ">=", "==": "==", "!=": "!="}[t[1]])):
                    if pm.strip(x) == i and y[0] == "lit":
                        v = int(y[1]) if not isinstance(y[1], (str, bool)) else None
                        if (op, v) in ((">", 0), ("!=", 0), (">=", 1)):
                            return GT
                        if (op, v) in (("==", 0), ("<", 1), ("<=", 0)):
                            return ("not", GT)
            if t[0] == "matches" and pm.strip(t[1])[0] == "index" and pm.strip(t[1])[1] == tokens:
                idx = pm.strip(t[1])[2]
                prev = idx == ("bin", "-", i, ("lit", 1))
                if prev:
                    c = PS.desc_class(prog, t[2])
                    if c is not None and c <= lv.cls:
                        return setalg.FALSE          # tokens[i-1] cannot satisfy the searched predicate: i is its first position
                    return ("atom", ("prev", repr(t[2])))
            q_ok = q.is_ok_test(t)
            if q_ok is not None and PS.level_call(prog, f, q_ok) is not None:
                return setalg.TRUE               # a nested level succeeded: the success path is described
            return ("atom", ("other", repr(t)))

        kinds = {"fall": setalg.FALSE, "node": setalg.FALSE, "err": setalg.FALSE, "other": setalg.FALSE}
        nodes = []
        for conds, leaf in level_cases(lv):
            if is_propagation(leaf):
                continue
            e = setalg.TRUE
            for c, pol in conds:
                x = conv(c)
                e = ("and", e, x if pol else ("not", x))
            lc = PS.level_call(prog, f, leaf)
            if lc is not None and lc[1] == tokens and lc[0] is nxt.fn:
                kinds["fall"] = ("or", kinds["fall"], e)
            elif leaf[0] == "ctor" and last(leaf[1]) == "Ok" and leaf[2] and pm.strip(leaf[2][0])[0] == "call" and last(pm.strip(leaf[2][0])[1]) in ("mk_binary", "mk_unary", "mk_hybrid"):
                kinds["node"] = ("or", kinds["node"], e)
                nodes.append((conds, pm.strip(leaf[2][0])))
            elif leaf[0] == "ctor" and last(leaf[1]) == "Err":
                kinds["err"] = ("or", kinds["err"], e)
            else:
                kinds["other"] = ("or", kinds["other"], e)
        try:
            fall_ok = alg.equivalent(kinds["fall"], ("not", FOUND))
            if prefix_kind:
                node_ok = alg.equivalent(kinds["node"], ("and", FOUND, ("not", GT)))
                err_ok = alg.equivalent(kinds["err"], ("and", FOUND, GT))
            else:
                node_ok = alg.equivalent(kinds["node"], FOUND)
                err_ok = alg.equivalent(kinds["err"], setalg.FALSE)
            other_ok = alg.equivalent(kinds["other"], setalg.FALSE)
        except ValueError:
            fall_ok = node_ok = err_ok = other_ok = False
        # operands of the node
        zero = lambda t: norm.Normalizer()(terms.replace(t, i, ("lit", terms.Int(0))))       # noqa: E731
        tok_i = ("index", tokens, i)
        SUF = PS.slice_from(tokens, ("bin", "+", i, ("lit", terms.Int(1))))
        PRE = PS.slice_to(tokens, i)

        def same_under(t, want, allow_zero):
            t = pm.strip(t)
            return t == want or (allow_zero and zero(t) == zero(want))

        def payload(t, variant, k):
            """t is field k of tokens[i] seen as `variant`."""
            t = pm.strip(t)
            return t[0] == "proj" and last(t[2]) == variant and t[3] == k and same_under(t[1], tok_i, prefix_kind)
        ops_ok = bool(nodes)
        why_node = ""
        for conds, nd in nodes:
            a = nd[2]
            name = last(nd[1])
            if not prefix_kind:
                la, lb = PS.level_call(prog, f, a[0]), PS.level_call(prog, f, a[1])
                l_ok = name == "mk_binary" and la is not None and la[0] is nxt.fn and la[1] == PRE
                r_ok = name == "mk_binary" and lb is not None and lb[0] is f and lb[1] == SUF
                op = pm.strip(a[2]) if len(a) > 2 else ("unk",)
                if op[0] == "ctor":
                    op_ok = {"Binary:" + last(op[1])} == lv.cls
                else:
                    op_ok = payload(op, "Binary", 0)
                if not (l_ok and r_ok and op_ok):
                    ops_ok = False
                    why_node = (f"left operand parsed by {la[0].name if la else None} on the prefix={l_ok}, right operand parsed by {lb[0].name if lb else None} on the suffix={r_ok} "
                                f"(expected {nxt.fn.name} / {f.name}: right associative), operator is the searched one={op_ok}")
            else:
                la = PS.level_call(prog, f, a[0])
                c_ok = la is not None and la[0] is f and same_under(la[1], SUF, True)
                if name == "mk_unary" and lv.cls and all(c.startswith("Unary") for c in lv.cls):
                    d_ok = len(a) == 2 and payload(a[1], "Unary", 0)
                elif name == "mk_hybrid" and all(c.startswith("Hybrid") for c in lv.cls):
                    d_ok = len(a) == 4 and payload(a[1], "Hybrid", 1) and payload(a[2], "Hybrid", 2) and payload(a[3], "Hybrid", 0)
                else:
                    d_ok = False
                if not (c_ok and d_ok):
                    ops_ok = False
                    why_node = f"child parsed by the same level on tokens[i+1..]={c_ok}; operator data taken from tokens[i]={d_ok}"
        if prefix_kind:
            rep.check(fall_ok and node_ok and other_ok, "C05-R1", key + "/calls", where, "prefix operator: operator first -> node over the rest parsed by the same level; no operator -> next level",
                      f"{f.name}: falls through to {nxt.fn.name} exactly when nothing is found={fall_ok}; builds the node exactly when the operator is the first token={node_ok}; "
                      f"no other outcome={other_ok}")
            rep.check(ops_ok, "C05-R1", key + "/node", where, "node = ctor(parse(tokens[i+1..]) by the same level, data of tokens[i])", why_node or "no node is built")
            rep.check(err_ok, "C05-R2", key + "/prefix-empty", where, "returns Err exactly when tokens precede the operator (i > 0)",
                      f"{f.name} does not return Err exactly when tokens precede the first {cname} operator (i > 0): tokens before the operator are silently dropped, "
                      "or a well-formed prefix operator is rejected")
        else:
            all_binary |= lv.cls
            rep.check(fall_ok and node_ok and err_ok and other_ok, "C05-R1", key + "/calls", where,
                      "binary level: operator found -> node; otherwise the next tighter level on the same tokens",
                      f"{f.name}: falls through to {nxt.fn.name} exactly when no operator is found={fall_ok}; builds the node exactly when one is found={node_ok}; "
                      f"no rejection of its own={err_ok}; no other outcome={other_ok}")
            rep.check(ops_ok, "C05-R1", key + "/node", where, "node = mk_binary(next level(prefix), same level(suffix), searched operator): right associative", why_node or "no node is built")
    binops = {"Binary:" + v["name"] for v in prog.adts.get("preprocessing::operator_enums::BinaryOp", {}).get("variants", [])}
    rep.check(bool(binops) and all_binary == binops, "C05-R1", "coverage/BinaryOp", "", f"every BinaryOp variant has exactly one level ({sorted(all_binary)})",
              f"BinaryOp variants without a level: {sorted(binops - all_binary)}; unknown: {sorted(all_binary - binops)}")
    check_terminal(prog, rep, lvs[-1], entry, first)


def terminal_facts(prog, lv, entry, first):
    """Facts about the terminal level from its decision tree."""
    f = lv.fn
    tokens = lv.tokens
    tok0 = ("index", tokens, ("lit", terms.Int(0)))
    one = ("bin", "==", ("call", "#len", (tokens,)), ("lit", terms.Int(1)))
    facts = {"problems": [], "atoms": {}, "consts": {True: set(), False: set()}, "group": 0}
    for conds, leaf in level_cases(lv):
        if is_propagation(leaf):
            continue
        produces = (leaf[0] == "ctor" and last(leaf[1]) == "Ok") or PS.level_call(prog, f, leaf) is not None
        if not produces:
            continue
        flat = []
        for c, pol in conds:
            flat += q.conds([("if", c, pol)])
        is_one = lambda t: t == one or (t[0] == "bin" and t[1] == "==" and {t[2], t[3]} == {one[2], one[3]})       # noqa: E731
        single = any(pol and is_one(t) for t, pol in flat)
        if not single:
            # the same fact as a consequence of the conditions on the way (e.g. `!is_empty` and `!( !is_empty && len != 1 )`)
            cls = []
            for c, pol in conds:
                cls += terms.to_clauses(c, pol)
            pr = terms.propagate_clauses([], cls)
            single = pr is not None and any(pol and is_one(t) for t, pol in pr[0])
        if not single:
            facts["problems"].append(f"a formula is produced ({pt(leaf)[:60]}) without the slice having exactly one token")
        lc = PS.level_call(prog, f, leaf)
        if lc is not None:
            inner = ("proj", tok0, norm.SOME, 0)
            arg = pm.strip(lc[1])
            is_group = arg[0] == "proj" and last(arg[2]) == "Tokens" and arg[3] == 0 and pm.strip(arg[1]) == tok0 and lc[0] in (entry, first)
            if is_group:
                facts["group"] += 1
            else:
                facts["problems"].append(f"the terminal level delegates to {lc[0].name}({pt(lc[1])[:60]})")
            continue
        mk = pm.strip(leaf[2][0]) if leaf[2] else ("unk",)
        if mk[0] != "call":
            facts["problems"].append(f"the terminal level produces {pt(leaf)[:80]}")
            continue
        name = last(mk[1])
        facts["atoms"].setdefault(name, []).append((flat, mk))
        if name == "mk_constant" and mk[2] and mk[2][0][0] == "lit" and isinstance(mk[2][0][1], bool):
            # the spellings: the string literals the token's name is compared with on the way here for which every condition of the
            # path holds (evaluated with the name replaced by the literal)
            lits_, names_ = set(), []
            for t, pol in flat:
                for y in [t] + list(subterms(t)):
                    if y[0] == "bin" and y[1] == "==":
                        for a_, b_ in ((y[2], y[3]), (y[3], y[2])):
                            if a_[0] == "lit" and isinstance(a_[1], str) and b_[0] != "lit":
                                lits_.add(a_[1])
                                if b_ not in names_:
                                    names_.append(b_)
            if len(names_) == 1 and any(not pol for _, pol in flat):
                nz_ = norm.Normalizer()
                for n_ in sorted(lits_):
                    holds = True
                    for t, pol in flat:
                        v_ = nz_(terms.replace(t, names_[0], ("lit", n_)))
                        if mentions_lit_eq(v_):
                            v_ = fold_lit_eq(v_, nz_)
                        if not (v_[0] == "lit" and isinstance(v_[1], bool)):
                            if terms.contains(t, lambda z: z == names_[0]):
                                holds = False
                            continue
                        if v_[1] != bool(pol):
                            holds = False
                    if holds:
                        facts["consts"][mk[2][0][1]].add(n_)
                continue
            for t, pol in flat:
                if not pol:
                    continue
                for y in [t] + list(subterms(t)):
                    if y[0] == "bin" and y[1] == "==":
                        for side in (y[2], y[3]):
                            if side[0] == "lit" and isinstance(side[1], str):
                                facts["consts"][mk[2][0][1]].add(side[1])
                    if y[0] == "matches":
                        ds = y[2][1] if y[2][0] == "or" else (y[2],)
                        for d in ds:
                            if d[0] == "lit" and isinstance(d[1], str):
                                facts["consts"][mk[2][0][1]].add(d[1])
    return facts


def mentions_lit_eq(t):
    return any(y[0] == "bin" and y[1] in ("==", "!=") and y[2][0] == "lit" and y[3][0] == "lit" for y in [t] + list(subterms(t)))


def fold_lit_eq(t, nz):
    """Comparisons between two literals decided."""
    for y in [t] + list(subterms(t)):
        if y[0] == "bin" and y[1] in ("==", "!=") and y[2][0] == "lit" and y[3][0] == "lit":
            t = terms.replace(t, y, ("lit", (y[2][1] == y[3][1]) == (y[1] == "==")))
    return nz(t)


def check_terminal(prog, rep, lv, entry, first):
    f = lv.fn
    where = f"{f.file}:{f.line}"
    facts = terminal_facts(prog, lv, entry, first)
    problems = list(facts["problems"])
    if facts["group"] != 1:
        problems.append("a parenthesised group is not parsed by re-entering the top level on its inner tokens and returning that result unchanged")
    rep.check(not problems, "C05-R2", "terminal/single-token", where, "terminal level: exactly one token; group -> top level unchanged", "; ".join(problems))
    tok0 = ("index", lv.tokens, ("lit", terms.Int(0)))
    for variant, ctor in (("Var", "mk_variable"), ("WildCardProp", "mk_wild_card"), ("Prop", "mk_proposition")):
        rs = facts["atoms"].get(ctor, [])
        good = len(rs) == 1
        if good:
            arg = pm.strip(rs[0][1][2][0])
            good = arg[0] == "proj" and last(arg[2]) == variant and pm.strip(arg[1])[0] == "proj" and last(pm.strip(arg[1])[2]) == "Atom" and pm.strip(pm.strip(arg[1])[1]) == tok0
        rep.check(good, "C05-R1", f"terminal/{variant}", where, f"{variant} token -> {ctor}(name)", f"{variant} token is not turned into {ctor}(its name)")


# ------------------------------------------------------------------------------------------------
# tokenizer
# ------------------------------------------------------------------------------------------------

def char_of(pc_entry):
    d = pc_entry[2]
    if d[0] == "lit" and isinstance(d[1], str):
        return [d[1]]
    if d[0] == "or":
        return [x[1] for x in d[1] if x[0] == "lit"]
    return None


def check_tokenizer(prog, rep):
    import tokrules as TR
    import workers
    tk = workers.tokenizer_main(prog)
    if tk is not None:
        rep.functions.add(tk.qual)
    TR.check_plain_mode(prog, rep, "C05-R3")
    rep.floor("C05-R3", 13)
    TR.check_lookahead(prog, rep, "C05-R4")
    rep.floor("C05-R4", 5)
    TR.check_whitespace(prog, rep, "C05-R5")
    rep.floor("C05-R5", 5)


def parser_constants(prog):
    """((terminal level fn, its summary), {True: spellings, False: spellings}) - the literals the parser maps to constants."""
    entry, lvs, eng = PS.chain(prog)
    table = {True: set(), False: set()}
    if entry is None or not lvs:
        return None, table
    lv = lvs[-1]
    facts = terminal_facts(prog, lv, entry, lvs[0].fn)
    return (lv.fn, lv.summ), facts["consts"]
