"""C12 - attractor and steady-state shortcuts agree with generic evaluation everywhere.

Decided here (by partially evaluating eval_node for concrete node shapes; all contexts at once because the
summary is context independent):
  C12-R1  recogniser exactness: for the two patterns `!{x}: AG EF {x}` and `!{x}: AX {x}` exactly one shortcut
          return path is feasible and the generic path is not; for every near miss (other variable, a domain on the
          binder, another quantifier, a missing / extra / different operator, a proposition instead of the variable)
          no shortcut path is feasible and eval_node computes the generic `bind` equation;
  C12-R2  shortcuts are relative to the *current* graph: the attractor shortcut is compute_attractor_states(graph,
          unit(graph)), the steady-state shortcut is steady_states & unit(graph) (inside a restricted-domain scope the
          graph is the restricted one);
  C12-R3  compute_steady_states(g) = FixedPoints::symbolic(g, unit(g)); compute_attractor_states unites the attractors
          the library returns for the graph and universe it is given, nothing else;
  C12-R4  a result stored in the cache by a shortcut path obeys the same admission guard as every other store
          (shared with C04-R5).
Not decided: that the library's attractor / fixed-point algorithms return what their names say (L5)."""
import cacheproto
import evalnode as E
import semantics as sem
import setalg
import spec as S
import terms
from terms import calls_in, subterms

LEVEL = "other"


def run(prog, rep):
    rep.explanation = __doc__
    rep.assumptions = ["L5 FixedPoints::symbolic(g, r) and the attractor iterators return what their names say, pointwise in colour"]
    rep.rule("C12-R1", "shortcut taken exactly for the two patterns; near misses get their own semantics")
    rep.rule("C12-R2", "shortcut values are relative to the current graph")
    rep.rule("C12-R3", "compute_steady_states / compute_attractor_states pass their graph and universe to the library")
    rep.rule("C12-R4", "stores made by shortcut paths obey the cache admission guard")
    en = E.EvalNode(prog)
    if not en.ok():
        rep.unresolved("C12-R1", "eval_node", "", "eval_node not found")
        return
    rep.functions.add(en.fn.qual)
    for key, shape, alts, is_pattern in sem.pattern_shapes():
        rule = "C12-R2" if is_pattern else "C12-R1"
        ok = sem.check_shape(rep, rule, en, shape, alts, key, detail=key)
        if is_pattern:
            # exactly one feasible non-cache path, and it is a shortcut (an early `return`)
            rs = [r for r in en.specialise(shape) if r["term"] != terms.NEVER and not sem.is_cache_path(r)]
            rep.check(len(rs) == 1 and rs[0]["kind"] == "return", "C12-R1", f"{key}/taken", f"{en.fn.file}:{en.fn.line}",
                      "exactly the shortcut path is feasible for the pattern",
                      f"{len(rs)} feasible non-cache paths for the pattern ({[r['kind'] for r in rs]}); expected exactly the shortcut")
    rep.floor("C12-R1", 20)
    rep.floor("C12-R2", 2)
    # R3
    eng = terms.Engine(prog, inline=True, hooks=E.eval_hooks())       # private helpers of the layer are inlined
    f = prog.lib_fn(E.ALG + "compute_steady_states")
    if f is None:
        rep.unresolved("C12-R3", "compute_steady_states", "", "function not found")
    else:
        rep.functions.add(f.qual)
        s = eng.summary(f)
        g = ("param", f.param_names()[0])
        want = ("call", "biodivine_lib_param_bn::fixed_points::FixedPoints::symbolic", (g, S.UNIT(g)))
        alg = setalg.Alg()
        rep.check(alg.canon(s.ret) == alg.canon(want), "C12-R3", "compute_steady_states", f"{f.file}:{f.line}",
                  "FixedPoints::symbolic(graph, unit(graph))", f"computes {sem.short(s.ret, 200)}")
    f = prog.lib_fn(E.ALG + "compute_attractor_states")
    if f is None:
        rep.unresolved("C12-R3", "compute_attractor_states", "", "function not found")
    else:
        rep.functions.add(f.qual)
        s = eng.summary(f)
        pn = f.param_names()
        g, v = ("param", pn[0]), ("param", pn[1])
        problems = []
        ret = s.ret
        # result = mu(init = empty(g), step = X | attractor) over the library iterator
        if ret[0] != "mu":
            problems.append("result is not the union over the attractor iterator")
        else:
            alg = setalg.Alg()
            if not alg.equivalent(alg.interp(ret[3]), setalg.FALSE):
                problems.append("accumulation does not start from the empty set")
            unions = [x for x in subterms(ret[4]) if x[0] == "call" and setalg.is_trait_call(x[1], "Set", "union")]
            if not unions:
                problems.append("attractors are not united")
            bad = [x for x in subterms(ret[4]) if x[0] == "call" and (setalg.is_trait_call(x[1], "Set", "minus") or setalg.is_trait_call(x[1], "Set", "intersect"))]
            if bad:
                problems.append("the library result is modified by more than union")
        # the ITGR state is built from (graph, vertices) and the config from the graph
        itgr = calls_in(ret, "ItgrState::new")
        if not itgr or not any(c[2] and c[2][0] == g and c[2][-1] == v for c in itgr):
            problems.append("ItgrState is not built from the function's graph and universe")
        cfg = calls_in(ret, "AttractorConfig::new")
        if not cfg or not all(terms.mentions_param(c, pn[0]) for c in cfg):
            problems.append("AttractorConfig is not built from the function's graph")
        xb = calls_in(ret, "XieBeerelState::from", "from")
        rep.check(not problems, "C12-R3", "compute_attractor_states", f"{f.file}:{f.line}",
                  "union of the library's attractors for (graph, vertices)", "; ".join(problems))
    rep.floor("C12-R3", 2)
    cacheproto.check_store_guard(prog, rep, "C12-R4", en)
    rep.floor("C12-R4", 1)
