"""A-prov / A-abs core: global value numbering over the resolved, structured HIR.

Every function is summarised *without running it*: expressions are mapped to Herbrand terms over the
function's parameters, control-flow merges become `ite` / `switch` terms, loop-carried variables become
`mu` terms (init, update), local callees are substituted by their own summaries (recursion is cut with a
`rec` term).  Besides the value of the function the evaluator records every call site with

  * the terms of its arguments,
  * its *path condition* (the enclosing `if` / `match` arm / loop / closure contexts, with the conditions
    that are known because an earlier branch diverged),
  * two sets of tokens maintained by rule-supplied hooks: `may` (joined by union: "an obligation may still be
    open on some path") and `must` (joined by intersection: "this happened on every path").

All path rules of DESIGN.md (pairing, dominance, must-pass-through, control dependence) and all flow rules
(provenance, polarity, boundedness, taint) are evaluated on these summaries.  No path is enumerated, nothing
is executed, no solver is involved.

Term grammar (nested tuples):
  ("param", name) ("lit", v) ("def", path) ("unit",) ("never",) ("unk", tag)
  ("call", path, args) ("callv", callee, args) ("rec", path, args)
  ("ctor", path, args) ("struct", path, ((field, term)..)) ("tuple", items) ("array", items)
  ("field", base, name) ("proj", base, variant, index) ("tproj", base, index) ("index", base, idx)
  ("bin", op, a, b) ("not", a) ("neg", a) ("matches", scrut, patdesc) ("fmt", pieces)
  ("ite", cond, a, b) ("switch", scrut, ((patdesc, term)..)) ("join", terms)
  ("loopvar", loop_id, name) ("mu", loop_id, name, init, update) ("elem", collection)
  ("closure", id) ("hof", method, recv, body_term) ("mut", old, effect)
"""
import os
import sys

from hir import pat_bindings, walk, strip_blocks, macro_of, in_macro

sys.setrecursionlimit(20000)

UNIT = ("unit",)
NEVER = ("never",)

IDENTITY_METHODS = {"clone", "as_ref", "as_mut", "borrow", "borrow_mut", "to_owned", "as_str", "as_slice",
                    "as_deref", "by_ref", "as_mut_str", "into_boxed_str", "cloned", "copied"}
# methods of std collections / strings that take `&self`: calling them through a `&mut` binding changes nothing
READONLY_METHODS = {"contains_key", "get", "len", "is_empty", "iter", "keys", "values", "contains", "first", "last", "get_key_value", "starts_with", "ends_with",
                    "to_string", "as_str", "clone", "to_owned", "is_some", "is_none", "is_ok", "is_err", "as_ref", "eq", "ne", "cmp", "to_vec", "binary_search",
                    "chars", "bytes", "split", "trim", "find", "capacity", "is_subset", "is_superset", "is_disjoint", "union", "intersection", "difference"}
STRINGY = ("&str", "std::string::String", "&std::string::String", "&mut std::string::String", "&&str")
IDENTITY_FNS = ("std::boxed::Box::<T>::new", "std::convert::From::from", "std::convert::Into::into",
                "std::clone::Clone::clone", "std::borrow::ToOwned::to_owned", "std::convert::AsRef::as_ref")
HOF_METHODS = {"map", "filter", "for_each", "all", "any", "position", "find", "filter_map", "flat_map", "map_err",
               "and_then", "unwrap_or_else", "ok_or_else", "or_else", "is_some_and", "is_none_or", "retain",
               "take_while", "skip_while", "find_map", "inspect", "then", "map_or", "map_or_else", "fold",
               "rposition", "max_by_key", "min_by_key", "sort_by_key", "sort_by", "partition", "is_ok_and",
               "try_for_each", "try_fold", "map_while", "next_if", "min_by", "max_by", "is_some_and", "splitn"}
OPTION_HOFS = {"map_err": "Err", "and_then": None, "unwrap_or_else": "Err", "ok_or_else": None, "or_else": "Err"}



class Int:
    """Integer literal.  Python identifies True with 1 and False with 0 (`("lit", 1) == ("lit", True)`, same hash), which would
    merge `len == 1` with `len == true` in every memo table; integer literals are therefore kept in a type of their own that
    is equal to plain ints but never to bools."""
    __slots__ = ("v",)

    def __init__(self, v):
        self.v = int(v)

    def __eq__(self, o):
        if isinstance(o, Int):
            return self.v == o.v
        return type(o) is int and o == self.v

    def __ne__(self, o):
        return not self.__eq__(o)

    def __hash__(self):
        return hash(("Int", self.v))

    def __repr__(self):
        return repr(self.v)

    def __int__(self):
        return self.v

    __index__ = __int__

    def __lt__(self, o):
        return self.v < int(o)

    def __le__(self, o):
        return self.v <= int(o)

    def __gt__(self, o):
        return self.v > int(o)

    def __ge__(self, o):
        return self.v >= int(o)


def lit_value(v):
    return Int(v) if type(v) is int else v


def mk_ite(c, a, b):
    if a == b:
        return a
    if a[0] == "struct" and b[0] == "struct" and a[1] == b[1] and len(a[2]) == len(b[2]) and all(x[0] == y[0] for x, y in zip(a[2], b[2])):
        # the same struct either way: the choice is per field
        return ("struct", a[1], tuple((x[0], mk_ite(c, x[1], y[1])) for x, y in zip(a[2], b[2])))
    return ("ite", c, a, b)


def mk_mut(old, eff, path):
    """The value `old` after the in-place effect `eff` on the place `path` inside it.  A struct literal is updated field-wise."""
    if old[0] == "struct" and path and eff[0] == "call" and any(f == path[0] for f, _ in old[2]):
        rest = tuple(path[1:])
        return ("struct", old[1], tuple((f, mk_mut(t, eff, rest) if f == path[0] else t) for f, t in old[2]))
    return ("mut", old, eff, tuple(path))


def mk_join(ts):
    out = []
    for t in ts:
        if t is None or t == NEVER:
            continue
        if t[0] == "join":
            for x in t[1]:
                if x not in out:
                    out.append(x)
        elif t not in out:
            out.append(t)
    if not out:
        return NEVER
    if len(out) == 1:
        return out[0]
    return ("join", tuple(out))


def mk_field(base, name):
    if base[0] == "struct":
        for f, t in base[2]:
            if f == name:
                return t
    if base[0] == "tuple" and name.isdigit() and int(name) < len(base[1]):
        return base[1][int(name)]
    if base[0] == "ctor" and isinstance(name, str) and name.isdigit() and int(name) < len(base[2]):
        return base[2][int(name)]            # `.0` of a tuple struct (newtype) built right here
    if base[0] == "ite":
        return mk_ite(base[1], mk_field(base[2], name), mk_field(base[3], name))
    if base[0] == "mut" and len(base) == 4 and base[3] and base[3][0] != name:
        return mk_field(base[1], name)       # the in-place update concerned a different field
    if base[0] == "mut" and len(base) == 4 and base[3] and base[3][0] == name:
        # the in-place update concerned this very field: the field's own value, updated
        return ("mut", mk_field(base[1], name), base[2], tuple(base[3][1:]))
    return ("field", base, name)


def _same_variant(a, b):
    if a == b:
        return True
    if not isinstance(a, str) or not isinstance(b, str):
        return False
    sa, sb = a.split("::"), b.split("::")
    if sa[-1] == sb[-1] and sa[-1] in ("Some", "None", "Ok", "Err"):
        return True
    return sa[-2:] == sb[-2:]


def mk_proj(base, variant, idx):
    if base[0] == "ctor" and _same_variant(base[1], variant) and isinstance(idx, int) and idx < len(base[2]):
        return base[2][idx]
    if base[0] == "ctor" and isinstance(base[1], str) and base[1].rsplit("::", 1)[-1] == "Ok" and isinstance(variant, str) \
            and variant.rsplit("::", 1)[-1] == "Some" and idx == 0 and len(base[2]) == 1:
        return base[2][0]                     # the closure parameter of a Result combinator is written as a Some-payload
    if base[0] == "ctor" and not _same_variant(base[1], variant):
        return NEVER                          # projecting a variant out of a value built with another one
    if base[0] == "join":
        return mk_join([mk_proj(x, variant, idx) for x in base[1]])
    if base[0] == "struct" and base[1] == variant:
        for f, t in base[2]:
            if f == idx:
                return t
    return ("proj", base, variant, idx)


def mk_tproj(base, idx):
    if base[0] == "tuple" and idx < len(base[1]):
        return base[1][idx]
    return ("tproj", base, idx)


def subterms(t):
    """All subterms, pre-order (binding structure of mu is ignored: the update is a subterm)."""
    stack = [t]
    seen = set()
    while stack:
        x = stack.pop()
        if not isinstance(x, tuple):
            continue
        if id(x) in seen:
            continue                    # terms are DAGs: every shared object is visited once
        seen.add(id(x))
        if x and isinstance(x[0], str):
            yield x
            rest = x[1:]
        else:
            rest = x                    # a container of terms (argument tuple, switch arms, ...)
        for y in rest:
            if isinstance(y, tuple):
                stack.append(y)


def contains(t, pred):
    for s in subterms(t):
        if s and isinstance(s[0], str) and pred(s):
            return True
    return False


def mentions_param(t, name):
    return contains(t, lambda s: s[0] == "param" and len(s) > 1 and s[1] == name)


def calls_in(t, *suffixes):
    """All ("call"|"rec", path, args) subterms whose path ends with one of the suffixes."""
    out = []
    for s in subterms(t):
        if s and s[0] in ("call", "rec") and isinstance(s[1], str):
            if any(s[1] == x or s[1].endswith("::" + x) or s[1].endswith(x) for x in suffixes):
                out.append(s)
    return out


def replace(t, old, new, memo=None):
    """Replace every occurrence of subterm `old` by `new` (re-simplifying projections).  Memo by identity: terms are DAGs."""
    if memo is None:
        memo = {}
    if not isinstance(t, tuple) or not t:
        return t
    if t is old or (len(t) == len(old) and t[0] == old[0] and t == old):
        return new
    hit = memo.get(id(t))
    if hit is not None and hit[0] is t:
        return hit[1]
    r = tuple(replace(x, old, new, memo) if isinstance(x, tuple) else x for x in t)
    if all(a is b for a, b in zip(r, t)):
        r = t
    elif r and r[0] == "field" and len(r) == 3:
        r = mk_field(r[1], r[2])
    elif r and r[0] == "proj" and len(r) == 4:
        r = mk_proj(r[1], r[2], r[3])
    elif r and r[0] == "tproj" and len(r) == 3:
        r = mk_tproj(r[1], r[2])
    memo[id(t)] = (t, r)
    return r


def place_path(n):
    """Textual access path of a place expression (`eval_context.cache`), looking through borrows / derefs."""
    path = []
    while isinstance(n, dict):
        k = n.get("k")
        if k == "path" and n.get("res") == "local":
            return ".".join([n["name"]] + list(reversed(path)))
        if k == "field":
            path.append(n["name"])
            n = n["e"]
        elif k in ("ref", "cast") or (k == "un" and n.get("op") == "*"):
            n = n["e"]
        elif k == "index":
            n = n["e"]
        elif k == "mcall" and n.get("name") in IDENTITY_METHODS | {"get_mut", "unwrap", "iter_mut", "as_mut", "get", "iter"}:
            n = n["recv"]
        else:
            return None
    return None


def subst(t, mapping, memo=None):
    """Substitute ("param", n) by mapping[n].  Memo by identity: terms are DAGs."""
    if memo is None:
        memo = {}
    if not isinstance(t, tuple) or not t:
        return t
    hit = memo.get(id(t))
    if hit is not None and hit[0] is t:
        return hit[1]
    if t[0] == "param" and len(t) == 2 and t[1] in mapping:
        r = mapping[t[1]]
    else:
        r = tuple(subst(x, mapping, memo) if isinstance(x, tuple) else x for x in t)
        if all(a is b for a, b in zip(r, t)):
            r = t
        # re-simplify projections / fields that became reducible
        elif r and r[0] == "field" and len(r) == 3:
            r = mk_field(r[1], r[2])
        elif r and r[0] == "proj" and len(r) == 4:
            r = mk_proj(r[1], r[2], r[3])
        elif r and r[0] == "tproj" and len(r) == 3:
            r = mk_tproj(r[1], r[2])
    memo[id(t)] = (t, r)
    return r


def pat_desc(p):
    """Structural descriptor of a pattern (bindings are wildcards)."""
    if not isinstance(p, dict):
        return ("wild",)
    k = p.get("k")
    if k == "wild":
        return ("wild",)
    if k == "bind":
        return pat_desc(p["sub"]) if p.get("sub") else ("wild",)
    if k == "pts":
        subs = [pat_desc(s) for s in p["subs"]]
        return ("var", p.get("ctor_of") or p.get("def"), tuple(subs), p.get("dd"))
    if k == "ppath":
        return ("var", p.get("ctor_of") or p.get("def"), (), None)
    if k == "pstruct":
        return ("var", p.get("ctor_of") or p.get("def"), tuple((f["name"], pat_desc(f["pat"])) for f in p["fields"]), "struct")
    if k == "por":
        return ("or", tuple(pat_desc(s) for s in p["subs"]))
    if k == "pslice":
        return ("slice", tuple(pat_desc(s) for s in (p.get("before") or [])), bool(p.get("mid")), tuple(pat_desc(s) for s in (p.get("after") or [])))
    if k in ("pref", "pderef"):
        return pat_desc(p["sub"])
    if k == "ptup":
        return ("tuple", tuple(pat_desc(s) for s in p["subs"]), p.get("dd"))
    if k == "plit":
        return ("lit", lit_value(p.get("v")))
    if k == "prange":
        lo = p.get("lo") or {}
        hi = p.get("hi") or {}
        return ("range", lo.get("v") if isinstance(lo, dict) else None, hi.get("v") if isinstance(hi, dict) else None, p.get("end"))
    if k == "pguard":
        return pat_desc(p["sub"])
    return ("other", k)


def desc_variants(d):
    """Set of variant paths a descriptor can match at top level; None = anything."""
    if d[0] == "wild":
        return None
    if d[0] == "var":
        return {d[1]}
    if d[0] == "or":
        out = set()
        for s in d[1]:
            v = desc_variants(s)
            if v is None:
                return None
            out |= v
        return out
    return None


def is_concrete_term(t):
    """Has a known outermost constructor (worth specialising a callee for)."""
    return isinstance(t, tuple) and bool(t) and t[0] in ("ctor", "struct", "lit", "vec", "array") or \
        (isinstance(t, tuple) and bool(t) and t[0] == "tuple" and any(is_concrete_term(x) for x in t[1]))


def is_fresh_collection(t):
    if not (t[0] == "call" and isinstance(t[1], str)):
        return False
    name = t[1].rsplit("::", 1)[-1]
    if name == "with_capacity" and len(t[2]) == 1:
        return True                 # the capacity is not part of the value
    return name in ("new", "default") and not [a for a in t[2] if a[0] != "lit"]


def _single_effect_leaf(u, lv):
    """u is a tree of `ite`s whose leaves are all `lv` (nothing happens) except exactly one: (condition of that leaf, the leaf)."""
    found = []

    def walk(t, cond):
        if len(found) > 1:
            return
        if t == lv:
            return
        if t[0] == "ite":
            walk(t[2], t[1] if cond is None else ("bin", "&&", cond, t[1]))
            walk(t[3], ("not", t[1]) if cond is None else ("bin", "&&", cond, ("not", t[1])))
            return
        found.append((cond if cond is not None else ("lit", True), t))
    walk(u, None)
    return found[0] if len(found) == 1 else None


def as_push_step(u, lv):
    """u == ite(C, mut(lv <- push(V)), lv)  (branches swapped, or nested: `if A { continue } if B { continue } v.push(V)`)  ->  (C, V)"""
    if u[0] != "ite":
        return None
    leaf = _single_effect_leaf(u, lv)
    if leaf is None:
        return None
    cond, m = leaf
    if m[0] == "mut" and m[1] == lv and m[2][0] == "call" and isinstance(m[2][1], str) and m[2][1].rsplit("::", 1)[-1] in ("push", "push_back") and len(m[2][2]) == 1:
        return cond, m[2][2][0]
    return None


def as_insert_step(u, lv):
    """u == mut(lv <- insert(K, V))  or  ite(C, mut(lv <- insert(K, V)), lv)   ->   (C, K, V)"""
    cond = ("lit", True)
    if u[0] == "ite":
        if u[3] == lv:
            cond, u = u[1], u[2]
        elif u[2] == lv:
            cond, u = ("not", u[1]), u[3]
        else:
            return None
    if u[0] == "mut" and u[1] == lv and u[2][0] == "call" and isinstance(u[2][1], str) and u[2][1].rsplit("::", 1)[-1] == "insert" and len(u[2][2]) == 2:
        return cond, u[2][2][0], u[2][2][1]
    return None


def strip_iter_adapters(t):
    while isinstance(t, tuple) and t and t[0] == "call" and isinstance(t[1], str) and t[1].rsplit("::", 1)[-1] in \
            ("iter", "into_iter", "rev", "cloned", "copied", "by_ref", "iter_mut") and len(t[2]) == 1:
        t = t[2][0]
    return t


class Site:
    """A call site (or another interesting operation: index, try, assign, panic, deref) with its context."""
    __slots__ = ("node", "fn", "kind", "callee", "inst", "name", "args", "argnodes", "pc", "may", "must", "loops",
                 "term", "ordinal", "ty", "closure")

    def __init__(self, **kw):
        for s in self.__slots__:
            setattr(self, s, kw.get(s))

    def short(self):
        c = self.callee or self.name or self.kind
        return c.rsplit("::", 1)[-1] if isinstance(c, str) else str(c)

    def is_call_to(self, *suffixes):
        c = self.callee
        if not isinstance(c, str):
            return False
        return any(c == s or c.endswith("::" + s) for s in suffixes)

    def line(self):
        return self.node["sp"][0] if self.node and self.node.get("sp") else None

    def where(self):
        return f"{self.fn.file}:{self.line()}"


class Summary:
    def __init__(self, fn):
        self.fn = fn
        self.ret = NEVER
        self.returns = []     # (term, pc, may, must, node, kind)   kind: "tail" | "return" | "try"
        self.sites = []
        self.deep_sites = []  # sites of inlined callees (arguments substituted, path conditions prefixed)
        self.loops = {}       # loop_id -> {"vars": {name: (init, update)}, "node": .., "exits": [..]}
        self.closures = {}
        self.env_end = None
        self.mut_out = {}     # `&mut` parameter name -> its value when the function returns (only if it is changed)
        self.unresolved = []  # constructs the evaluator could not interpret

    def sites_to(self, *suffixes, deep=False):
        pool = self.sites + self.deep_sites if deep else self.sites
        return [s for s in pool if s.kind in ("call", "mcall") and s.is_call_to(*suffixes)]

    def all_sites(self):
        return self.sites + self.deep_sites


class State:
    __slots__ = ("env", "may", "must")

    def __init__(self, env, may=frozenset(), must=frozenset()):
        self.env = env
        self.may = may
        self.must = must

    def copy(self):
        return State(dict(self.env), self.may, self.must)


def merge_states(a, b, cond):
    if a is None:
        return b
    if b is None:
        return a
    env = {}
    for k in set(a.env) | set(b.env):
        ta, tb = a.env.get(k), b.env.get(k)
        if ta is None or tb is None:
            # declared in one branch only: out of scope afterwards
            continue
        env[k] = mk_ite(cond, ta, tb)
    return State(env, a.may | b.may, a.must & b.must)


def _variant_test(x):
    """`x.is_some()`, `x.is_none()`, `matches(x, Some(_))`, `matches(x, None)` (and Ok / Err) are one atom `x is Some` (`x is Ok`) with a
    polarity: (atom, positive) or None."""
    if x[0] == "call" and isinstance(x[1], str) and len(x[2]) == 1:
        l = x[1].rsplit("::", 1)[-1]
        if l in ("is_some", "is_none") and "Option" in x[1]:
            return ("#is", "Some", x[2][0]), l == "is_some"
        if l in ("is_ok", "is_err") and "Result" in x[1]:
            return ("#is", "Ok", x[2][0]), l == "is_ok"
    if x[0] == "matches" and len(x) == 3 and isinstance(x[2], tuple) and x[2] and x[2][0] == "var" and isinstance(x[2][1], str):
        l = x[2][1].rsplit("::", 1)[-1]
        subs = x[2][2] if len(x[2]) > 2 else ()
        if l in ("Some", "None", "Ok", "Err") and all(isinstance(y, tuple) and y and y[0] in ("wild", "bind") and (y[0] == "wild" or len(y) < 3 or not y[2]) for y in subs):
            return ("#is", "Some" if l in ("Some", "None") else "Ok", x[1]), l in ("Some", "Ok")
    return None


def _strip_not(x, pol):
    while isinstance(x, tuple) and x and x[0] == "not":
        x, pol = x[1], not pol
    if isinstance(x, tuple) and x and x[0] in ("call", "matches"):
        v = _variant_test(x)
        if v is not None:
            return v[0], (pol if v[1] else not pol)
    return x, pol


def to_clauses(t, pol, cap=12):
    """Clauses (lists of (atom, polarity)) of a Boolean term with the given polarity; compound parts beyond the cap stay atoms."""
    t, pol = _strip_not(t, pol)
    if t[0] == "lit" and isinstance(t[1], bool):
        return [] if t[1] == pol else [[]]
    if t[0] == "bin" and t[1] in ("&&", "||"):
        if (t[1] == "&&") == pol:
            return to_clauses(t[2], pol, cap) + to_clauses(t[3], pol, cap)
        ca, cb = to_clauses(t[2], pol, cap), to_clauses(t[3], pol, cap)
        if len(ca) * len(cb) <= cap:
            return [x + y for x in ca for y in cb]
    return [[(t, pol)]]


def _lit_value(x, pol, lits):
    for f, fp in lits:
        if x is f or (x[0] == f[0] and len(x) == len(f) and x == f):
            return fp == pol
    return None


def propagate_clauses(lits, clauses):
    """Unit propagation: (literals, remaining clauses), or None when the facts are contradictory."""
    lits = list(lits)
    clauses = [list(c) for c in clauses]
    changed = True
    while changed:
        changed = False
        rest = []
        for c in clauses:
            keep, sat = [], False
            for (x, pol) in c:
                v = _lit_value(x, pol, lits)
                if v is True:
                    sat = True
                    break
                if v is None:
                    keep.append((x, pol))
            if sat:
                changed = changed or True
                continue
            if not keep:
                return None
            if len(keep) == 1:
                x, pol = keep[0]
                # a unit may itself be compound: decompose
                sub = to_clauses(x, pol)
                if sub == [[(x, pol)]]:
                    lits.append((x, pol))
                else:
                    lits.append((x, pol))
                    rest.extend(sub)
                changed = True
                continue
            if len(keep) != len(c):
                changed = True
            rest.append(keep)
        clauses = rest
    return lits, clauses


def assume(t, pc):
    """Simplify a term under the facts of a path condition: occurrences of a condition term are replaced by its known value; with
    disjunctive facts, `ite` chains are split by cases (a branch that contradicts the facts is dropped, equal branches merge)."""
    lits, clauses = [], []
    for c in pc:
        if c[0] == "if":
            x, pol = _strip_not(c[1], c[2])
            cl = to_clauses(x, pol)
            if len(cl) != 1 or len(cl[0]) != 1:
                lits.append((x, pol))           # the compound itself, for whole-term replacement
            clauses += cl
            if pol and x[0] == "hof" and x[1] == "all" and len(x) > 3 and isinstance(x[3], tuple):
                clauses += to_clauses(x[3], True)       # what holds for every element holds for the element at hand
    pr = propagate_clauses(lits, clauses)
    if pr is None:
        return t
    lits, clauses = pr
    if not lits and not clauses:
        return t
    try:
        return _assume(t, lits, clauses, 0, [0])
    except _AssumeBudget:
        return t                    # simplification is optional: a term too large to split by cases stays as it is


class _AssumeBudget(Exception):
    pass


ASSUME_BUDGET = 400000


def _assume(t, facts, clauses, depth, spent=None):
    memo = {}
    spent = spent if spent is not None else [0]

    def branch(x, c, pol):
        cx, cp = _strip_not(c, pol)
        pr = propagate_clauses(facts + [(cx, cp)], clauses + to_clauses(cx, cp))
        if pr is None:
            return None                     # this branch contradicts the facts
        return _assume(x, pr[0], pr[1], depth + 1, spent)

    def go(x):
        if not isinstance(x, tuple) or not x:
            return x
        hit = memo.get(id(x))
        if hit is not None and hit[0] is x:
            return hit[1]
        spent[0] += 1
        if spent[0] > ASSUME_BUDGET:
            raise _AssumeBudget()
        r = None
        for f, pol in facts:
            if x is f or (x[0] == f[0] and len(x) == len(f) and x == f):
                r = ("lit", pol)
                break
        if r is None and x[0] in ("call", "matches"):
            v = _variant_test(x)
            if v is not None:
                for f, pol in facts:
                    if f[0] == "#is" and f == v[0]:
                        r = ("lit", pol if v[1] else not pol)
                        break
        if r is None and x[0] == "ite" and clauses and depth < 5:
            c = go(x[1])
            cc, cpol = _strip_not(c, True)
            if cc[0] == "lit" and isinstance(cc[1], bool):
                r = go(x[2]) if cc[1] == cpol else go(x[3])
            else:
                a, b = branch(x[2], c, True), branch(x[3], c, False)
                if a is None and b is None:
                    r = x
                elif a is None:
                    r = b
                elif b is None:
                    r = a
                elif a is b or a == b:
                    r = a
                else:
                    r = ("ite", c, a, b)
        if r is None:
            r = tuple(go(y) if isinstance(y, tuple) else y for y in x)
            if r[0] == "ite" and r[1] == ("lit", True):
                r = r[2]
            elif r[0] == "ite" and r[1] == ("lit", False):
                r = r[3]
            elif r[0] == "ite" and r[1][0] == "not" and r[1][1] in (("lit", True), ("lit", False)):
                r = r[3] if r[1][1] == ("lit", True) else r[2]
            elif all(a is b for a, b in zip(r, x)):
                r = x
        memo[id(x)] = (x, r)
        return r

    return go(t)


def pc_term(pc, skip_try=False):
    """Path condition as one Boolean term (loop / closure markers carry no condition)."""
    out = None
    for c in pc:
        if skip_try and c[0] == "if" and len(c) > 4 and c[4] == "try":
            continue
        if c[0] == "if":
            t = c[1] if c[2] else ("not", c[1])
        elif c[0] == "match":
            t = ("matches", c[1], c[2]) if c[3] else ("not", ("matches", c[1], c[2]))
            if c[3] and c[2][0] in ("wild", "var", "or", "tuple", "lit"):
                # an arm is taken only if no earlier arm was: needed when the pattern overlaps earlier ones (catch-all arms)
                overlapping = c[2][0] == "wild" or (c[2][0] == "tuple") or (c[2][0] == "var" and any(x[0] == "wild" for x in c[2][2] if isinstance(x, tuple)))
                if overlapping:
                    for d in (c[5] if len(c) > 5 else ()):
                        t = ("bin", "&&", t, ("not", ("matches", c[1], d)))
                    for d, g in (c[7] if len(c) > 7 else ()):
                        t = ("bin", "&&", t, ("not", ("bin", "&&", ("matches", c[1], d), g)))
        else:
            continue
        out = t if out is None else ("bin", "&&", out, t)
    return out


def ret_term(returns):
    """Value of a function with several exits: exits are mutually exclusive, earlier ones take precedence, so the value is
    ite(c1, t1, ite(c2, t2, .. t_last)).  Exits inside loops keep their (loop-variable dependent) conditions."""
    rs = [r for r in returns if r[0] != NEVER]
    if not rs:
        return NEVER
    if len(rs) == 1:
        return rs[0][0]
    if all(r[0] == rs[0][0] for r in rs):
        return rs[0][0]
    acc = rs[-1][0]
    for r in reversed(rs[:-1]):
        c = pc_term(r[1], skip_try=True)      # the value describes the exits taken when no `?` fires
        if c is None:
            acc = mk_join([r[0], acc])
        else:
            acc = mk_ite(c, r[0], acc)
    return acc


def ret_term_full(returns):
    """Like ret_term, but the exits taken by `?` are part of the value: None / Err(e) when the tested value is not Some / Ok."""
    import norm
    rs = []
    for r in returns:
        if r[5] != "try":
            rs.append(r)
            continue
        v, pc, may, must, node, kind = r
        is_res = "Result<" in str((node or {}).get("e", {}).get("ty", "")) if isinstance(node, dict) else True
        if is_res:
            val = ("ctor", "std::prelude::v1::Err", (("proj", v, "std::prelude::v1::Err", 0),))
            test = ("matches", v, norm.OK_DESC)
        else:
            val = ("ctor", "std::prelude::v1::None", ())
            test = ("matches", v, norm.SOME_DESC)
        rs.append((val, tuple(pc) + (("if", test, False, None),), may, must, node, "return"))
    return ret_term(rs)


_API_CACHE = {}


class Engine:
    """Memoising interprocedural driver. `hooks`: object with optional methods
       on_site(ev, site)  -- may modify ev.st.may / ev.st.must
       opaque(fn) -> bool -- do not inline this local callee"""

    def __init__(self, prog, inline=True, hooks=None, max_depth=12):
        self.prog = prog
        self.inline = inline
        self.hooks = hooks
        self.memo = {}
        self.stack = []
        self.max_depth = max_depth
        self.pe_memo = {}
        self.pe_stack = []
        self._api = None

    def api_forms(self):
        if self._api is None:
            self._api = _API_CACHE.setdefault(id(self.prog), ApiForms(self.prog))
        return self._api

    def specialise(self, fn, bindings):
        """Online partial evaluation: summarise `fn` with some parameters bound to concrete constructor terms. Branches whose
        condition folds to a constant are not explored, loops over literal collections are unrolled, local callees that receive
        concrete arguments are specialised in turn."""
        key = (fn.qual, tuple(sorted(bindings.items(), key=lambda kv: kv[0])))
        if key in self.pe_memo:
            return self.pe_memo[key]
        if key in self.pe_stack or len(self.pe_stack) > 24:
            return None
        self.pe_stack.append(key)
        try:
            s = Evaluator(self, fn, bindings=dict(bindings)).run()
        finally:
            self.pe_stack.pop()
        self.pe_memo[key] = s
        return s

    def summary(self, fn):
        if fn.qual in self.memo:
            return self.memo[fn.qual]
        if fn.qual in self.stack or len(self.stack) > self.max_depth:
            return None
        self.stack.append(fn.qual)
        try:
            s = Evaluator(self, fn).run()
        finally:
            self.stack.pop()
        # summaries computed while a recursion was cut below are still memoised: the cut is explicit (`rec`)
        self.memo[fn.qual] = s
        return s


def unify(pat, t, sigma, depth=0):
    """Match term `t` against `pat`, whose ("param", name) leaves are variables (bound consistently in sigma)."""
    if isinstance(pat, tuple) and pat and pat[0] == "param" and len(pat) == 2:
        if pat[1] in sigma:
            return sigma[pat[1]] is t or sigma[pat[1]] == t
        sigma[pat[1]] = t
        return True
    if pat is t:
        return True
    if not isinstance(pat, tuple) or not isinstance(t, tuple):
        return pat == t
    if len(pat) != len(t) or depth > 400:
        return False
    for a, b in zip(pat, t):
        if isinstance(a, tuple):
            if not isinstance(b, tuple) or not unify(a, b, sigma, depth + 1):
                return False
        elif a != b:
            return False
    return True


class ApiHooks:
    """Inside one module: the public functions and the recursive workers are the vocabulary; every other function is a helper."""

    api_forms = False

    def __init__(self, eng, module):
        self.eng = eng
        self.module = module

    def opaque(self, fn):
        if not fn.path.startswith(self.module + "::"):
            return True
        return fn.vis == "Public" or self.eng.is_recursive(fn)


def _term_size(t, cap=40):
    n = 0
    stack = [t]
    while stack and n < cap:
        x = stack.pop()
        if isinstance(x, tuple):
            n += 1
            stack.extend(x)
    return n


class ApiForms:
    """A crate-internal helper G of a module whose value is (an expression over) what a public function F of that module computes is
    *presented through F*: the body of G (helpers inlined, public functions and recursive workers kept as symbols) is searched for
    instances of the body of F, and each instance is folded into the call F(..).  So `supports(stg, &t)` with
    `pub fn check(stg, t) { supports(stg, &t) }` reads `check(stg, t)`, and `count(&t)` with `pub fn collect(t) { ..; seen }`,
    `fn count(t) { ..; seen.len() }` reads `len(collect(t))`: rules keep referring to the public vocabulary of the property texts."""

    def __init__(self, prog):
        self.prog = prog
        self.memo = {}
        self.rec_memo = {}
        self.raw = Engine(prog, inline=False)
        self.engines = {}

    def callees(self, fn):
        s = self.raw.summary(fn)
        out = []
        for x in (s.sites if s is not None else []):
            if x.kind in ("call", "mcall") and isinstance(x.callee, str):
                g = self.prog.resolve_local(fn.crate, x.callee)
                if g is not None and not g.derived:
                    out.append(g)
        return out

    def is_recursive(self, fn):
        if fn.qual in self.rec_memo:
            return self.rec_memo[fn.qual]
        seen, stack, rec = set(), list(self.callees(fn)), False
        while stack and len(seen) < 400:
            g = stack.pop()
            if g is fn:
                rec = True
                break
            if g.qual in seen:
                continue
            seen.add(g.qual)
            stack.extend(self.callees(g))
        self.rec_memo[fn.qual] = rec
        return rec

    def engine(self, module):
        if module not in self.engines:
            self.engines[module] = Engine(self.prog, inline=True, hooks=ApiHooks(self, module))
        return self.engines[module]

    def pure(self, fn, summ):
        return summ is not None and not getattr(summ, "mut_out", None) and not any(str(t).startswith("&mut") for t in fn.param_tys)

    def form(self, g, exclude):
        """(term over g's parameters with folded public calls, [(public fn, argument terms)]) or None."""
        key = (g.qual, exclude.qual if exclude is not None else None)
        if key in self.memo:
            return self.memo[key]
        self.memo[key] = None
        if g.vis == "Public" or g.derived or "::" not in g.path or self.is_recursive(g):
            return None
        module = g.path.rsplit("::", 1)[0]
        eng = self.engine(module)
        sg = eng.summary(g)
        if not self.pure(g, sg):
            return None
        body = getattr(sg, "ret_full", None) or sg.ret
        if body is None or body == NEVER:
            return None
        pats = []
        for f in self.prog.lib_fns():
            if f is g or f is exclude or f.vis != "Public" or f.crate != g.crate or not f.path.startswith(module + "::") or f.path.count("::") != g.path.count("::"):
                continue
            if str(f.ret) in ("()", "None", ""):
                continue
            sf = eng.summary(f)
            if not self.pure(f, sf):
                continue
            pat = getattr(sf, "ret_full", None) or sf.ret
            names = f.param_names()
            if pat is None or pat == NEVER or _term_size(pat) < 4 or not names or not all(mentions_param(pat, nm) for nm in names):
                continue
            pats.append((f, pat, names))
        if not pats:
            return None
        folded = []
        idm = {}

        def fold(x):
            if not isinstance(x, tuple) or not x:
                return x
            hit = idm.get(id(x))
            if hit is not None and hit[0] is x:
                return hit[1]
            r = None
            for f, pat, names in pats:
                if x[0] != pat[0] or len(x) != len(pat):
                    continue
                sigma = {}
                if unify(pat, x, sigma) and all(nm in sigma for nm in names):
                    args = tuple(fold(sigma[nm]) for nm in names)
                    r = ("call", f.path, args)
                    folded.append((f, args))
                    break
            if r is None:
                r = tuple(fold(y) if isinstance(y, tuple) else y for y in x)
                if all(a is b for a, b in zip(r, x)):
                    r = x
            idm[id(x)] = (x, r)
            return r

        out = fold(body)
        if not folded:
            return None
        self.memo[key] = (out, folded)
        return self.memo[key]


class Evaluator:
    def __init__(self, engine, fn, bindings=None):
        self.eng = engine
        self.prog = engine.prog
        self.fn = fn
        self.bindings = bindings or {}
        self.pe = bool(bindings)
        # generic parameters bound to concrete types (the function was specialised for a call `f::<T>(..)`)
        self.tyenv = {k_[4:]: v_[1] for k_, v_ in self.bindings.items() if isinstance(k_, str) and k_.startswith("#ty:")}
        self._fold_memo = {}
        self.summ = Summary(fn)
        self.st = None
        self.mut_params = {}
        self.mut_exits = {}
        self.closure_tries = []
        self._const_depth = 0
        self.closure_rets = []
        self._cont_conds = {}
        self._break_conds = {}
        self._beta_memo = {}
        self.pc = []              # path condition stack
        self._pc_marks = []
        self.loop_stack = []      # (loop_id, break_states, continue_states, label)
        self.closure_stack = []
        self.ordinals = {}

    # ------------------------------------------------------------------ helpers
    def run(self):
        env = {}
        for p in self.fn.params:
            self._bind_param(p, env)
        self.st = State(env)
        self._tail_done = False
        v = self.expr(self.fn.body)
        if self.st is not None and not self._tail_done:
            self._ret(v, self.fn.body, "tail")
        self._normalize()
        import norm
        nz = norm.Normalizer()
        self.summ.ret = nz(ret_term([r for r in self.summ.returns if r[5] != "try"]))
        self.summ.ret_full = nz(ret_term_full(self.summ.returns)) if any(r[5] == "try" for r in self.summ.returns) else self.summ.ret
        srch = self._recognise_search()
        if srch is None:
            srch = self._recognise_any()
        if srch is None:
            srch = self._recognise_find()
        if srch is not None:
            self.summ.ret = self.summ.ret_full = srch
        # final value of every `&mut` parameter (as a function of the parameters), for callers that inline this function
        self.summ.mut_out = {}
        for name, exits in self.mut_exits.items():
            ex = [(nz(t), nz.pc(pc), a, b, n_, k) for (t, pc, a, b, n_, k) in exits if k != "try"]
            if ex and any(e[0] != ("param", name) for e in ex):
                self.summ.mut_out[name] = nz(ret_term(ex))
        return self.summ

    def _recognise_search(self):
        """`let mut i = 0; while i < s.len() { if P(s[i]) { return Some(i) } i += 1 } None` (or `for i in 0..s.len()`) is the linear
        search `s.iter().position(|x| P(x))`: the value of such a function is given in that form, so callers see one idiom."""
        rs = self.summ.returns
        if len(rs) != 2 or any(r[5] == "try" for r in rs):
            return None
        hit, miss = rs
        if miss[5] != "tail" or miss[0] != ("ctor", "std::prelude::v1::None", ()) or any(c[0] in ("if", "match") for c in miss[1]):
            return None
        if hit[5] != "return" or hit[0][0] != "ctor" or hit[0][1] != "std::prelude::v1::Some" or len(hit[0][2]) != 1:
            return None
        pc = hit[1]
        if not pc or pc[0][0] != "loop":
            return None
        lid, kind = pc[0][1], pc[0][2]
        info = self.summ.loops.get(lid, {})
        idx_val = hit[0][2][0]
        conds = [c for c in pc[1:]]
        if any(c[0] not in ("if", "match") for c in conds):
            return None
        seq = None
        if kind == "while":
            vars_ = info.get("vars", {})
            if len(vars_) != 1:
                return None
            (name, (init, upd)), = vars_.items()
            lv = ("loopvar", lid, name)
            if init != ("lit", Int(0)) and init != ("lit", 0):
                return None
            if upd not in (("bin", "+", lv, ("lit", 1)), ("bin", "+", ("lit", 1), lv)):
                return None
            if idx_val != ("mu", lid, name, init, upd) and idx_val != lv:
                return None
            if not conds or conds[0][0] != "if" or conds[0][2] is not True:
                return None
            c0 = conds[0][1]
            if c0[0] == "bin" and c0[1] in ("<", "!=") and c0[2] == lv and c0[3][0] == "call" and c0[3][1] == "#len" and len(c0[3][2]) == 1:
                seq = c0[3][2][0]
            else:
                return None
            conds = conds[1:]
            ivar = lv
        else:
            return None
        if not conds or contains(seq, lambda x: x[0] == "loopvar"):
            return None
        at = ("index", seq, ivar)
        elem = ("elem", seq)
        body = None
        for c in conds:
            t = c[1] if c[0] == "if" else ("matches", c[1], c[2])
            pol = c[2] if c[0] == "if" else c[3]
            t = replace(t, at, elem)
            if contains(t, lambda x: x == ivar):
                return None
            t = t if pol else ("not", t)
            body = t if body is None else ("bin", "&&", body, t)
        import norm
        return norm.Normalizer()(("hof", "position", ("call", "core::slice::<impl [T]>::iter", (seq,)), body, ()))

    def _recognise_find(self):
        """`for x in it { let v = V(x); if P(v) { return Some(v) } } None` is `it.map(V).find(P)`: the value of such a function is
        given in that form (the search idiom of iterator pipelines), so callers see one idiom."""
        rs = self.summ.returns
        if len(rs) != 2 or any(r[5] == "try" for r in rs):
            return None
        hit, miss = rs
        if miss[5] != "tail" or any(c[0] in ("if", "match") for c in miss[1]) or hit[5] != "return":
            return None
        if miss[0] != ("ctor", "std::prelude::v1::None", ()) or hit[0][0] != "ctor" or hit[0][1] != "std::prelude::v1::Some" or len(hit[0][2]) != 1:
            return None
        pc = hit[1]
        if not pc or pc[0][0] != "loop" or pc[0][2] != "for" or any(c[0] == "loop" for c in pc[1:]):
            return None
        lid = pc[0][1]
        fors = [x for x in self.summ.sites if x.kind == "for" and x.node is not None and x.node.get("id") == lid]
        if len(fors) != 1 or contains(fors[0].args[0], lambda x: x[0] == "loopvar"):
            return None
        it = fors[0].args[0]
        val = hit[0][2][0]
        if contains(val, lambda x: x[0] in ("loopvar", "mu")) or not contains(val, lambda x: x[0] == "elem"):
            return None
        mapped = ("hof", "map", it, val, ())
        hole = ("elem", mapped)
        body = None
        for c in pc[1:]:
            if c[0] != "if":
                return None
            t0 = replace(c[1], val, ("param", "#found"))
            if contains(t0, lambda x: x[0] in ("loopvar", "mu", "elem")):
                return None             # the test looks at more than the value that is returned
            t = replace(t0, ("param", "#found"), hole)
            t = t if c[2] else ("not", t)
            body = t if body is None else ("bin", "&&", body, t)
        if body is None:
            return None
        import norm
        return norm.Normalizer()(("hof", "find", mapped, body, ()))

    def _recognise_any(self):
        """`for x in it { if P(x) { return true } } false` is `it.any(|x| P(x))` (and with the truth values swapped, `!it.any(..)`): the
        value of such a function is given in that form, so that "some element" and "every element" are not confused."""
        rs = self.summ.returns
        if len(rs) != 2 or any(r[5] == "try" for r in rs):
            return None
        hit, miss = rs
        if miss[5] != "tail" or any(c[0] in ("if", "match") for c in miss[1]) or hit[5] != "return":
            return None
        if not (hit[0][0] == "lit" and isinstance(hit[0][1], bool) and miss[0][0] == "lit" and isinstance(miss[0][1], bool) and hit[0][1] != miss[0][1]):
            return None
        pc = hit[1]
        if not pc or pc[0][0] != "loop" or pc[0][2] != "for":
            return None
        lid = pc[0][1]
        fors = [x for x in self.summ.sites if x.kind == "for" and x.node is not None and x.node.get("id") == lid]
        if len(fors) != 1 or contains(fors[0].args[0], lambda x: x[0] == "loopvar"):
            return None
        it = fors[0].args[0]
        body = None
        for c in pc[1:]:
            if c[0] not in ("if", "match"):
                return None
            t = c[1] if c[0] == "if" else ("matches", c[1], c[2])
            pol = c[2] if c[0] == "if" else c[3]
            if c[0] == "match" and (len(c) > 5 and c[5]):
                return None             # earlier arms take part in the condition
            if contains(t, lambda x: x[0] in ("loopvar", "mu")):
                return None
            t = t if pol else ("not", t)
            body = t if body is None else ("bin", "&&", body, t)
        if body is None:
            return None
        import norm
        found = ("hof", "any", it, body, ())
        return norm.Normalizer()(found if hit[0][1] else ("not", found))

    def _normalize(self):
        """Idiom normal forms (norm.py) for everything a rule can look at."""
        import norm
        nz = norm.Normalizer()
        sm = self.summ
        sm.returns = [(nz(t), nz.pc(pc), may, must, node, kind) for (t, pc, may, must, node, kind) in sm.returns]
        for s in sm.sites + sm.deep_sites:
            if s.args:
                s.args = [nz(a) if isinstance(a, tuple) else a for a in s.args]
            if isinstance(s.term, tuple):
                s.term = nz(s.term)
            s.pc = nz.pc(s.pc)
        for lid, info in sm.loops.items():
            if "vars" in info:
                info["vars"] = {k: (nz(i), nz(u)) for k, (i, u) in info["vars"].items()}
            if info.get("cond") is not None:
                info["cond"] = nz(info["cond"])

    def _close_returns(self, start, close):
        """A `return` inside a loop yields the value of its variables at *some* iteration: the loop iterate (mu)."""
        for name, exits in self.mut_exits.items():
            for i in range(len(exits)):
                t, pc, a, b, n_, k = exits[i]
                if pc and pc[-1][0] == "if" and len(pc[-1]) > 4 and pc[-1][4] == "try-exit" and contains(pc[-1][1], lambda s_: s_[0] == "loopvar"):
                    # the tested value of a `?` inside the loop: closed like the value of the exit in `returns` (ret_full agrees)
                    pc = pc[:-1] + (("if", close(pc[-1][1])) + tuple(pc[-1][2:]),)
                    exits[i] = (t, pc, a, b, n_, k)
                if contains(t, lambda s_: s_[0] == "loopvar"):
                    exits[i] = (close(t), pc, a, b, n_, k)
        def close_pc(pc):
            """Loop variables in the conditions of an exit: a variable that no path back to the loop head changes is its initial value
            (genuinely iterated values stay: the condition then speaks about some iteration)."""
            out, changed = [], False
            for c in pc:
                if c[0] in ("if", "match") and isinstance(c[1], tuple) and contains(c[1], lambda s_: s_[0] == "loopvar"):
                    memo_ = {}
                    lvs = [y for y in [c[1]] + list(subterms(c[1])) if y[0] == "loopvar"]
                    t2 = c[1]
                    for lv in lvs:
                        if lv in memo_:
                            continue
                        cv = close(lv)
                        memo_[lv] = cv
                        if not contains(cv, lambda s_: s_[0] in ("mu", "loopvar", "collect", "collectmap", "hof", "unk")):
                            t2 = replace(t2, lv, cv)
                    if t2 is not c[1]:
                        c = (c[0], t2) + tuple(c[2:])
                        changed = True
                out.append(c)
            return tuple(out) if changed else pc
        for name, exits in self.mut_exits.items():
            for i in range(len(exits)):
                t, pc, a, b, n_, k = exits[i]
                pc2 = close_pc(pc)
                if pc2 is not pc:
                    exits[i] = (t, pc2, a, b, n_, k)
        rs = self.summ.returns
        for i in range(start, len(rs)):
            t, pc, may, must, node, kind = rs[i]
            pc = close_pc(pc)
            # what is known on this exit (its own path condition) is used before the loop variables are closed
            import norm
            nz = norm.Normalizer()
            npc = nz.pc(pc)
            t = nz(assume(nz(t), npc))
            for c in npc:
                # an exit taken because `F(x) == x` returns x, whichever side of the equation the code names
                if c[0] == "if" and c[2] is True and c[1][0] == "bin" and c[1][1] == "==":
                    for a_, b_ in ((c[1][2], c[1][3]), (c[1][3], c[1][2])):
                        if b_[0] == "loopvar" and a_[0] != "loopvar" and t == a_:
                            t = b_
            rs[i] = (close(t), pc, may, must, node, kind)

    def fold(self, t):
        """Constant folding of a term (only in partial-evaluation mode)."""
        if not self.pe:
            return t
        import partial
        import norm
        return norm.Normalizer()(partial.simplify(t, self._fold_memo))

    def _bind_param(self, p, env):
        if p.get("k") == "bind":
            i = self.fn.params.index(p) if p in self.fn.params else -1
            ty = self.fn.param_tys[i] if 0 <= i < len(self.fn.param_tys or []) else ""
            if str(ty).startswith("&mut"):
                self.mut_params[p["lid"]] = p["name"]
        if p.get("k") == "bind" and p["name"] in self.bindings:
            env[p["lid"]] = self.bindings[p["name"]]
        elif p.get("k") == "bind":
            env[p["lid"]] = ("param", p["name"])
        else:
            # destructured parameter: name it by position
            idx = self.fn.params.index(p) if p in self.fn.params else 0
            self._bind(p, ("param", f"#{idx}"), env)

    def _ret(self, term, node, kind):
        self.summ.returns.append((term, tuple(self.pc), self.st.may, self.st.must, node, kind))
        # what the exit leaves behind in the `&mut` parameters
        for lid, name in self.mut_params.items():
            self.mut_exits.setdefault(name, []).append((self.st.env.get(lid, ("param", name)), tuple(self.pc), None, None, node, kind))

    def _site(self, **kw):
        key = (kw.get("kind"), kw.get("callee") or kw.get("name"))
        n = self.ordinals.get(key, 0)
        self.ordinals[key] = n + 1
        s = Site(fn=self.fn, pc=tuple(self.pc), may=self.st.may, must=self.st.must,
                 loops=tuple(l[0] for l in self.loop_stack), ordinal=n,
                 closure=self.closure_stack[-1] if self.closure_stack else None, **kw)
        self.summ.sites.append(s)
        h = self.eng.hooks
        if h is not None and hasattr(h, "on_site"):
            h.on_site(self, s)
        return s

    def _bind(self, p, term, env):
        """Bind the variables of pattern p against value `term`."""
        k = p.get("k")
        if k == "bind":
            env[p["lid"]] = term
            if p.get("sub"):
                self._bind(p["sub"], term, env)
        elif k == "pts":
            v = p.get("ctor_of") or p.get("def")
            dd = p.get("dd")
            n = len(p["subs"])
            for i, s in enumerate(p["subs"]):
                idx = i if dd is None or i < dd else ("end", n - i)
                self._bind(s, mk_proj(term, v, idx), env)
        elif k == "pstruct":
            v = p.get("ctor_of") or p.get("def")
            plain_struct = not p.get("ctor_of") and isinstance(v, str) and v in getattr(self.prog, "adts", {}) and \
                self.prog.adts[v].get("kind") == "struct"
            for f in p["fields"]:
                nm = f["name"]
                idx = int(nm) if nm.isdigit() else nm
                if plain_struct and not nm.isdigit():
                    self._bind(f["pat"], mk_field(term, nm), env)        # destructuring a struct is field access
                else:
                    self._bind(f["pat"], mk_proj(term, v, idx), env)
        elif k == "ptup":
            for i, s in enumerate(p["subs"]):
                self._bind(s, mk_tproj(term, i), env)
        elif k in ("pref", "pderef", "pguard"):
            self._bind(p["sub"], term, env)
        elif k == "por":
            # all alternatives bind the same names; bind against the first, others are joined
            for s in p["subs"]:
                tmp = {}
                self._bind(s, term, tmp)
                for lid, t in tmp.items():
                    env[lid] = mk_join([env[lid], t]) if lid in env and env[lid] != t else t
        elif k == "pslice":
            before, after = p.get("before") or [], p.get("after") or []
            for i, s in enumerate(before):
                self._bind(s, ("index", term, ("lit", Int(i))), env)
            for j, s in enumerate(after):
                back = len(after) - j               # the j-th pattern after `..` is the back-th element from the end
                if back == 1:
                    # `[.., last]`: the same value as `x.last()` of a non-empty slice
                    self._bind(s, ("proj", ("call", "core::slice::<impl [T]>::last", (term,)), "std::prelude::v1::Some", 0), env)
                else:
                    self._bind(s, ("index", term, ("bin", "-", ("call", "#len", (term,)), ("lit", Int(back)))), env)
            if p.get("mid"):
                rest = ("index", term, ("struct", "std::ops::RangeFrom", (("start", ("lit", Int(len(before)))),))) if not after else ("unk", "slice-middle")
                self._bind(p["mid"], rest if before else (term if not after else rest), env)

    def lookup(self, lid, name):
        t = self.st.env.get(lid)
        if t is None:
            return ("unk", "local:" + name)
        return t

    def root_local(self, n):
        """(lid, name, access path) if expression n is a place rooted at a local variable."""
        path = []
        while isinstance(n, dict):
            k = n.get("k")
            if k == "path" and n.get("res") == "local":
                return n["lid"], n["name"], tuple(reversed(path))
            if k == "field":
                path.append(n["name"])
                n = n["e"]
            elif k in ("ref", "cast") or (k == "un" and n.get("op") == "*"):
                n = n["e"]
            elif k == "index":
                path.append("[]")
                n = n["e"]
            elif k == "mcall" and n.get("name") in IDENTITY_METHODS | {"get_mut", "unwrap", "iter_mut", "as_mut"}:
                n = n["recv"]
            else:
                return None
        return None

    def access_path(self, n):
        """Textual access path such as `eval_context.free_var_domains` (None if not a plain place)."""
        r = self.root_local(n)
        if r is None:
            return None
        lid, name, path = r
        return ".".join((name,) + tuple(p for p in path))

    # ------------------------------------------------------------------ statements / blocks
    def block(self, n):
        saved_pc = len(self.pc)
        val = UNIT
        for s in n["stmts"]:
            if self.st is None:
                break
            k = s.get("k")
            if k == "let":
                self.let_stmt(s)
            elif k in ("semi", "sexpr"):
                self.expr(s["e"])
        if self.st is not None and n.get("expr"):
            val = self.expr(n["expr"])
        elif self.st is None:
            val = NEVER
        if n is self.fn.body and self.st is not None:
            self._ret(val, n, "tail")          # recorded here: the conditions known at the end of the body still hold
            self._tail_done = True
        del self.pc[saved_pc:]
        return val

    def let_stmt(self, s):
        init = s.get("init")
        if init is None:
            for lid, name in pat_bindings(s["pat"]):
                self.st.env[lid] = ("unk", "uninit:" + name)
            return
        v = self.expr(init)
        if self.st is None:
            return
        if s.get("els"):
            # let PAT = init else { diverges }
            scrut = v
            d = pat_desc(s["pat"])
            if self.pe:
                cf = self.fold(("matches", scrut, d))
                if cf == ("lit", False):
                    # the pattern is known not to match: only the (diverging) else block runs
                    self.expr(s["els"])
                    self.st = None
                    return
                if cf == ("lit", True):
                    self._bind(s["pat"], v, self.st.env)
                    return
            saved = self.st.copy()
            self._pc_push(("match", scrut, d, False, s.get("ln")))
            self.expr(s["els"])
            self._pc_pop()
            self.st = saved
            self.pc.append(("match", scrut, d, True, s.get("ln")))   # holds for the rest of the block
        self._bind(s["pat"], v, self.st.env)

    # ------------------------------------------------------------------ conditions
    def cond(self, n):
        """Evaluate a condition expression that may contain `let` (if-let / let chains).
        Returns (term, bindings: list of (pat, scrut_term))."""
        k = n.get("k")
        if k == "letx":
            scrut = self.expr(n["e"])
            return ("matches", scrut, pat_desc(n["pat"])), [(n["pat"], scrut)]
        if k == "bin" and n.get("op") == "&&":
            l, bl = self.cond(n["l"])
            # bindings of the left operand are visible on the right
            for pat, scrut in bl:
                self._bind(pat, scrut, self.st.env)
            self._pc_push(("if", l, True, n["id"]))       # short-circuit: the right operand is only evaluated when the left holds
            before = self.st.copy() if self.st is not None else None
            r, br = self.cond(n["r"])
            self._pc_pop()
            if before is not None and self.st is not None and any(self.st.env.get(k_) is not v_ and self.st.env.get(k_) != v_ for k_, v_ in before.env.items()):
                # effects of the right operand (a call that takes `&mut` state) only happen when the left operand holds
                self.st = merge_states(self.st, before, l)
            return ("bin", "&&", l, r), bl + br
        return self.expr(n), []

    def if_expr(self, n):
        c, binds = self.cond(n["c"])
        if self.st is None:
            return NEVER
        if self.pe:
            cf = self.fold(c)
            if cf == ("lit", True):
                for pat, scrut in binds:
                    self._bind(pat, self.fold(scrut), self.st.env)
                return self.expr(n["t"])
            if cf == ("lit", False):
                return self.expr(n["e"]) if n.get("e") else UNIT
        base = self.st
        # then
        self.st = base.copy()
        for pat, scrut in binds:
            self._bind(pat, scrut, self.st.env)
        self._pc_push(("if", c, True, n["id"]))
        tv = self.expr(n["t"])
        self._pc_pop()
        ts = self.st
        # else
        self.st = base.copy()
        self._pc_push(("if", c, False, n["id"]))
        ev = self.expr(n["e"]) if n.get("e") else UNIT
        self._pc_pop()
        es = self.st
        self.st = merge_states(ts, es, c)
        # a diverging branch makes the other branch's condition known for the rest of the enclosing block
        if ts is None and es is not None:
            self.pc.append(("if", c, False, n["id"]))
            self._learn(c, False)
            return ev
        if es is None and ts is not None:
            self.pc.append(("if", c, True, n["id"]))
            self._learn(c, True)
            return tv
        if ts is None and es is None:
            return NEVER
        return mk_ite(c, tv, ev)

    def match_expr(self, n):
        scrut = self.expr(n["e"])
        if self.st is None:
            return NEVER
        is_matches = in_macro(n, "matches") and len(n["arms"]) == 2
        if is_matches:
            # matches!(e, PAT [if guard]) -- keep as a predicate term
            a0 = n["arms"][0]
            if not a0.get("guard"):
                return self.fold(("matches", scrut, pat_desc(a0["pat"])))
        concrete = None
        if self.pe:
            import partial
            sc = self.fold(scrut)
            if partial.is_concrete(sc):
                concrete = sc
                scrut = sc
        base = self.st
        results = []
        out_state = None
        prior = []
        prior_guarded = []
        diverged = []
        diverged_guarded = []
        arm_states = []
        for idx, arm in enumerate(n["arms"]):
            d = pat_desc(arm["pat"])
            if concrete is not None:
                import partial
                m = partial.match_desc(d, concrete)
                if m is False:
                    continue
                if m is True:
                    self.st = base.copy()
                    self._bind(arm["pat"], scrut, self.st.env)
                    if arm.get("guard"):
                        g, gb = self.cond(arm["guard"])
                        gf = self.fold(g)
                        if gf == ("lit", False):
                            continue
                        if gf == ("lit", True):
                            for pat, sc_ in gb:
                                self._bind(pat, sc_, self.st.env)
                            return self.expr(arm["body"])
                    elif not results:
                        return self.expr(arm["body"])
            self.st = base.copy()
            self._bind(arm["pat"], scrut, self.st.env)
            self._pc_push(("match", scrut, d, True, n["id"], tuple(prior), idx, tuple(prior_guarded)))
            g = None
            if arm.get("guard"):
                g, gb = self.cond(arm["guard"])
                for pat, sc in gb:
                    self._bind(pat, sc, self.st.env)
                self._pc_push(("if", g, True, arm["guard"].get("id")))
            v = self.expr(arm["body"])
            if g is not None:
                self._pc_pop()
            self._pc_pop()
            if self.st is not None:
                results.append(((d, g), v))
                c_arm = ("lit", True) if (d[0] == "wild" and g is None) else (("matches", scrut, d) if g is None else ("bin", "&&", ("matches", scrut, d), g))
                arm_states.append((c_arm, self.st))
            elif g is None:
                diverged.append(d)
            else:
                diverged_guarded.append((d, g))
            if g is None:
                prior.append(d)
            else:
                prior_guarded.append((d, g))       # an earlier arm that is taken when its pattern matches and its guard holds
        # the state after the match: the first arm that matches decides (arms that left the function are not among the survivors)
        for c_arm, st_arm in reversed(arm_states):
            out_state = st_arm if (out_state is None or c_arm == ("lit", True)) else merge_states(st_arm, out_state, c_arm)
        self.st = out_state
        if out_state is None:
            return NEVER
        # arms that left the function (return / break / panic): the rest of the enclosing block knows their pattern did not match
        for d in diverged:
            if d[0] in ("var", "lit", "or") and concrete is None:
                self.pc.append(("match", scrut, d, False, n["id"]))
                self._learn(("matches", scrut, d), False)
        for d, g in diverged_guarded:
            if d[0] in ("var", "lit", "or") and concrete is None:
                c_ = ("bin", "&&", ("matches", scrut, d), g)
                self.pc.append(("if", c_, False, n["id"]))
                self._learn(c_, False)
        vals = [v for _, v in results]
        if all(v == vals[0] for v in vals):
            return vals[0]
        if diverged or diverged_guarded:
            # some arms left the function: the arms listed are not exhaustive (when none of them matches there is no value)
            return ("switch", scrut, tuple(results), "partial")
        return ("switch", scrut, tuple(results))

    # ------------------------------------------------------------------ loops
    def _assigned_locals(self, body_nodes, declared_inside):
        """Locals (declared outside) that are assigned / mutated inside the loop body."""
        out = {}
        for b in body_nodes:
            for x in walk(b):
                k = x.get("k")
                tgt = None
                if k in ("assign", "assignop"):
                    tgt = self.root_local(x["l"])
                elif k == "mcall" and str(x.get("rty", "")).startswith("&mut"):
                    tgt = self.root_local(x["recv"])
                elif k == "ref" and x.get("mut"):
                    tgt = self.root_local(x["e"])
                if tgt and tgt[0] not in declared_inside and tgt[0] in self.st.env:
                    out[tgt[0]] = tgt[1]
        return out

    def loop_expr(self, n, kind):
        lid_loop = n["id"]
        it = None
        if kind == "for":
            it = self.expr(n["iter"])
            if self.st is None:
                return NEVER
            if self.pe:
                coll = strip_iter_adapters(self.fold(it))
                if is_fresh_collection(coll) and not coll[2] and any(c in coll[1] for c in ("Vec", "HashSet", "HashMap", "BTree", "VecDeque")):
                    coll = ("vec", ())
                if coll[0] in ("vec", "array") and len(coll[1]) <= 8:
                    # a loop over a literal collection is unrolled
                    for item in coll[1]:
                        if self.st is None:
                            break
                        self._bind(n["pat"], item, self.st.env)
                        self.loop_stack.append([n["id"], [], [], n.get("label"), n.get("loop_id", n["id"])])
                        self.expr(n["body"])
                        fr = self.loop_stack.pop()
                        for s_ in fr[2]:
                            self.st = s_ if self.st is None else merge_states(self.st, s_, ("unrolled", n["id"]))
                        if fr[1]:
                            self.st = fr[1][0] if self.st is None else merge_states(self.st, fr[1][0], ("unrolled-break", n["id"]))
                            break
                    return UNIT
            body_nodes = [n["body"]]
            self._site(node=n, kind="for", name="for", args=[it], argnodes=[n["iter"]], term=it, ty=n["iter"].get("ty"))
        elif kind == "while":
            body_nodes = [n["c"], n["body"]]
        else:
            body_nodes = [{"k": "block", "stmts": n["stmts"], "expr": n.get("expr"), "id": n["id"], "sp": n["sp"]}]
        n_returns_before = len(self.summ.returns)
        declared = set()
        for b in body_nodes:
            for x in walk(b):
                if x.get("k") == "let":
                    declared |= {lid for lid, _ in pat_bindings(x["pat"])}
        carried = self._assigned_locals(body_nodes, declared)
        init = {lid: self.st.env[lid] for lid in carried}
        sroa = {}
        for lid, name in carried.items():
            v0 = init[lid]
            if v0[0] == "struct" and v0[2] and all(isinstance(f_, str) for f_, _ in v0[2]):
                # a struct literal that is updated in the loop: one loop variable per field
                sroa[lid] = [f_ for f_, _ in v0[2]]
                self.st.env[lid] = ("struct", v0[1], tuple((f_, ("loopvar", lid_loop, f"{name}.{f_}")) for f_, _ in v0[2]))
            else:
                self.st.env[lid] = ("loopvar", lid_loop, name)
        head = self.st.copy()
        frame = [lid_loop, [], [], n.get("label"), n.get("loop_id", n["id"])]
        self.loop_stack.append(frame)
        self._pc_push(("loop", lid_loop, kind))
        exits = []
        if kind == "for":
            self._bind(n["pat"], ("elem", it), self.st.env)
            self.expr(n["body"])
            exits.append(head)                      # iterator exhausted (possibly immediately)
        elif kind == "while":
            c, binds = self.cond(n["c"])
            cond_state = self.st
            if cond_state is not None:
                exits.append(cond_state.copy())     # condition false
                for pat, scrut in binds:
                    self._bind(pat, scrut, self.st.env)
                self._pc_push(("if", c, True, n["id"]))
                self.expr(n["body"])
                self._pc_pop()
            self.summ.loops.setdefault(lid_loop, {})["cond"] = c
        else:
            self.block(body_nodes[0])
        self._pc_pop()
        self.loop_stack.pop()
        end_state = self.st
        for s in reversed(frame[2]):
            if s is not None:
                c_s = self._cont_conds.get(id(s))
                # taken `continue`s first (their own conditions), the fall-through of the body otherwise
                end_state = s if end_state is None else merge_states(s, end_state, c_s if c_s is not None else ("loopend", lid_loop))
        updates = {}
        for lid, name in carried.items():
            if lid in sroa:
                endv = end_state.env.get(lid) if end_state is not None else None
                for f_ in sroa[lid]:
                    lv_ = ("loopvar", lid_loop, f"{name}.{f_}")
                    updates[f"{name}.{f_}"] = (mk_field(init[lid], f_), mk_field(endv, f_) if endv is not None else lv_)
                continue
            updates[name] = (init[lid], end_state.env.get(lid, ("loopvar", lid_loop, name)) if end_state is not None else ("loopvar", lid_loop, name))
        info = self.summ.loops.setdefault(lid_loop, {})
        info.update({"vars": updates, "node": n, "kind": kind, "carried": dict(carried)})
        # exit state: head exits + breaks
        exit_state = None
        searched = None
        if kind == "for" and len(frame[1]) == 1 and frame[1][0] is not None and len(exits) == 1 and exits[0] is not None and not frame[2]:
            # `for x in it { if C(x) { ..; break } }`: the loop is left early iff some element satisfies C (C independent of the iteration state);
            # what the `break` path leaves behind is the value if so, the exhausted loop's value otherwise
            bc = self._break_conds.get(id(frame[1][0]))
            if bc is not None and not contains(bc, lambda s_: s_[0] == "loopvar" and s_[1] == lid_loop):
                searched = ("hof", "any", it, bc, ())
                first = ("proj", ("hof", "find", it, bc, ()), "std::prelude::v1::Some", 0)
                bstate = frame[1][0]
                env = {}
                for k_ in set(exits[0].env) | set(bstate.env):
                    th, tb = exits[0].env.get(k_), bstate.env.get(k_)
                    if th is None or tb is None:
                        continue
                    if tb is not th and tb != th and contains(tb, lambda s_: s_ == ("elem", it)):
                        tb = replace(tb, ("elem", it), first)
                    env[k_] = mk_ite(searched, tb, th)
                exit_state = State(env, exits[0].may | bstate.may, exits[0].must & bstate.must)
        for s in (exits + frame[1]) if searched is None else []:
            if s is not None:
                exit_state = s if exit_state is None else merge_states(exit_state, s, ("loopexit", lid_loop))
        if end_state is not None and exit_state is not None:
            exit_state = State(exit_state.env, exit_state.may | end_state.may, exit_state.must & end_state.must)
        # close the loop variables
        memo = {}

        idmemo = {}

        def close(t):
            if not isinstance(t, tuple) or not t:
                return t
            if t[0] == "loopvar":
                if t in memo:
                    return memo[t]
            else:
                hit = idmemo.get(id(t))
                if hit is not None and hit[0] is t:
                    return hit[1]
            if t[0] == "loopvar" and t[1] == lid_loop:
                i, u = updates.get(t[2], (("unk", "loop"), t))
                if u == t:
                    r = i            # never changed on a path back to the loop head
                elif kind == "for" and not frame[1] and i[0] == "lit" and isinstance(i[1], bool) and u[0] == "ite" \
                        and ((u[2][0] == "lit" and isinstance(u[2][1], bool) and u[3] == t) or (u[3][0] == "lit" and isinstance(u[3][1], bool) and u[2] == t)) \
                        and not contains(u[1], lambda s_: s_[0] == "loopvar" and s_[1] == lid_loop):
                    # `for x in it { if C(x) { flag = b } }`: the flag ends as b iff some element satisfies C
                    b_, c_ = (u[2], u[1]) if u[3] == t else (u[3], ("not", u[1]))
                    r = i if b_ == i else ("ite", ("hof", "any", it, c_, ()), b_, i)
                elif kind == "for" and not frame[1] and is_fresh_collection(i) and u[0] == "mut" and u[1] == t and u[2][0] == "call" \
                        and isinstance(u[2][1], str) and u[2][1].rsplit("::", 1)[-1] in ("push", "push_back") and len(u[2][2]) == 1 \
                        and not contains(u[2][2][0], lambda s_: s_ == t):
                    # `for x in it { v.push(T) }` builds the same collection as `it.map(|x| T).collect()`
                    # (other loop-carried values inside T stand for their value at that iteration)
                    memo[t] = ("unk", "cyclic")
                    r = ("collect", strip_iter_adapters(it), close(u[2][2][0]))
                elif kind == "for" and not frame[1] and is_fresh_collection(i) and as_push_step(u, t) is not None \
                        and not contains(("tuple", as_push_step(u, t)), lambda s_: s_ == t):
                    # `for x in it { if C { v.push(T) } }` builds the same collection as `it.filter(|x| C).map(|x| T).collect()`
                    c_, v_ = as_push_step(u, t)
                    memo[t] = ("unk", "cyclic")
                    r = ("collect", ("hof", "filter", strip_iter_adapters(it), close(c_), ()), close(v_))
                elif kind == "for" and not frame[1] and is_fresh_collection(i) and as_insert_step(u, t) is not None:
                    # `for x in it { if C { m.insert(K, V) } }` builds the map { K -> V | x in it, C }
                    c_, k_, v_ = as_insert_step(u, t)
                    if not contains(("tuple", (c_, k_, v_)), lambda s_: s_[0] == "loopvar" and s_[1] == lid_loop):
                        r = ("collectmap", strip_iter_adapters(it), c_, k_, v_)
                    else:
                        r = ("mu", lid_loop, t[2], i, u)
                else:
                    r = ("mu", lid_loop, t[2], i, u)
            else:
                r = tuple(close(x) if isinstance(x, tuple) else x for x in t)
                if all(a is b for a, b in zip(r, t)):
                    r = t
            if t[0] == "loopvar":
                memo[t] = r
            else:
                idmemo[id(t)] = (t, r)
            return r

        self._close_returns(n_returns_before, close)
        if exit_state is None:
            self.st = None
            return NEVER
        for k in list(exit_state.env):
            exit_state.env[k] = close(exit_state.env[k])
        self.st = exit_state
        return exit_state.env.pop(("brk", n["id"]), UNIT)

    # ------------------------------------------------------------------ calls
    def apply_closure(self, cid, args):
        node, env_snapshot = self.summ.closures[cid]
        saved_env = self.st.env
        env = dict(saved_env)
        for p, a in zip(node["params"], args):
            self._bind(p, a, env)
        self.st.env = env
        self.closure_stack.append(cid)
        self._pc_push(("closure", cid))
        self.closure_tries.append([])
        self.closure_rets.append([])
        v = self.expr(node["body"])
        tries = self.closure_tries.pop()
        rets = self.closure_rets.pop()
        # early `return x` inside the closure: taken under its own condition, before the value of the body
        for rv, rc in reversed(rets):
            v = rv if (rc is None or v == NEVER) else ("ite", rc, rv, v)
        # a `?` inside the closure makes the closure return None / Err(e) at that point
        import norm as _norm
        for tv, is_res in reversed(tries):
            if is_res:
                v = ("ite", ("matches", tv, _norm.OK_DESC), v, ("ctor", "std::prelude::v1::Err", (("proj", tv, "std::prelude::v1::Err", 0),)))
            else:
                v = ("ite", ("matches", tv, _norm.SOME_DESC), v, ("ctor", "std::prelude::v1::None", ()))
        self._pc_pop()
        self.closure_stack.pop()
        if self.st is not None:
            # keep mutations of captured variables
            for k in saved_env:
                if k in self.st.env:
                    saved_env[k] = self.st.env[k]
            self.st.env = saved_env
        return v

    def _import_sites(self, cs, mapping, beta=False):
        """Whole-pipeline view: the sites of an inlined callee, re-expressed in the caller's terms."""
        if len(self.summ.deep_sites) > 20000:
            return
        memo = {}
        pc0 = tuple(self.pc)

        def sb(t):
            t = subst(t, mapping, memo)
            if beta and self.st is not None and contains(t, lambda s_: (s_[0] == "callv" and s_[1][0] == "closure") or
                                                        (s_[0] == "call" and len(s_) == 3 and s_[2] and isinstance(s_[2][-1], tuple) and s_[2][-1]
                                                         and s_[2][-1][0] in ("closure", "def"))):
                saved = self.st
                t2 = self.beta(t)
                if self.st is None:
                    self.st = saved
                    return t
                return t2
            return t
        for s in cs.sites + cs.deep_sites:
            pc = []
            for c in s.pc:
                if c[0] == "if":
                    pc.append(("if", sb(c[1])) + tuple(c[2:]))
                elif c[0] == "match":
                    pc.append(("match", sb(c[1])) + tuple(c[2:]))
                else:
                    pc.append(c)
            self.summ.deep_sites.append(Site(
                node=s.node, fn=s.fn, kind=s.kind, callee=s.callee, inst=s.inst, name=s.name,
                args=[(sb(a) if s.kind != "callv" else subst(a, mapping, memo)) for a in (s.args or [])], argnodes=s.argnodes, pc=pc0 + tuple(pc),
                may=self.st.may | (s.may or frozenset()), must=self.st.must | (s.must or frozenset()),
                loops=tuple(l[0] for l in self.loop_stack) + tuple(s.loops or ()), term=subst(s.term, mapping, memo) if isinstance(s.term, tuple) else s.term,
                ordinal=s.ordinal, ty=s.ty, closure=s.closure))

    def beta(self, t, depth=0):
        """Apply closures of the current function that were passed to an inlined callee: (closure#c)(args) -> body."""
        if not isinstance(t, tuple) or not t or depth > 60 or self.st is None:
            return t
        if t[0] == "callv" and t[1][0] == "closure" and t[1][1] in self.summ.closures:
            args = [self.beta(a, depth + 1) for a in t[2]]
            # one call of the closure in the callee is one application here, however often its value occurs in the callee's terms
            memo = self._beta_memo
            key = (t[1][1], tuple(args))
            try:
                if key in memo:
                    return memo[key]
            except TypeError:
                key = None
            # the closure runs where the callee calls it: under the callee's conditions at that call
            extra = getattr(self, "_beta_pcs", {}).get(t[1][1], ())
            for c_ in extra:
                self._pc_push(c_)
            r = self.apply_closure(t[1][1], args)
            for c_ in extra:
                self._pc_pop()
            r = r if self.st is not None else NEVER
            if key is not None:
                memo[key] = r
            return r
        if t[0] == "call" and isinstance(t[1], str) and t[1].rsplit("::", 1)[-1] in HOF_METHODS and len(t[2]) >= 2 and t[2][-1][0] == "closure" \
                and t[2][-1][1] in self.summ.closures:
            # the helper handed our closure on to an iterator / Option combinator: `xs.iter().position(pred)` with pred = |t| ..
            recv = self.beta(t[2][0], depth + 1)
            is_opt = any(k_ in t[1] for k_ in ("option::Option", "result::Result"))
            node_ = self.summ.closures[t[2][-1][1]][0]
            carg = ("payload", recv) if is_opt else ("elem", recv)
            body = self.apply_closure(t[2][-1][1], [carg] * len(node_["params"]))
            if self.st is None:
                return NEVER
            return ("hof", t[1].rsplit("::", 1)[-1], recv, body, tuple(self.beta(a, depth + 1) for a in t[2][1:-1]))
        if t[0] == "call" and isinstance(t[1], str) and t[1].rsplit("::", 1)[-1] in HOF_METHODS and len(t[2]) >= 2 and t[2][-1][0] == "def" \
                and isinstance(t[2][-1][1], str) and self.local_callee(t[2][-1][1]) is not None:
            # .. or a function item: `xs.iter().position(is_wanted)`
            recv = self.beta(t[2][0], depth + 1)
            is_opt = any(k_ in t[1] for k_ in ("option::Option", "result::Result"))
            carg = ("payload", recv) if is_opt else ("elem", recv)
            body = self.do_call({"k": "call", "id": -1, "sp": None}, t[2][-1][1], None, [carg], [None], "call")
            if self.st is None:
                return NEVER
            return ("hof", t[1].rsplit("::", 1)[-1], recv, body, tuple(self.beta(a, depth + 1) for a in t[2][1:-1]))
        if not any(isinstance(x, tuple) for x in t):
            return t
        if not contains(t, lambda s_: s_[0] == "callv" or (s_[0] == "closure") or (s_[0] == "def")):
            return t
        return tuple(self.beta(x, depth + 1) if isinstance(x, tuple) else x for x in t)

    def local_callee(self, def_path):
        return self.prog.resolve_local(self.fn.crate, def_path)

    def do_call(self, n, callee, inst, args, argnodes, kind, name=None):
        """Common part of call / mcall once the arguments are evaluated."""
        if self.st is None:
            return NEVER
        site = self._site(node=n, kind=kind, callee=callee, inst=inst, name=name, args=list(args), argnodes=argnodes,
                          ty=n.get("ty"))
        # std::mem::replace / take / swap move values between places
        if isinstance(callee, str) and "mem::" in callee and callee.rsplit("::", 1)[-1] in ("replace", "take", "swap") and argnodes and argnodes[0] is not None:
            l = callee.rsplit("::", 1)[-1]
            r0 = self.root_local(argnodes[0])
            if r0 and r0[0] in self.st.env and not r0[2]:
                old = args[0]
                if l == "replace" and len(args) == 2:
                    self.st.env[r0[0]] = args[1]
                    site.term = old
                    return old
                if l == "take" and len(args) == 1:
                    self.st.env[r0[0]] = ("call", "std::default::Default::default", ())
                    site.term = old
                    return old
                if l == "swap" and len(args) == 2 and argnodes[1] is not None:
                    r1 = self.root_local(argnodes[1])
                    if r1 and r1[0] in self.st.env and not r1[2]:
                        self.st.env[r0[0]], self.st.env[r1[0]] = args[1], args[0]
                        site.term = UNIT
                        return UNIT
        # `&mut x` arguments and `&mut self` receivers may be mutated by the callee
        term = None
        inlined_cs, inlined_mapping = None, None
        if callee == "std::convert::Into::into" and len(args) == 1 and argnodes and argnodes[0] is not None:
            # x.into() with a local `impl From<T> for U` is that impl's `from(x)` (the blanket impl of Into)
            u_, t_ = str(n.get("ty", "")), str(argnodes[0].get("ty", "")).lstrip("&").strip()
            cand = f"<{u_} as std::convert::From<{t_}>>::from"
            if self.local_callee(cand) is not None:
                callee = cand
        if isinstance(callee, str) and isinstance(inst, str) and inst.startswith("<") and self.local_callee(callee) is None \
                and self.local_callee(inst) is not None:
            callee = inst            # a method of a local trait on a concrete type: the compiler resolved the impl
        if isinstance(callee, str) and self.tyenv and "::" in callee and self.local_callee(callee) is None:
            # a method of a local trait called on a generic parameter that is bound to a concrete type here: the type's impl
            selfty = None
            if kind == "mcall":
                selfty = str(n.get("rty", "")).replace("&mut ", "").replace("&", "").strip()
            else:
                ga = str(n.get("gargs", "")).strip("[]").split(",")[0].split("/")[0].strip()
                selfty = ga or None
            conc = self.tyenv.get(selfty) if selfty else None
            if conc:
                trait, meth = callee.rsplit("::", 1)
                cand = f"<{conc} as {trait}>::{meth}"
                if self.local_callee(cand) is not None:
                    callee = cand
        target = self.local_callee(callee) if callee else None
        if isinstance(callee, str) and callee.endswith("::default") and not args:
            adt = self.prog.adt(str(n.get("ty", ""))) if hasattr(self.prog, "adt") else None
            if adt is not None and adt.get("kind") == "struct" and adt.get("variants"):
                d_ = target or self.local_callee(f"<{adt['path']} as std::default::Default>::default")
                if d_ is not None and d_.derived:
                    # #[derive(Default)]: every field is the default value of its type
                    term = ("struct", adt["path"], tuple((fl["name"], ("call", "std::default::Default::default", ())) for fl in adt["variants"][0]["fields"]))
                    site.term = term
                    return term
        if target is not None and not target.derived:
            opaque = not self.eng.inline
            h = self.eng.hooks
            if h is not None and hasattr(h, "opaque") and h.opaque(target):
                opaque = True
            if not opaque:
                cs = None
                tybind = {}
                for i_, pty_ in enumerate(target.param_tys or []):
                    g_ = str(pty_).replace("&mut ", "").replace("&", "").strip()
                    if g_ and g_.isidentifier() and len(g_) <= 3 and i_ < len(argnodes) and argnodes[i_] is not None:
                        at_ = str(argnodes[i_].get("ty", "")).replace("&mut ", "").replace("&", "").strip()
                        at_ = self.tyenv.get(at_, at_)
                        if at_ and "::" in at_ and not any(k_ in at_ for k_ in ("closure", "fn(", "{", "Fn(")):
                            tybind["#ty:" + g_] = ("lit", at_)
                if tybind and self.eng.api_forms().is_recursive(target):
                    tybind = {}
                if tybind:
                    # a generic helper called at a concrete type: its trait-method calls are the type's impls
                    cs = self.eng.specialise(target, tybind)
                if cs is None and not self.pe:
                    # a function item handed to a local higher-order function: the callee is specialised for it, so that the indirect
                    # call is the called function's body (as if the caller had written a closure / the call itself)
                    fnargs = {}
                    for i_, p_ in enumerate(target.params):
                        if p_.get("k") == "bind" and i_ < len(args) and args[i_][0] == "def" and isinstance(args[i_][1], str) \
                                and self.local_callee(args[i_][1]) is not None:
                            fnargs[p_["name"]] = args[i_]
                    if fnargs:
                        cs0 = self.eng.summary(target)
                        called = {s_.term[1] for s_ in (cs0.sites if cs0 is not None else []) if s_.kind == "callv" and isinstance(s_.term, tuple)
                                  and s_.term[0] == "param"}
                        # .. or hands it to an iterator / Option combinator (`xs.iter().position(predicate)`)
                        called |= {s_.args[-1][1] for s_ in (cs0.sites if cs0 is not None else []) if s_.kind == "mcall" and s_.name in HOF_METHODS
                                   and s_.args and isinstance(s_.args[-1], tuple) and s_.args[-1][0] == "param"}
                        fnargs = {k_: v_ for k_, v_ in fnargs.items() if k_ in called}       # only where the callee itself calls it
                        if fnargs and self.eng.api_forms().is_recursive(target):
                            fnargs = {}             # a recursive helper keeps its parameters (its self-calls are folded by the rules)
                    if fnargs:
                        cs = self.eng.specialise(target, fnargs)
                if cs is None and self.pe:
                    fargs = [self.fold(a) for a in args]
                    conc = {}
                    for i_, p_ in enumerate(target.params):
                        if p_.get("k") == "bind" and i_ < len(fargs) and (is_concrete_term(fargs[i_]) or fargs[i_][0] == "def"):
                            conc[p_["name"]] = fargs[i_]
                    if conc:
                        cs = self.eng.specialise(target, conc)
                if cs is None:
                    cs = self.eng.summary(target)
                if cs is None:
                    term = ("rec", target.path, tuple(args))
                else:
                    mapping = {}
                    for i, p in enumerate(target.params):
                        nm = p.get("name") if p.get("k") == "bind" else f"#{i}"
                        if i < len(args):
                            mapping[nm] = args[i]
                    term = subst(getattr(cs, "ret_full", None) or cs.ret, mapping)
                    self._beta_memo = {}
                    passes_closure = any(isinstance(a_, tuple) and a_ and a_[0] in ("closure", "def") for a_ in args)
                    self._beta_pcs = {}
                    if passes_closure:
                        for pn_, a_ in mapping.items():
                            if isinstance(a_, tuple) and a_ and a_[0] == "closure":
                                cv = [s_ for s_ in cs.sites if s_.kind == "callv" and s_.term == ("param", pn_)]
                                if len(cv) == 1:
                                    pcs_ = []
                                    for c_ in cv[0].pc:
                                        if c_[0] in ("if", "match"):
                                            pcs_.append((c_[0], subst(c_[1], mapping)) + tuple(c_[2:]))
                                    self._beta_pcs[a_[1]] = tuple(pcs_)
                    if not passes_closure:
                        self._import_sites(cs, mapping)
                    term = self.beta(term)
                    if passes_closure and self.st is not None:
                        # the callee's conditions and arguments mention calls of our closure: they read as the closure's body
                        self._import_sites(cs, mapping, beta=True)
                    inlined_cs, inlined_mapping = cs, mapping
            else:
                term = ("call", target.path, tuple(args))
                if self.eng.inline and target.vis != "Public" and (h is None or (getattr(h, "api_forms", True) and target.path not in getattr(h, "opaque_names", ()))):
                    fm = self.eng.api_forms().form(target, self.fn)
                    if fm is not None:
                        mapping = {}
                        for i, p in enumerate(target.params):
                            if p.get("k") == "bind" and i < len(args):
                                mapping[p["name"]] = args[i]
                        term = subst(fm[0], mapping)
                        for f_, fargs in fm[1]:
                            fa = [subst(a, mapping) for a in fargs]
                            self._site(node=n, kind="call", callee=f_.path, inst=None, name=None, args=fa, argnodes=[None] * len(fa),
                                       term=("call", f_.path, tuple(fa)), ty=f_.ret)
        if term is None:
            term = ("call", callee, tuple(args))
            if isinstance(callee, str) and callee.rsplit("::", 1)[-1] in ("box_assume_init_into_vec_unsafe", "into_vec"):
                # `vec![a, b]` lowering: the elements are the array literal inside
                arrs = [x for x in subterms(term) if x[0] == "array"]
                if arrs:
                    term = ("vec", arrs[0][1])
        site.term = term
        # effects through &mut
        atys = n.get("atys") if isinstance(n, dict) else None
        for i, an in enumerate(argnodes):
            if an is None:
                continue
            is_mut = False
            if an.get("k") == "ref" and an.get("mut"):
                is_mut = True
            elif kind == "mcall" and i == 0 and str(n.get("rty", "")).startswith("&mut") and name not in READONLY_METHODS:
                is_mut = True
            elif str(an.get("ty", "")).startswith("&mut") and an.get("k") == "path" and not (kind == "mcall" and i == 0 and name in READONLY_METHODS):
                is_mut = True
                j = i - 1 if kind == "mcall" else i
                if atys is not None and 0 <= j < len(atys) and len(atys) == len(argnodes) - (1 if kind == "mcall" else 0) \
                        and not str(atys[j]).startswith("&mut"):
                    is_mut = False          # the `&mut` binding is handed over as a shared reference (reborrow `&*x`): the callee cannot change it
            if is_mut:
                r = self.root_local(an)
                if r and r[0] in self.st.env:
                    old = self.st.env[r[0]]
                    if inlined_cs is not None and target is not None and i < len(target.params) and target.params[i].get("k") == "bind":
                        # the callee was inlined: its own account of what it leaves in this parameter
                        pname = target.params[i]["name"]
                        out = getattr(inlined_cs, "mut_out", {}).get(pname)
                        if out is None:
                            continue              # the callee does not change it
                        newv = self.beta(subst(out, inlined_mapping))
                        if not r[2]:
                            self.st.env[r[0]] = newv
                        else:
                            self.st.env[r[0]] = ("mut", old, ("assign", ".".join(r[2]), newv), r[2])
                        continue
                    self.st.env[r[0]] = mk_mut(old, ("call", callee, tuple(a for j, a in enumerate(args) if j != i)), r[2])
        if n.get("ty") == "!":
            self.st = None
            return NEVER
        return term

    def call_expr(self, n):
        argnodes = n["args"]
        if n.get("res") == "def":
            d = n.get("def")
            if str(n.get("dk", "")).startswith("Ctor"):
                args = [self.expr(a) for a in argnodes]
                if self.st is None:
                    return NEVER
                t = ("ctor", n.get("ctor_of"), tuple(args))
                self._site(node=n, kind="ctor", callee=n.get("ctor_of"), name="ctor", args=list(args), argnodes=argnodes, term=t, ty=n.get("ty"))
                return t
            args = []
            for a in argnodes:
                args.append(self.expr(a))
                if self.st is None:
                    return NEVER
            if d == "std::convert::From::from" and len(args) == 1 and isinstance(n.get("inst"), str) and self.local_callee(n.get("inst")) is not None:
                # `T::from(x)` with a local `impl From<X> for T`: that impl, not a change of representation
                return self.do_call(n, n.get("inst"), n.get("inst"), args, argnodes, "call")
            if d in IDENTITY_FNS and len(args) == 1:
                self._site(node=n, kind="call", callee=d, inst=n.get("inst"), args=list(args), argnodes=argnodes, ty=n.get("ty"))
                return args[0]
            return self.do_call(n, d, n.get("inst"), args, argnodes, "call")
        # indirect call: closure in a local, fn pointer parameter, ...
        if n.get("res") == "local":
            cal = self.lookup(n["lid"], n["name"])
            calnode = None
        else:
            calnode = n.get("callee")
            cal = self.expr(calnode) if calnode else ("unk", "callee")
        args = []
        for a in argnodes:
            args.append(self.expr(a))
            if self.st is None:
                return NEVER
        if cal[0] == "closure" and cal[1] in self.summ.closures:
            self._site(node=n, kind="callv", callee=None, name=n.get("name"), args=list(args), argnodes=argnodes, term=cal, ty=n.get("ty"))
            return self.apply_closure(cal[1], args)
        if cal[0] == "def" and isinstance(cal[1], str) and self.local_callee(cal[1]) is not None:
            return self.do_call(n, cal[1], None, args, argnodes, "call")          # a known function item called through a variable
        self._site(node=n, kind="callv", callee=None, name=n.get("name"), args=[cal] + list(args), argnodes=[None] + argnodes, term=cal, ty=n.get("ty"))
        return ("callv", cal, tuple(args))

    def mcall_expr(self, n):
        recv = self.expr(n["recv"])
        if self.st is None:
            return NEVER
        name = n["name"]
        d = n.get("def")
        argnodes = [n["recv"]] + n["args"]
        rty = str(n["recv"].get("ty", ""))
        # higher-order adapters with a closure / function argument
        if name in HOF_METHODS and n["args"]:
            fa = n["args"][-1]
            fa_s = strip_blocks(fa)
            other = [self.expr(a) for a in n["args"][:-1]]
            if fa_s.get("k") == "closure":
                cl = self.expr(fa_s)
                site = self._site(node=n, kind="mcall", callee=d, inst=n.get("inst"), name=name, args=[recv] + other + [cl],
                                  argnodes=argnodes, ty=n.get("ty"))
                nparams = len(fa_s["params"])
                is_opt = rty.lstrip("&").replace("mut ", "").startswith(("std::option::Option", "std::result::Result"))
                if name in ("fold",) and nparams == 2:
                    cargs = [("loopvar", n["id"], "acc"), ("elem", recv)]
                elif is_opt:
                    cargs = [("payload", recv)] * nparams
                else:
                    cargs = [("elem", recv)] * nparams
                if not is_opt:
                    # an iterator adapter with a closure is a loop over the receiver for every site-based rule
                    self._site(node=n, kind="for", name="for", args=[recv], argnodes=[n["recv"]], term=recv, ty=rty)
                    self.loop_stack.append([n["id"], [], [], None, n["id"]])
                    self._pc_push(("loop", n["id"], "hof:" + name))
                    self.summ.loops.setdefault(n["id"], {}).update({"kind": "for", "node": n, "vars": {}, "hof": name})
                    # captured locals mutated by the closure are loop-carried: their final value is the iterate (mu)
                    cnode = self.summ.closures[cl[1]][0]
                    declared = set()
                    for x in walk(cnode["body"]):
                        if x.get("k") == "let":
                            declared |= {lid for lid, _ in pat_bindings(x["pat"])}
                    hof_carried = {lid: nm for lid, nm in self._assigned_locals([cnode["body"]], declared).items() if lid in self.st.env}
                    hof_init = {lid: self.st.env[lid] for lid in hof_carried}
                    for lid, nm in hof_carried.items():
                        self.st.env[lid] = ("loopvar", n["id"], nm)
                body = self.apply_closure(cl[1], cargs)
                if not is_opt:
                    self._pc_pop()
                    self.loop_stack.pop()
                    if self.st is not None:
                        for lid, nm in hof_carried.items():
                            lv = ("loopvar", n["id"], nm)
                            upd = self.st.env.get(lid, lv)
                            self.st.env[lid] = hof_init[lid] if upd == lv else ("mu", n["id"], nm, hof_init[lid], upd)
                if self.st is None:
                    return NEVER
                if name == "fold" and nparams == 2 and other:
                    t = ("mu", n["id"], "acc", other[0], body)
                else:
                    t = ("hof", name, recv, body, tuple(other))
                site.term = t
                # a combinator that takes `&mut self` (next_if, retain, sort_by ..) changes its receiver
                if str(n.get("rty", "")).startswith("&mut") or (name in ("next_if", "retain", "sort_by", "sort_by_key", "dedup_by_key", "retain_mut")):
                    r_ = self.root_local(n["recv"])
                    if r_ and self.st is not None and r_[0] in self.st.env:
                        old_ = self.st.env[r_[0]]
                        self.st.env[r_[0]] = ("mut", old_, ("call", d or name, (body,)), r_[2])
                return t
            fdef = None
            if fa_s.get("k") == "path" and fa_s.get("res") == "def" and fa_s.get("dk") in ("Fn", "AssocFn"):
                fdef = fa_s["def"]
            elif fa_s.get("k") == "path" and fa_s.get("res") == "local":
                # a function item held in a variable / parameter (known when the enclosing function was specialised for it)
                v_ = self.lookup(fa_s["lid"], fa_s["name"])
                if v_[0] == "def" and isinstance(v_[1], str) and self.local_callee(v_[1]) is not None:
                    fdef = v_[1]
            if fdef is not None:
                site = self._site(node=n, kind="mcall", callee=d, inst=n.get("inst"), name=name,
                                  args=[recv] + other + [("def", fdef)], argnodes=argnodes, ty=n.get("ty"))
                arg = ("payload", recv) if rty.lstrip("&").replace("mut ", "").startswith(("std::option::Option", "std::result::Result")) else ("elem", recv)
                body = self.do_call(fa_s, fdef, fa_s.get("inst") if fa_s.get("res") == "def" else None, [arg], [None], "call")
                t = ("hof", name, recv, body, tuple(other))
                site.term = t
                return t
        args = [recv]
        for a in n["args"]:
            args.append(self.expr(a))
            if self.st is None:
                return NEVER
        if not n["args"] and (name in IDENTITY_METHODS or (name in ("to_string", "into") and rty in STRINGY)):
            self._site(node=n, kind="mcall", callee=d, inst=n.get("inst"), name=name, args=list(args), argnodes=argnodes,
                       term=recv, ty=n.get("ty"))
            return recv
        return self.do_call(n, d, n.get("inst"), args, argnodes, "mcall", name=name)

    # ------------------------------------------------------------------ expressions
    def expr(self, n):
        if self.st is None:
            return NEVER
        if n is None:
            return UNIT
        k = n.get("k")
        m = getattr(self, "e_" + k, None)
        if m is None:
            self.summ.unresolved.append((k, n.get("sp")))
            return ("unk", k)
        return m(n)

    def e_path(self, n):
        r = n.get("res")
        if r == "local":
            return self.lookup(n["lid"], n["name"])
        if r == "def":
            if str(n.get("dk", "")).startswith("Ctor"):
                return ("ctor", n.get("ctor_of"), ())
            if n.get("const_init") is not None and self._const_depth < 4:
                # a local constant: its initialiser (tables of literals)
                self._const_depth += 1
                try:
                    v = self.expr(n["const_init"])
                finally:
                    self._const_depth -= 1
                if isinstance(v, tuple) and v and v[0] in ("array", "vec", "lit", "tuple", "ctor"):
                    return v
            return ("def", n.get("def"))
        if r == "self":
            return ("def", n.get("def"))
        return ("unk", "path:" + str(r))

    def e_lit(self, n):
        return ("lit", lit_value(n.get("v")))

    def e_call(self, n):
        return self.call_expr(n)

    def e_mcall(self, n):
        return self.mcall_expr(n)

    def e_fmt(self, n):
        pieces = []
        for p in n["pieces"]:
            if isinstance(p, str):
                pieces.append(p)
            else:
                pieces.append(("arg", self.expr(p["arg"]), p["spec"]))
                if self.st is None:
                    return NEVER
        return ("fmt", tuple(pieces))

    def e_tup(self, n):
        items = []
        for e in n["es"]:
            items.append(self.expr(e))
            if self.st is None:
                return NEVER
        return ("tuple", tuple(items)) if items else UNIT

    def e_array(self, n):
        items = []
        for e in n["es"]:
            items.append(self.expr(e))
            if self.st is None:
                return NEVER
        return ("array", tuple(items))

    def e_repeat(self, n):
        return ("array", (self.expr(n["e"]),))

    def e_bin(self, n):
        op = n["op"]
        if op in ("&&", "||"):
            l = self.expr(n["l"])
            if self.st is None:
                return NEVER
            base = self.st.copy()
            self._pc_push(("if", l, op == "&&", n["id"]))
            r = self.expr(n["r"])
            self._pc_pop()
            self.st = merge_states(self.st, base, l)
            return ("bin", op, l, r)
        l = self.expr(n["l"])
        r = self.expr(n["r"])
        if self.st is None:
            return NEVER
        if n.get("ovl"):
            self._site(node=n, kind="op", callee=n["ovl"], name=op, args=[l, r], argnodes=[n["l"], n["r"]], ty=n.get("ty"))
        else:
            self._site(node=n, kind="arith", name=op, args=[l, r], argnodes=[n["l"], n["r"]], ty=n.get("ty"))
        return ("bin", op, l, r)

    def e_un(self, n):
        v = self.expr(n["e"])
        if n["op"] == "*":
            return v
        if n["op"] == "!":
            return ("not", v)
        return ("neg", v)

    def e_ref(self, n):
        return self.expr(n["e"])

    def e_cast(self, n):
        v = self.expr(n["e"])
        w = v
        while isinstance(w, tuple) and w and w[0] == "call" and isinstance(w[1], str) and w[1].rsplit("::", 1)[-1] in ("clone", "deref", "borrow") and len(w[2]) == 1:
            w = w[2][0]
        if isinstance(w, tuple) and w and w[0] == "ctor" and not w[2] and isinstance(w[1], str) and "::" in w[1] \
                and str(n.get("ty", "")) in ("usize", "u8", "u16", "u32", "u64", "i32", "i64", "isize", "u128", "i128", "i8", "i16"):
            # `Variant as usize` of a field-less enum without explicit discriminants is the position of the variant in the declaration
            adt = self.eng.prog.adts.get(w[1].rsplit("::", 1)[0])
            if adt and adt.get("kind") == "enum" and all(not x.get("fields") and x.get("explicit_discr") is False for x in adt.get("variants", [])):
                names = [x["name"] for x in adt["variants"]]
                vn = w[1].rsplit("::", 1)[1]
                if vn in names:
                    return ("lit", Int(names.index(vn)))
        sty = str((n.get("e") or {}).get("ty", "")).lstrip("&").strip()
        adt = self.eng.prog.adts.get(sty)
        if adt and adt.get("kind") == "enum" and all(not x.get("fields") for x in adt.get("variants", [])):
            return ("call", "#discriminant:" + sty, (v,))       # the value is the variant's number, not the variant
        return v

    def e_field(self, n):
        return mk_field(self.expr(n["e"]), n["name"])

    def e_index(self, n):
        b = self.expr(n["e"])
        i = self.expr(n["i"])
        if self.st is None:
            return NEVER
        self._site(node=n, kind="index", callee=n.get("ovl"), name="index", args=[b, i], argnodes=[n["e"], n["i"]],
                   ty=n.get("ety"))
        ety = str(n.get("ety", ""))
        if "HashMap<" in ety or "BTreeMap<" in ety:
            # `map[key]` is `map.get(key).unwrap()` (same value, same panic)
            return ("proj", ("call", "#map::get", (b, i)), "std::prelude::v1::Some", 0)
        if b[0] == "array" and i[0] == "lit" and (isinstance(i[1], Int) or type(i[1]) is int) and 0 <= int(i[1]) < len(b[1]):
            return b[1][int(i[1])]           # a known element of a literal table
        return ("index", b, i)

    def e_struct(self, n):
        fields = []
        for f in n["fields"]:
            fields.append((f["name"], self.expr(f["e"])))
            if self.st is None:
                return NEVER
        if n.get("base"):
            self.expr(n["base"])
        path = n.get("ctor_of") or n.get("def")
        self._site(node=n, kind="struct", callee=path, name="struct", args=[t for _, t in fields],
                   argnodes=[f["e"] for f in n["fields"]], ty=n.get("ty"))
        return ("struct", path, tuple(fields))

    def e_block(self, n):
        return self.block(n)

    def e_if(self, n):
        return self.if_expr(n)

    def e_letx(self, n):
        scrut = self.expr(n["e"])
        self._bind(n["pat"], scrut, self.st.env)
        return ("matches", scrut, pat_desc(n["pat"]))

    def e_match(self, n):
        return self.match_expr(n)

    def e_loop(self, n):
        return self.loop_expr(n, "loop")

    def e_while(self, n):
        f = self._while_let_next_as_for(n)
        if f is not None:
            return self.loop_expr(f, "for")
        return self.loop_expr(n, "while")

    def _while_let_next_as_for(self, n):
        """`let mut it = <iter>; while let Some(p) = it.next() { body }` with `it` not touched by the body is `for p in <iter> { body }`."""
        c = n.get("c") or {}
        if c.get("k") != "letx":
            return None
        pat, e = c.get("pat") or {}, c.get("e") or {}
        if not (pat.get("k") == "pts" and str(pat.get("ctor_of", "")).endswith("::Some") and len(pat.get("subs") or []) == 1):
            return None
        if not (e.get("k") == "mcall" and e.get("name") == "next" and not e.get("args") and str(e.get("def", "")).endswith("Iterator::next")):
            return None
        recv = e.get("recv") or {}
        if not (recv.get("k") == "path" and recv.get("res") == "local"):
            return None
        lid = recv["lid"]
        for x in walk(n["body"]):
            if x.get("k") == "path" and x.get("res") == "local" and x.get("lid") == lid:
                return None           # the body advances / inspects the iterator itself (e.g. a tokenizer's look-ahead): a genuine while loop
        if self.st is None or lid not in self.st.env:
            return None
        return {"k": "for", "id": n["id"], "sp": n.get("sp"), "ty": n.get("ty"), "pat": pat["subs"][0], "iter": recv, "body": n["body"],
                "loop_id": n.get("loop_id", n["id"]), "label": n.get("label")}

    def e_for(self, n):
        return self.loop_expr(n, "for")

    def e_closure(self, n):
        cid = n["id"]
        self.summ.closures[cid] = (n, None)
        return ("closure", cid)

    def e_assign(self, n):
        v = self.expr(n["r"])
        if self.st is None:
            return NEVER
        r = self.root_local(n["l"])
        ap = self.access_path(n["l"])
        self._site(node=n, kind="assign", name=ap or "?", args=[v], argnodes=[n["r"]], ty=n["l"].get("ty"))
        if r is not None:
            lid, name, path = r
            if not path:
                self.st.env[lid] = v
            else:
                old = self.st.env.get(lid, ("unk", name))
                if old[0] == "struct" and len(path) == 1 and n["l"].get("k") == "field" and (n["l"].get("e") or {}).get("k") == "path" \
                        and any(f == path[0] for f, _ in old[2]):
                    # `s.f = v` on a struct literal
                    self.st.env[lid] = ("struct", old[1], tuple((f, v if f == path[0] else t) for f, t in old[2]))
                else:
                    self.st.env[lid] = ("mut", old, ("assign", ".".join(path), v), path)
        else:
            self.expr(n["l"])
        return UNIT

    def e_assignop(self, n):
        v = self.expr(n["r"])
        if self.st is None:
            return NEVER
        old = self.expr(n["l"])
        new = ("bin", n["op"].rstrip("="), old, v)
        r = self.root_local(n["l"])
        ap = self.access_path(n["l"])
        self._site(node=n, kind="assignop", name=ap or "?", args=[old, v], argnodes=[n["l"], n["r"]], term=new,
                   ty=n["l"].get("ty"), callee=n.get("ovl"))
        if r is not None:
            lid, name, path = r
            if not path:
                self.st.env[lid] = new
            else:
                o = self.st.env.get(lid, ("unk", name))
                self.st.env[lid] = ("mut", o, ("assign", ".".join(path), new), path)
        return UNIT

    def e_ret(self, n):
        v = self.expr(n["e"]) if n.get("e") else UNIT
        if self.st is None:
            return NEVER
        if self.closure_stack:
            # return from a closure body: not a function exit, but one of the values of the closure
            if self.closure_rets:
                since = []
                seen = False
                for c in self.pc:
                    if c[0] == "closure" and c[1] == self.closure_stack[-1]:
                        seen, since = True, []
                    elif seen:
                        since.append(c)
                self.closure_rets[-1].append((v, pc_term(since)))
            self.st = None
            return NEVER
        self._site(node=n, kind="return", name="return", args=[v], argnodes=[n.get("e")])
        self._ret(v, n, "return")
        self.st = None
        return NEVER

    def e_break(self, n):
        v = self.expr(n["e"]) if n.get("e") else UNIT
        if self.st is None:
            return NEVER
        frame = self._frame(n)
        self._site(node=n, kind="break", name="break", args=[v], argnodes=[n.get("e")], term=("loop", frame[0] if frame else None))
        if frame is not None:
            # the condition under which this `break` is taken, relative to the start of the loop body
            since = []
            seen = False
            for c in self.pc:
                if c[0] == "loop" and c[1] == frame[0]:
                    seen, since = True, []
                elif seen:
                    since.append(c)
            if n.get("e"):
                # `break value`: the value of the loop expression on this exit, simplified by what is known when the exit is taken
                try:
                    v = assume(v, [c for c in since if c[0] == "if"])
                except (ValueError, RecursionError):
                    pass
                self.st.env[("brk", frame[0])] = v
            frame[1].append(self.st)
            self._break_conds[id(self.st)] = pc_term(since) if all(c[0] in ("if", "match") for c in since) else None
        self.st = None
        return NEVER

    def e_continue(self, n):
        frame = self._frame(n)
        self._site(node=n, kind="continue", name="continue", args=[], argnodes=[], term=("loop", frame[0] if frame else None))
        if frame is not None:
            frame[2].append(self.st)
            # the condition under which this `continue` is taken, relative to the start of the loop body
            since = []
            seen = False
            for c in self.pc:
                if c[0] == "loop" and c[1] == frame[0]:
                    seen, since = True, []
                elif seen:
                    since.append(c)
            self._cont_conds[id(self.st)] = pc_term(since)
        self.st = None
        return NEVER

    def _frame(self, n):
        tgt = n.get("target")
        for f in reversed(self.loop_stack):
            if tgt is None or f[4] == tgt or f[0] == tgt:
                return f
        return self.loop_stack[-1] if self.loop_stack else None

    def _learn(self, c, pol):
        """A branch diverged: the condition is known for the rest of the block; values that were merged under it collapse."""
        if self.st is None:
            return
        import norm
        nz = self._learn_nz = getattr(self, "_learn_nz", None) or norm.Normalizer()
        fact = nz(c)
        while fact[0] == "not":
            fact, pol = fact[1], not pol
        if fact[0] in ("lit",):
            return
        pcs = [("if", fact, pol)]
        for lid, v in list(self.st.env.items()):
            if isinstance(v, tuple) and v and v[0] in ("ite", "mut", "field") and contains(v, lambda s_: s_[0] == "ite"):
                v2 = assume(nz(v), pcs)
                if v2 != v:
                    self.st.env[lid] = v2

    def _pc_push(self, c):
        self._pc_marks.append(len(self.pc))
        self.pc.append(c)

    def _pc_pop(self):
        del self.pc[self._pc_marks.pop():]

    def e_try(self, n):
        v = self.expr(n["e"])
        if self.st is None:
            return NEVER
        ty = str(n["e"].get("ty", ""))
        is_res = "Result<" in ty
        self._site(node=n, kind="try", name="?", args=[v], argnodes=[n["e"]], ty=ty)
        if self.closure_stack and self.closure_tries:
            self.closure_tries[-1].append((v, is_res))
        if not self.closure_stack:
            self.summ.returns.append((v, tuple(self.pc), self.st.may, self.st.must, n, "try"))
            import norm as _norm
            test = ("matches", v, _norm.OK_DESC if is_res else _norm.SOME_DESC)
            for lid, name in self.mut_params.items():
                self.mut_exits.setdefault(name, []).append((self.st.env.get(lid, ("param", name)), tuple(self.pc) + (("if", test, False, n["id"], "try-exit"),), None, None, n, "return"))
        # the rest of the enclosing block is only reached when the value was Ok / Some
        import norm
        self.pc.append(("if", ("matches", v, norm.OK_DESC if is_res else norm.SOME_DESC), True, n["id"], "try"))
        self._learn(("matches", v, norm.OK_DESC if is_res else norm.SOME_DESC), True)
        return mk_proj(v, "std::result::Result::Ok" if is_res else "std::option::Option::Some", 0)

    def e_become(self, n):
        return self.expr(n["e"])

    def e_constblock(self, n):
        return ("unk", "constblock")

    def e_err(self, n):
        return ("unk", "err")


# ------------------------------------------------------------------------------------------------
# term pretty-printer (reports / debugging)
# ------------------------------------------------------------------------------------------------

def _sh(p):
    if not isinstance(p, str):
        return str(p)
    parts = p.split("::")
    return parts[-1]


def pd(d):
    if d[0] == "wild":
        return "_"
    if d[0] == "var":
        subs = d[2]
        if d[3] == "struct":
            inner = ", ".join(f"{a}: {pd(b)}" for a, b in subs)
        else:
            inner = ", ".join(pd(x) for x in subs)
        return _sh(d[1]) + (f"({inner})" if subs else "")
    if d[0] == "or":
        return " | ".join(pd(x) for x in d[1])
    if d[0] == "lit":
        return repr(d[1])
    if d[0] == "tuple":
        return "(" + ", ".join(pd(x) for x in d[1]) + ")"
    return d[0]


def pt(t, depth=0):
    if not isinstance(t, tuple) or not t:
        return repr(t)
    if depth > 40:
        return "..."
    k = t[0]
    d = depth + 1
    if k == "param":
        return t[1]
    if k == "lit":
        return repr(t[1])
    if k == "def":
        return _sh(t[1])
    if k in ("unit", "never"):
        return k
    if k == "unk":
        return f"?{t[1]}"
    if k in ("call", "rec"):
        return ("rec:" if k == "rec" else "") + _sh(t[1]) + "(" + ", ".join(pt(a, d) for a in t[2]) + ")"
    if k == "callv":
        return "(" + pt(t[1], d) + ")(" + ", ".join(pt(a, d) for a in t[2]) + ")"
    if k == "ctor":
        return _sh(t[1]) + ("(" + ", ".join(pt(a, d) for a in t[2]) + ")" if t[2] else "")
    if k == "struct":
        return _sh(t[1]) + "{" + ", ".join(f"{a}: {pt(b, d)}" for a, b in t[2]) + "}"
    if k in ("tuple", "array"):
        return ("(" if k == "tuple" else "[") + ", ".join(pt(a, d) for a in t[1]) + (")" if k == "tuple" else "]")
    if k == "vec":
        return "vec![" + ", ".join(pt(a, d) for a in t[1]) + "]"
    if k == "field":
        return pt(t[1], d) + "." + t[2]
    if k == "proj":
        return pt(t[1], d) + "~" + _sh(t[2]) + "." + str(t[3])
    if k == "tproj":
        return pt(t[1], d) + "." + str(t[2])
    if k == "index":
        return pt(t[1], d) + "[" + pt(t[2], d) + "]"
    if k == "bin":
        return "(" + pt(t[2], d) + " " + t[1] + " " + pt(t[3], d) + ")"
    if k == "not":
        return "!" + pt(t[1], d)
    if k == "neg":
        return "-" + pt(t[1], d)
    if k == "matches":
        return "matches(" + pt(t[1], d) + ", " + pd(t[2]) + ")"
    if k == "fmt":
        return 'fmt"' + "".join(p if isinstance(p, str) else "{" + pt(p[1], d) + "}" for p in t[1]) + '"'
    if k == "ite":
        return "ite(" + pt(t[1], d) + " ? " + pt(t[2], d) + " : " + pt(t[3], d) + ")"
    if k == "switch":
        return "switch(" + pt(t[1], d) + "){" + "; ".join(pd(p[0]) + (" if " + pt(p[1], d) if p[1] else "") + " => " + pt(v, d) for p, v in t[2]) + "}"
    if k == "join":
        return "join(" + " | ".join(pt(a, d) for a in t[1]) + ")"
    if k == "loopvar":
        return f"${t[2]}@{t[1]}"
    if k == "mu":
        return f"mu[{t[2]}@{t[1]}](init={pt(t[3], d)}, step={pt(t[4], d)})"
    if k == "elem":
        return "elem(" + pt(t[1], d) + ")"
    if k == "payload":
        return "payload(" + pt(t[1], d) + ")"
    if k == "closure":
        return f"closure#{t[1]}"
    if k == "hof":
        return pt(t[2], d) + "." + t[1] + "(|..| " + pt(t[3], d) + ")"
    if k == "mut":
        return "mut(" + pt(t[1], d) + " <- " + pt(t[2], d) + ")"
    if k == "assign":
        return f".{t[1]} := {pt(t[2], d)}"
    if k == "arg":
        return pt(t[1], d)
    return k + "(" + ", ".join(pt(a, d) if isinstance(a, tuple) else repr(a) for a in t[1:]) + ")"


def ppc(pc):
    out = []
    for c in pc:
        if c[0] == "if":
            out.append(("" if c[2] else "!") + pt(c[1]))
        elif c[0] == "match":
            out.append(("" if c[3] else "!") + "(" + pt(c[1]) + " is " + pd(c[2]) + ")")
        elif c[0] == "loop":
            out.append(f"loop@{c[1]}")
        elif c[0] == "closure":
            out.append(f"closure#{c[1]}")
    return " && ".join(out)


if __name__ == "__main__":
    import facts, hir
    prog = hir.Program(facts.extract())
    inline = "--no-inline" not in sys.argv
    eng = Engine(prog, inline=inline)
    for name in [a for a in sys.argv[1:] if not a.startswith("--")]:
        for f in prog.find(name):
            s = eng.summary(f)
            print(f"== {f.qual}")
            print("   ret =", pt(s.ret))
            for r in s.returns:
                print(f"   return[{r[5]}] {pt(r[0])[:300]}   if {ppc(r[1])[:200]}")
            if "--sites" in sys.argv:
                for st in s.sites:
                    print(f"   site {st.kind:6} L{st.line()} {st.short():30} args={[pt(a)[:60] for a in (st.args or [])]}  pc={ppc(st.pc)[:160]}")
            if s.unresolved:
                print("   UNRESOLVED", s.unresolved)
