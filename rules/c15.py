"""C15 - sanitised results equal raw results and do not depend on spare variable sets.

Decided here (equality of sets and independence of the number of spare variable sets are value-level, not decided):
  C15-R1  sanitise o dirty: each of the sanitising entry points returns only values that passed through
          sanitize_colored_vertices(graph, .) applied element-wise (one-to-one, in order) to the results of the
          corresponding dirty pipeline run with the same arguments on the same graph - no raw result of eval_node reaches
          the caller unsanitised, and nothing else is done to the results;
  C15-R2  each sanitize_* function transfers the set's BDD from graph.symbolic_context() into
          graph.symbolic_context().as_canonical_context() and wraps the result with that same canonical context; nothing
          is quantified, renamed or filtered;
  C15-R3  the index of a variable's symbolic copy is computed from the variable name only (name.len() - 1), never from
          the number of extra variables of the graph; get_extended_symbolic_graph gives every network variable the same
          number of copies; check_hctl_var_support accepts a graph exactly when every network variable has at least as many
          copies as the tree has quantifier variables - no more is demanded (shared with C07-R4);
  C15-R4  "at least the required number": the tree whose variables are counted by the support check is the validated tree with
          minimised variable names, the one that is evaluated (parser + preprocessing on the graph's symbolic context, then
          check_hctl_var_support on that very tree) - counting the names as written would demand more copies than evaluation
          uses (shared with C14-R2);
  C15-R5  the number of copies a formula needs is its quantifier nesting depth only because the validator hands out the canonical
          names x, xx, ... by depth and gives a name back when its quantifier is left: the per-shape naming rules and the
          no-leaking-state rule of the validator (C07-R1 / C07-R3) are therefore part of this property."""
import evalnode as E
import lowlevel
import norm
import pipelines
import semantics as sem
import terms
from terms import subterms, pt

LEVEL = "other"
SAN = "postprocessing::sanitizing::"


def strip_sanitize(t, graph, found):
    """Replace `X.iter().map(|x| sanitize_colored_vertices(graph, x))` by a marker, collecting (graph, X);
    a sanitize call on anything else is collected with its argument."""
    if not isinstance(t, tuple) or not t:
        return t
    if t[0] == "hof" and t[1] == "map" and t[3][0] == "call" and isinstance(t[3][1], str) and t[3][1].endswith("sanitize_colored_vertices") \
            and len(t[3][2]) == 2 and t[3][2][1] == ("elem", t[2]):
        recv = t[2]
        while recv[0] == "call" and recv[1].rsplit("::", 1)[-1] in ("iter", "into_iter") and len(recv[2]) == 1:
            recv = recv[2][0]
        found.append((t[3][2][0], recv, "map"))
        return ("lit", "#sanitised-map")
    if t[0] == "call" and isinstance(t[1], str) and t[1].endswith("sanitize_colored_vertices") and len(t[2]) == 2:
        found.append((t[2][0], t[2][1], "single"))
        return ("lit", "#sanitised")
    return tuple(strip_sanitize(x, graph, found) if isinstance(x, tuple) else x for x in t)


def run(prog, rep):
    rep.explanation = __doc__
    rep.assumptions = ["L7 transfer_from maps a BDD by variable names and fails iff a variable has no namesake",
                       "C03 (closed results do not depend on auxiliary variables)"]
    rep.rule("C15-R1", "sanitising entry point == map(sanitize) over the dirty pipeline's results")
    rep.rule("C15-R2", "sanitize_* = transfer into the canonical context of the same graph")
    rep.rule("C15-R3", "symbolic copy index depends on the name only; uniform number of copies")
    deng = pipelines.driver_engine(prog)
    eps = {f.name: f for f in pipelines.entry_points(prog)}
    n = 0
    for name, f in sorted(eps.items()):
        if "dirty" in name or "unsafe" in name:
            continue
        dirty = eps.get(name + "_dirty")
        if dirty is None:
            rep.unresolved("C15-R1", f"{name}/sibling", f"{f.file}:{f.line}", "no dirty sibling found")
            continue
        n += 1
        rep.functions.add(f.qual)
        ts = deng.summary(f).ret
        td = deng.summary(dirty).ret
        # same parameter names in both siblings?
        mapping = {a: ("param", b) for a, b in zip(dirty.param_names(), f.param_names())}
        td = terms.subst(td, mapping)
        graph = [("param", p) for p, t in zip(f.param_names(), f.param_tys) if "SymbolicAsyncGraph" in t]
        nz = norm.Normalizer()
        ts, td = nz(ts), nz(td)

        def success_value(t):
            """The value on the paths that do not end in an error (errors of the dirty computation handed on by `?` / `map` are the
            same errors in both siblings: C14 / C07 look at them)."""
            def all_err(x):
                if x[0] == "ite":
                    return all_err(x[2]) and all_err(x[3])
                return x[0] == "ctor" and str(x[1]).rsplit("::", 1)[-1] == "Err"
            while t[0] == "ite" and (all_err(t[2]) or all_err(t[3])) and not (all_err(t[2]) and all_err(t[3])):
                t = t[3] if all_err(t[2]) else t[2]
            return t
        ts, td = success_value(ts), success_value(td)
        found = []

        def unsanitise(t, top=True):
            """The value with `sanitize_colored_vertices(g, y)` replaced by y at element positions (the element of the result
            collection, or the single result); `found` collects the graphs used."""
            if not isinstance(t, tuple) or not t:
                return t
            if t[0] == "call" and isinstance(t[1], str) and t[1].endswith("sanitize_colored_vertices") and len(t[2]) == 2:
                found.append(t[2][0])
                return t[2][1]
            if t[0] == "ctor" and str(t[1]).rsplit("::", 1)[-1] == "Ok" and len(t[2]) == 1:
                return ("ctor", t[1], (unsanitise(t[2][0]),))
            if t[0] == "collect":
                return ("collect", t[1], unsanitise(t[2]))
            if t[0] == "index":
                return ("index", unsanitise(t[1]), t[2])
            if t[0] == "call" and isinstance(t[1], str) and t[1].rsplit("::", 1)[-1] in ("clone", "to_owned") and len(t[2]) == 1:
                return ("call", t[1], (unsanitise(t[2][0]),))
            if t[0] == "ite":
                return ("ite", t[1], unsanitise(t[2]), unsanitise(t[3]))
            return ("#raw", t)

        def strip_raw(t):
            if not isinstance(t, tuple) or not t:
                return t
            if t[0] == "#raw":
                return t[1]
            return tuple(strip_raw(x) if isinstance(x, tuple) else x for x in t)
        un = unsanitise(ts)
        raws = [y[1] for y in subterms(un) if y[0] == "#raw"] + ([un[1]] if un[0] == "#raw" else [])
        raw_left = any(not (r[0] == "ctor" and str(r[1]).endswith("Err")) for r in raws)
        ok_graph = bool(found) and bool(graph) and all(g == graph[0] for g in found)
        ok_elem = nz(strip_raw(un)) == td
        good = not raw_left and ok_graph and ok_elem
        why = (f"values reach the caller without passing sanitize_colored_vertices={raw_left}; sanitised on the same graph={ok_graph}; "
               f"without the sanitising step the value equals the dirty sibling's result={ok_elem}")
        rep.check(good, "C15-R1", f"{name}", f"{f.file}:{f.line}", "result = map(sanitize_colored_vertices(graph, .)) over the dirty results", why)
    rep.floor("C15-R1", 10)
    eng = terms.Engine(prog, inline=False)
    for fname, ctor in (("sanitize_colored_vertices", "GraphColoredVertices"), ("sanitize_colors", "GraphColors"), ("sanitize_vertices", "GraphVertices")):
        f = prog.lib_fn(SAN + fname)
        if f is None:
            rep.unresolved("C15-R2", fname, "", "function not found")
            continue
        rep.functions.add(f.qual)
        s = terms.Engine(prog, inline=True, hooks=E.Hooks([SAN])).summary(f)      # helpers of the module are inlined
        pn = f.param_names()
        g, x = ("param", pn[0]), ("param", pn[1])
        t = s.ret
        good = False
        why = f"returns {sem.short(t, 200)}"
        if t[0] == "call" and t[1].endswith("::new") and ctor in t[1] and len(t[2]) == 2:
            bdd, cctx = t[2]
            canon_ok = cctx[0] == "call" and cctx[1].endswith("as_canonical_context") and cctx[2][0][0] == "call" and cctx[2][0][1].endswith("symbolic_context") and cctx[2][0][2] == (g,)
            tr = bdd
            if tr[0] == "call" and tr[1].rsplit("::", 1)[-1] in ("unwrap", "expect"):
                tr = tr[2][0]
            if tr[0] == "proj" and str(tr[2]).rsplit("::", 1)[-1] == "Some" and tr[3] == 0:
                tr = tr[1]
            tr_ok = (tr[0] == "call" and tr[1].endswith("transfer_from") and len(tr[2]) == 3 and tr[2][0] == cctx
                     and tr[2][1][0] == "call" and tr[2][1][1].endswith("as_bdd") and tr[2][1][2] == (x,)
                     and tr[2][2][0] == "call" and tr[2][2][1].endswith("symbolic_context") and tr[2][2][2] == (g,))
            good = canon_ok and tr_ok
        rep.check(good, "C15-R2", fname, f"{f.file}:{f.line}", f"{ctor}::new(canonical.transfer_from(x.as_bdd(), graph.symbolic_context()), canonical)", why)
    rep.floor("C15-R2", 3)
    lowlevel.check_primitives(prog, rep, "C15-R3")
    # a graph is accepted exactly when it has enough copies for the formula - no more is demanded (shared with C07-R4)
    import c07
    sub = type(rep)("C15s")
    c07.check_collection_and_support(prog, sub)
    for i in sub.instances:
        if "check_hctl_var_support" in i.key:
            (rep.ok if i.verdict == "ok" else rep.violation if i.verdict == "violation" else rep.unresolved)("C15-R3", i.key.split(":", 1)[1], i.where, i.detail)
    f = prog.lib_fn("mc_utils::get_extended_symbolic_graph")
    if f is not None:
        rep.functions.add(f.qual)
        # (private helpers of the module are inlined; its public functions stay symbols)
        pubs = [g_.path for g_ in prog.lib_fns() if g_.path.startswith("mc_utils::") and g_.vis == "Public"]
        s = terms.Engine(prog, inline=True, hooks=E.Hooks(["mc_utils::"], opaque_names=pubs)).summary(f)
        pn = f.param_names()
        ctxs = [x for x in s.all_sites() if x.kind == "call" and x.is_call_to("with_extra_state_variables")]
        bn, num = ("param", pn[0]), ("param", pn[1])
        good = len(ctxs) == 1 and ctxs[0].args[0] == bn
        if good:
            m = ctxs[0].args[1]
            while m[0] == "call" and m[1].rsplit("::", 1)[-1] in ("clone", "borrow", "as_ref") and len(m[2]) == 1:
                m = m[2][0]
            vs = ("call", m[1][1], (bn,)) if m[0] == "collectmap" and m[1][0] == "call" and str(m[1][1]).endswith("::variables") else None
            good = m[0] == "collectmap" and vs is not None and m[1] == vs and m[2] == ("lit", True) and m[3] == ("elem", vs) and m[4] == num
        rep.check(good, "C15-R3", "get_extended_symbolic_graph/uniform", f"{f.file}:{f.line}", "every network variable gets num_hctl_vars copies",
                  "the number of symbolic copies is not the same `num_hctl_vars` for every network variable")
    rep.floor("C15-R3", 8)
    # the required number of copies is that of the tree that is evaluated, i.e. of the validated tree with minimised variable names
    # (checking the tree as written would reject graphs that have enough copies): shared with C14-R2
    rep.rule("C15-R4", "the support check is made on the validated (minimised) tree that is evaluated")
    import c14
    import parserspec as PS
    sub2 = type(rep)("C15v")
    veng = terms.Engine(prog, inline=True, hooks=c14.PanicHooks(prog, [PS.PARSER]))
    roots = [f_ for f_ in pipelines.entry_points(prog) if any("str" in t_ for t_ in f_.param_tys)]
    c14.check_validator_placement(prog, sub2, veng, roots)
    for i in sub2.instances:
        k_ = i.key.split(":", 1)[1] if ":" in i.key else i.key
        if k_.endswith("/support") or k_.endswith("/parsed") or k_.endswith("/shape") or k_ in ("parse_and_validate", "parse_and_validate_extended"):
            (rep.ok if i.verdict == "ok" else rep.violation if i.verdict == "violation" else rep.unresolved)("C15-R4", k_, i.where, i.detail)
    rep.floor("C15-R4", 4)
    # the number of copies a formula needs is its quantifier nesting depth only because the validator hands out the names x, xx, ... by
    # depth and gives a name back when its quantifier is left: a name that leaks into a sibling scope makes the tree need more copies
    # than its depth (Err on a graph that has enough of them).  Shared with C07-R1 (names by depth) / C07-R3 (no state leaks).
    rep.rule("C15-R5", "canonical names are handed out by nesting depth and given back on scope exit")
    sub3 = type(rep)("C15n")
    c07.run(prog, sub3)
    for i in sub3.instances:
        if i.rule in ("C07-R1", "C07-R3"):
            (rep.ok if i.verdict == "ok" else rep.violation if i.verdict == "violation" else rep.unresolved)("C15-R5", i.key.split(":", 1)[1], i.where, i.detail)
    rep.floor("C15-R5", 17)
